"""C08 - TOUGH2 grid stays internally consistent under any sequence of edits.

model      lean/PyTough/Model/Grid.lean (heap of rocktype/t2block/t2connection objects + the six public
           containers; every registry method of t2grid transcribed, fix_block_mapping included),
           Model/GridInv.lean (the invariant `Inv`, the per-operation precondition `pre`, the known-finding
           classifier), Model/GridProto.lean (line protocol)
theorems   lean/PyTough/Props/C08.lean
tie        correspondence: the same edit histories are applied to the real t2grid (in-process) and to the
           compiled model; after every operation both print a canonical dump of the public state
           (orders, names, dictionary keys -> list index of the object by identity, each block's sorted
           connection_name, rock type and whether it is the registered object, payload as exact
           rationals, exception class) and the dumps are diffed.  Facets: corpus (fixed histories incl. the
           first excluded point of every Pre clause), exhaustive (every operation over a universe of 4 block
           names / 2 rock types applied in every distinct state reachable by valid edits up to a depth),
           random (long random histories on grids built by the real fromgeo), pre_class (the model's
           classification of each call vs the harness'), inv_flag (the model's Inv vs the oracle's
           identity reading on the real state).
oracle     the property's clauses evaluated on the real grid after every operation, once reading
           "in the grid / registered / mention" by name and once by object identity; a state violates only
           if both readings fail.  After a valid rename: names mapped in place, lookup has exactly the new
           names and reaches the same objects.  t2grid.check() must run.
"""
import json, time, itertools, hashlib
import core
from core import Result
from props import gridlib as G

ID = 'C08'
MODULE = 'PyTough.Props.C08'
TARGETS = ['PyTough.Props.C08', 'drv_c08']
THEOREMS = ['Props.C08.' + t for t in [
    'consistent_of_inv', 'checkInv_iff', 'inv_empty', 'inv_step', 'inv_run', 'inv_fromgeo', 'consistent_after_any_history',
    'rename_loses_no_block', 'rename_keeps_inv', 'grid_addition_consistent', 'embed_consistent',
    'block_index_correct', 'connection_index_correct',
    'inv_step_unconditional', 'consistent_after_unconditional_edits', 'preTotal_of_unconditional', 'preTotal_of_pre',
    'inv_step_total', 'reorder_unknown_name_raises', 'inv_run_total', 'consistent_after_any_history_total',
    'preAllTotal_of_preAll', 'connection_record_by_name', 'delete_block_deletes_exactly_its_connections',
    'Examples.F1_add_block_replaces_connected_block', 'Examples.F2_rocktype_replaced_while_in_use',
    'Examples.F3_delete_rocktype_in_use']]
LEVEL_TEXT = ('Proof: the consistency invariant Inv (lists and lookups describe the same objects under unique current names, connections join two '
              'grid blocks and sit under their current name pair, each block has exactly the connection record of is exactly the connections that mention it, every rock '
              'type registered) is proved inductive in Lean for the executable heap model of t2grid: inv_step_core for add/delete block, connection, rock '
              'type, rename_rocktype, clean/sort_rocktypes, demote_block, reorder, rename_blocks, minc, grid addition, embed and re-adding removed objects '
              '(inv_step, all 20 operations of the alphabet) under an explicit decidable precondition `pre`, inv_run by induction over any history; '
              'grid addition and embed also as theorems about any two consistent grids in one heap; '
              'rename_loses_no_block for every name map that keeps names distinct (swaps, cycles); block_index/connection_index correct. '
              'The three situations where the current code really breaks the invariant (F1 add_block over a connected name, F2 rock type replaced while '
              'in use, F3 delete_rocktype in use) are excluded by `pre`, proved to break Inv on a witness, replayed on the real code and listed as known findings. '
              'Round 3: inv_step_unconditional - eight operations (rename_rocktype, clean/sort_rocktypes, delete_block, demote_block, delete_connection, minc, '
              're-adding the same block) keep Inv for ANY argument, raising or not; consistent_after_unconditional_edits - any history of those from any consistent grid, no precondition. '
              'preTotal_of_unconditional / preTotal_of_pre - the weakened precondition preTotal is constantly true on those eight and implied by pre. '
              'inv_step_total - every operation keeps Inv under preTotal, which for reorder also admits every call with an unknown block name or unknown connection pair; '
              'reorder_unknown_name_raises - those two branches explicitly (KeyError with the grid untouched; exception with the old connection list and a consistent state). '
              'inv_run_total / consistent_after_any_history_total - the reachable-state theorem with a precondition demanded only for the operations of needsPre; '
              'preAllTotal_of_preAll - it covers every history the earlier theorem covered. '
              'connection_record_by_name - in every such reachable state k is in a block\'s connection_name iff k is a key of grid.connection and contains the block\'s name. '
              'delete_block_deletes_exactly_its_connections - delete_block never raises on a consistent grid, removes the block, exactly the connections with it as an end '
              '(list order kept, exactly the keys of its record leave the lookup and every other record) and touches nothing else; unknown name: no-op. '
              'Still NOT proved without precondition (the code does not guard them; each leaves the grid inconsistent on a witness or is a known finding): add_rocktype/readd over an in-use name (F2), '
              'delete_rocktype in use (F3), add_block over a connected name (F1) or with an unregistered rock-type object, add_connection with a block that is not the grid\'s or a self-connection, '
              'reorder with known names that are not a permutation, rename_blocks with a colliding map, grid addition/embed outside their stated conditions. '
              'check(fix=True) and copy_connection_directions remain outside the model. '
              'Tied to /repo by a correspondence run after every operation (exhaustive small scope + random histories on fromgeo grids) and an independent oracle.')
LEVEL_NOTE = ('`pre` excludes exactly: argument misuse (foreign objects, self-connection, non-permutation lists, name maps that collide - the last by the property text) '
              'and the known findings F1-F3; every excluded class is run on the real code (corpus) and the harness reports how many explored cases met `pre`. '
              'Trusted: Lean kernel (+propext, Classical.choice, Quot.sound); the heap model (tied by correspondence, not proved equal to the Python); '
              'the rendering of "grid edits" as the op alphabet; Python sets modelled as duplicate-free lists.')
TECHNIQUE = 'Lean 4 proof (invariant by induction over operation sequences) about an executable heap model of the t2grid registry + differential correspondence with the real t2grid after every operation'
ASSUMPTIONS = [
    'Python sets are modelled as duplicate-free lists: a history ends when an exception escapes from a loop over a set (the partial state then depends on hash order, also in CPython)',
    'MINC geometry numbers (a, d from scipy.optimize.bisect) are parameters of the model, recovered from the first MINC chain of the real run',
    'arithmetic over Q in the model vs doubles in the code (only MINC volumes/areas and embed: compared to 1e-12 relative; everything else exact)',
]
TRUSTED_EXTRA = ['the op alphabet of harness/props/gridlib.py as a rendering of "grid edits" (each op is one public t2grid call on objects built with the public constructors)']

N4 = ['AA  1', 'BB  1', 'CC  1', 'DD  1']
R2 = ['r1   ', 'r2   ']
PAY = [1, 2.0, 3.0, 4.0, -1.0, None, None]
PAY2 = [3, 1.0, 0.5, 2.0, 0.25, 1, 2]


# ------------------------------------------------------------------ evaluation of one history


class Verdicts:
    def __init__(self):
        self.violations = []      # oracle hits on the real code
        self.disagreements = []   # model vs implementation


def history_case(start, ops):
    return {'start': start, 'ops': ops}


def evaluate(hist, res, ctx, facet, model_reply=None, only_last=False):
    """oracle on every step of a history that was run on the real code, and comparison with the model's
    reply when given.

    Which class an operation falls in (within Pre / known finding / misuse) is taken from the model when
    the model was run on that step (it is the reference description of the unchanged code) and from the
    harness' own classification otherwise; the two are compared (facet pre_class).

    A state that fails both readings of the property
      * in a history whose operations were all within Pre            -> violation  inv:<op>:<clause>
      * after a known-finding operation, while real code and model still agree on every state
                                                                    -> the known finding's key
      * after a known-finding operation, but where the real code has left the model (so the failure
        is not explained by the known behaviour)                     -> violation  after-<F>:<op>:<clause>
      * after an argument-misuse operation                           -> not judged."""
    start_ops, steps, g, trunc = hist._real
    cause = None
    reported = False
    agreed = True            # real code and model agreed on every compared step so far
    f = res.facet(facet)
    fp = res.facet('pre_class')
    fi = res.facet('inv_flag')
    model = G.parse_reply(model_reply) if model_reply is not None else None
    mi = 0
    for i, st in enumerate(steps):
        last = i == len(steps) - 1
        checked = (not only_last) or last
        opk = st.op[0]
        case = history_case(hist.start, [s.op for s in steps[:i + 1]])
        # ---- correspondence first (the verdict on this step depends on it)
        cls = st.cls
        stop = False
        if model is not None and i >= hist.dump_from:
            head, pre, inv, wd = G.split_model_dump(model[mi])
            mi += 1
            cls = pre
            if st.applied.set_loop_exc:
                same = head.startswith('E=') and not head.startswith('E=-')   # only "both raised" is comparable
            else:
                same = head == st.head and G.dumps_equal(st.dump, wd, 1e-12 if st.inexact else None)
            f['cases'] += 1
            if not same:
                agreed = False
                stop = True
                f['disagreements'] += 1
                res.disagreements.append(dict(facet=facet, case=case, model=(head + ';' + wd)[:600], impl=(st.head + ';' + st.dump)[:600]))
            fp['cases'] += 1
            if pre != st.cls:
                agreed = False
                fp['disagreements'] += 1
                res.disagreements.append(dict(facet='pre_class', case=case, model=pre, impl=st.cls))
            if same:
                fi['cases'] += 1
                if inv != st.inv_expected:
                    fi['disagreements'] += 1
                    res.disagreements.append(dict(facet='inv_flag', case=case, model=str(inv), impl=str(st.inv_expected)))
        if cause is None and cls != 'ok':
            cause = cls
        if checked:
            res.evaluations += 1
            res.count('op:' + opk)
            res.count('class:' + cls)
            if st.applied.exc:
                res.count('exc:' + st.applied.exc)
            h = res.hyp.setdefault('pre (hypothesis of inv_step)', [0, 0])
            h[1] += 1
            h[0] += cls == 'ok'
        # ---- oracle
        if not reported:
            if st.weak and st.strong:
                if cause is None:
                    res.violations.append(dict(key='inv:%s:%s' % (opk, st.weak[0]),
                                               what='after %s the grid is inconsistent: %s (by name) / %s (by identity)' % (json.dumps(st.op)[:160], st.weak, st.strong),
                                               case=case))
                    reported = True
                elif cause in G.FINDING_KEYS:
                    if agreed:
                        res.violations.append(dict(key=G.FINDING_KEYS[cause], what='%s: after %s: %s' % (cause, json.dumps(st.op)[:120], st.weak), case=case))
                        res.count('known-finding-consequence:' + cause)
                    else:
                        res.violations.append(dict(key='after-%s:%s:%s' % (cause, opk, st.weak[0]),
                                                   what='after %s (following the known finding %s, but not explained by it: the real code left the model) the grid is inconsistent: %s' % (json.dumps(st.op)[:140], cause, st.weak),
                                                   case=case))
                    reported = True
                else:
                    res.count('broken-after-misuse')
            elif cause is None:
                if st.strong:
                    res.count('identity-reading-only-failure')
                if st.rename_msg:
                    res.violations.append(dict(key='rename-loses-block', what='rename_blocks(%s): %s' % (json.dumps(st.op[1])[:120], st.rename_msg), case=case))
                    reported = True
                if st.check_exc:
                    res.violations.append(dict(key='check-raises:' + st.check_exc, what='t2grid.check() raises %s after %s' % (st.check_exc, json.dumps(st.op)[:120]), case=case))
                    reported = True
        if st.applied.set_loop_exc:
            res.count('history-ended:exception-inside-set-loop')
            break
        if stop:
            break
    return steps


def run_history(hist, gen=None, nmax=0):
    """run on the real code, recording what the oracle needs; `gen(g, i, rng-state)` draws operations
    on the fly from the live grid"""
    g = G.start_grid(hist.start)
    start_ops = G.grid_as_ops(g) if hist.start is not None else []
    reg = G.Registry()
    reg.scan(g)
    hist._reg = reg
    steps, names_before = [], []
    inexact = False
    i = 0
    ops = list(hist.ops)
    while True:
        if gen is not None:
            if i >= nmax:
                break
            op = gen(g, i, reg)
            if op is None:
                break
            ops.append(op)
        elif i >= len(ops):
            break
        op = ops[i]
        st = G.Step()
        st.op = op
        st.cls = G.classify(g, op, reg)
        names_before.append(([b.name for b in g.blocklist], [id(b) for b in g.blocklist]) if op[0] == 'rename_blocks' else None)
        if op[0] in ('minc', 'embed', 'embed_standalone'):
            inexact = True
        hv = g.block[op[2]].volume if (op[0] in ('embed', 'embed_standalone') and op[2] in g.block) else None
        a = G.apply_op(g, op, reg)
        g = a.grid
        if hv is not None and a.exc is None and a.flag and op[2] in g.block:
            # the model subtracts in Q, the code in doubles: a sub-grid absorbed by rounding (host volume
            # 1e25) later decides `0 < volume < atmos_volume` differently: unstable, history ends before it
            exact = G.frac(hv) - sum(G.frac(b[2]) for b in op[1]['blocks'])
            if abs(G.frac(g.block[op[2]].volume) - exact) > abs(exact) * G.Fraction(1, 10 ** 12):
                hist.unstable = getattr(hist, 'unstable', 0) + 1
                ops = ops[:i]
                break
        st.applied, st.inexact = a, inexact
        st.head, st.dump = G.dump_applied(a), G.dump_grid(g)
        st.weak, st.strong = G.oracle(g, False), G.oracle(g, True)
        st.inv_expected = (not st.strong) and all(c.block[0] is not c.block[1] for c in g.connectionlist)
        st.check_exc = G.check_runs(g) if (not st.weak and not st.strong) else None
        # the rename oracle needs the grid right after the call
        st.rename_msg = None
        if op[0] == 'rename_blocks' and not a.exc and st.cls == 'ok' and not (op[2] and G.fixing_changes(op[1])):
            st.rename_msg = G.rename_oracle(names_before[-1][0], names_before[-1][1], g, op)
        steps.append(st)
        i += 1
        if a.set_loop_exc:
            break
    hist.ops = ops
    hist._real = (start_ops, steps, g, False)
    hist._names_before = names_before
    return hist


# ------------------------------------------------------------------ fixed corpus

def connected3():
    return [['add_rocktype', R2[0], 1], ['add_block', N4[0], R2[0], 1.0, None], ['add_block', N4[1], R2[0], 2.0, None],
            ['add_block', N4[2], R2[0], 4.0, None], ['add_connection', N4[0], N4[1], PAY], ['add_connection', N4[1], N4[2], PAY2]]


SPEC_EF = {'rocks': [['r3   ', 3]], 'blocks': [['EE  1', 'r3   ', 0.25, None], ['FF  1', 'r3   ', 0.25, None]], 'cons': [[0, 1, PAY]]}
SPEC_SAME_ROCK = {'rocks': [[R2[0], 9]], 'blocks': [['EE  1', R2[0], 0.25, None]], 'cons': []}
SPEC_SAME_BLOCK = {'rocks': [['r3   ', 3]], 'blocks': [[N4[0], 'r3   ', 0.25, None]], 'cons': []}

# name -> (start, ops, expected class of the last op).  The first excluded point of every Pre clause is here.
CORPUS = {
    'F1-add_block-over-connected': (None, connected3() + [['add_block', N4[0], R2[0], 8.0, None], ['delete_block', N4[0]]], None),
    'F1-add-common-block-name': (None, connected3() + [['add', SPEC_SAME_BLOCK, True]], 'F1'),
    'F2-add_rocktype-over-used': (None, connected3() + [['add_rocktype', R2[0], 2], ['rename_rocktype', R2[0], R2[1]]], None),
    'F2-add-common-rock-name': (None, connected3() + [['add', SPEC_SAME_ROCK, True], ['rename_rocktype', R2[0], R2[1]]], None),
    'F2-embed-common-rock-name': (None, connected3() + [['embed', SPEC_SAME_ROCK, N4[0], 'EE  1', PAY], ['rename_rocktype', R2[0], R2[1]]], None),
    'F3-delete_rocktype-in-use': (None, connected3() + [['delete_rocktype', R2[0]]], 'F3'),
    'rename-swap': (None, connected3() + [['rename_blocks', [[N4[0], N4[1]], [N4[1], N4[0]]], True]], 'ok'),
    'rename-3cycle': (None, connected3() + [['rename_blocks', [[N4[0], N4[1]], [N4[1], N4[2]], [N4[2], N4[0]]], False]], 'ok'),
    'rename-chain-to-fresh': (None, connected3() + [['rename_blocks', [[N4[0], N4[3]], [N4[1], N4[0]]], True]], 'ok'),
    'rename-fixable-names': (None, connected3() + [['rename_blocks', [[N4[0], 'ab1 5'], [N4[1], 'ab2 7']], True]], 'ok'),
    'rename-short-name-indexerror': (None, connected3() + [['rename_blocks', [[N4[0], 'ab']], True]], 'ok'),
    'misuse-rename-collides': (None, connected3() + [['rename_blocks', [[N4[0], N4[1]]], True]], 'misuse'),
    'rename-map-key-listed-twice': (None, connected3() + [['rename_blocks', [[N4[0], N4[0]], [N4[1], N4[3]], [N4[0], N4[1]]], False]], 'ok'),
    'misuse-add_block-unregistered-rock': (None, connected3() + [['add_block', N4[3], R2[1], 1.0, None]], 'misuse'),
    'misuse-add_connection-foreign-block': (None, connected3() + [['add_connection', N4[0], N4[3], PAY]], 'misuse'),
    'misuse-self-connection': (None, connected3() + [['add_connection', N4[0], N4[0], PAY], ['delete_connection', N4[0], N4[0]]], None),
    'misuse-reorder-subset': (None, connected3() + [['reorder', [N4[1], N4[0]], None]], 'misuse'),
    'misuse-reorder-connections-subset': (None, connected3() + [['reorder', None, [[N4[1], N4[0]]]]], 'misuse'),
    'misuse-reorder-connection-twice': (None, connected3() + [['reorder', None, [[N4[1], N4[0]], [N4[0], N4[1]], [N4[1], N4[2]]]]], 'misuse'),
    'misuse-add-common-unconnected-block': (None, connected3() + [['add_block', N4[3], R2[0], 1.0, None],
                                                                  ['add', {'rocks': [['r3   ', 3]], 'blocks': [[N4[3], 'r3   ', 0.25, None]], 'cons': []}, True]], 'misuse'),
    'misuse-embed-unknown-host': (None, connected3() + [['embed', SPEC_EF, N4[3], 'EE  1', PAY]], 'misuse'),
    'reorder-reversed': (None, connected3() + [['reorder', [N4[2], N4[0], N4[1]], [[N4[2], N4[1]], [N4[0], N4[1]]]]], 'ok'),
    'reorder-unknown-connection': (None, connected3() + [['reorder', None, [[N4[0], N4[2]], [N4[0], N4[1]], [N4[1], N4[2]]]]], 'misuse'),
    'demote-unknown': (None, connected3() + [['demote_block', [N4[0], N4[3]]]], 'ok'),
    'replace-unconnected-block': (None, connected3() + [['add_block', N4[3], R2[0], 1.0, None], ['add_block', N4[3], R2[0], 2.0, None]], 'ok'),
    'replace-unused-rock': (None, connected3() + [['add_rocktype', R2[1], 2], ['add_rocktype', R2[1], 3], ['clean_rocktypes']], 'ok'),
    'replace-connection': (None, connected3() + [['add_connection', N4[0], N4[1], PAY2], ['delete_block', N4[1]]], 'ok'),
    'minc-twice-duplicate': (None, connected3() + [['minc', [1.0, 3.0], 50., 1, None], ['minc', [1.0, 2.0, 1.0], 20., 3, [N4[0], N4[1]]]], 'ok'),
    'minc-then-rename-reorder': (None, connected3() + [['minc', [1.0, 1.0, 2.0], 50., 2, [N4[1]]], ['rename_blocks', [[N4[1], N4[3]]], True],
                                                       ['sort_rocktypes'], ['clean_rocktypes'], ['delete_block', N4[3]]], 'ok'),
    'add-right-then-embed': (None, connected3() + [['add', SPEC_EF, False], ['embed', {'rocks': [['r4   ', 4]], 'blocks': [['GG  1', 'r4   ', 0.25, None], ['HH  1', 'r4   ', 0.125, None]], 'cons': [[0, 1, PAY]]}, N4[0], 'GG  1', PAY2],
                                                   ['delete_block', 'GG  1'], ['clean_rocktypes']], 'ok'),
    'embed-standalone-host': (None, connected3() + [['embed_standalone', SPEC_EF, N4[2], 'EE  1', PAY2, 4.0], ['embed_standalone', SPEC_EF, N4[0], 'EE  1', PAY2, 64.0]], None),
    'embed-too-big-and-duplicate': (None, connected3() + [['embed', {'rocks': [['r4   ', 4]], 'blocks': [['GG  1', 'r4   ', 8.0, None]], 'cons': []}, N4[0], 'GG  1', PAY],
                                                          ['embed', {'rocks': [['r4   ', 4]], 'blocks': [[N4[1], 'r4   ', 0.125, None]], 'cons': []}, N4[0], N4[1], PAY]], 'ok'),
    'fromgeo-rect-atm0': ({'geo': {'dx': [10., 20.], 'dy': [10.], 'dz': [5., 5.], 'atmos': 0}}, [['reorder', None, None], ['clean_rocktypes']], 'ok'),
    'fromgeo-rect-atm1': ({'geo': {'dx': [10., 20., 10.], 'dy': [10., 5.], 'dz': [5., 5.], 'atmos': 1}}, [['sort_rocktypes']], 'ok'),
    'fromgeo-irregular-atm2': ({'geo': {'dx': [10., 20., 10.], 'dy': [10., 5., 5.], 'dz': [5., 5., 2.], 'atmos': 2, 'refine': [4], 'surface': [0., -3., -6., -11.]}}, [['sort_rocktypes']], 'ok'),
}


def corpus_histories():
    for name, (start, ops, _) in CORPUS.items():
        h = G.History([list(o) for o in ops], start)
        h.name = name
        yield h


# ------------------------------------------------------------------ exhaustive small scope

def reuse_alphabet():
    """operations that hand an existing object to add_* again (a deleted block / rock type / connection,
    an object of a discarded second grid, an object that is already in the grid)"""
    ops = []
    for n in N4:
        ops += [['readd_block', n], ['again_block', n]]
        for r in R2:
            ops.append(['add_block_fresh', n, r, 1.0, None])
    for r in R2:
        ops.append(['readd_rocktype', r])
    for a, b in itertools.permutations(N4[:3], 2):
        ops.append(['readd_connection', a, b])
    return ops


def static_alphabet():
    ops = []
    for r in R2:
        ops += [['add_rocktype', r, 1], ['delete_rocktype', r]]
    ops += [['rename_rocktype', R2[0], R2[1]], ['rename_rocktype', R2[1], R2[0]], ['clean_rocktypes'], ['sort_rocktypes']]
    for n in N4:
        for r in R2:
            ops.append(['add_block', n, r, 1.0, None])
        ops += [['delete_block', n], ['demote_block', [n]]]
    for a in N4:
        for b in N4:
            ops.append(['add_connection', a, b, PAY])
            if a != b:
                ops.append(['delete_connection', a, b])
    ops += [['minc', [1.0, 1.0], 50., 1, None], ['minc', [1.0, 2.0, 1.0], 50., 2, [N4[0]]]]
    ops += reuse_alphabet()
    s1 = {'rocks': [[R2[1], 2]], 'blocks': [[N4[2], R2[1], 0.25, None], [N4[3], R2[1], 0.25, None]], 'cons': [[0, 1, PAY]]}
    s2 = {'rocks': [[R2[0], 2]], 'blocks': [[N4[3], R2[0], 0.25, None]], 'cons': []}
    for s in (s1, s2):
        ops += [['add', s, True], ['add', s, False], ['embed', s, N4[0], N4[3], PAY], ['embed_standalone', s, N4[0], N4[3], PAY, 1.0]]
    return ops


def dynamic_alphabet(g, rng, full):
    """operations whose arguments are drawn from the current state"""
    ops = []
    names = [b.name for b in g.blocklist]
    # every name map on the universe with keys among the current names (others are no-ops), identity excluded
    maps = []
    for k in range(1, len(names) + 1):
        for keys in itertools.combinations(names, k):
            for vals in itertools.permutations(N4, k):
                if any(a != b for a, b in zip(keys, vals)):
                    maps.append([[a, b] for a, b in zip(keys, vals)])
    if not full and len(maps) > 24:
        maps = rng.sample(maps, 24)
    for m in maps:
        ops.append(['rename_blocks', m, True])
    perms = list(itertools.permutations(names)) if len(names) <= 4 else []
    if not full and len(perms) > 6:
        perms = rng.sample(perms, 6)
    for p in perms:
        ops.append(['reorder', list(p), None])
    if len(names) >= 2:
        ops.append(['reorder', names[:-1], None])
        ops.append(['reorder', names + names[:1], None])
    keys = [list(k) for k in (tuple(b.name for b in c.block) for c in g.connectionlist)]
    if 1 <= len(keys) <= 3:
        cl = []
        for p in itertools.permutations(keys):
            for mask in range(2 ** len(keys)):
                cl.append([k[::-1] if (mask >> i) & 1 else k for i, k in enumerate(p)])
        if not full and len(cl) > 8:
            cl = rng.sample(cl, 8)
        for c in cl:
            ops.append(['reorder', None, c])
        ops.append(['reorder', None, keys[:-1] + [keys[0][::-1]]])
    return ops


def core_alphabet():
    """the add / delete / rename core over 3 of the 4 block names and both rock types"""
    ops = []
    for r in R2:
        ops += [['add_rocktype', r, 1], ['delete_rocktype', r]]
    ops += [['rename_rocktype', R2[0], R2[1]], ['rename_rocktype', R2[1], R2[0]]]
    for n in N4[:3]:
        ops += [['add_block', n, R2[0], 1.0, None], ['add_block', n, R2[1], 1.0, None], ['delete_block', n]]
    for a, b in itertools.permutations(N4[:3], 2):
        ops += [['add_connection', a, b, PAY], ['delete_connection', a, b]]
    return ops


def core_renames(g):
    """every non-identity name map on the universe whose keys are current names and which collides with no
    unrenamed block (the property's own quantifier), for grids of at most 3 blocks"""
    names = [b.name for b in g.blocklist]
    maps = []
    for k in range(1, len(names) + 1):
        for keys in itertools.combinations(names, k):
            rest = set(names) - set(keys)
            for vals in itertools.permutations(N4, k):
                if any(a != b for a, b in zip(keys, vals)) and not (set(vals) & rest):
                    maps.append(['rename_blocks', [[a, b] for a, b in zip(keys, vals)], True])
    return maps


def exhaustive_core(ctx, res, budget_s, max_depth):
    """the add/delete/rename core, every operation in every distinct valid state, breadth first from the
    empty grid and from a grid with one rock type and two connected blocks"""
    t0 = time.time()
    static = core_alphabet()
    seeds = [[], [['add_rocktype', R2[0], 1], ['add_block', N4[0], R2[0], 1.0, None], ['add_block', N4[1], R2[0], 1.0, None],
                  ['add_connection', N4[0], N4[1], PAY]]]
    seen, frontier = {}, []
    for s in seeds:
        d = run_history(G.History([list(o) for o in s]))._real[1][-1].dump if s else G.dump_grid(G.start_grid(None))
        if d not in seen:
            seen[d] = True
            frontier.append(s)
    hists, lines = [], []
    depth, complete, napp = 0, True, 0
    while frontier and depth < max_depth:
        nxt = []
        done = 0
        for path in frontier:
            if time.time() - t0 > budget_s:
                complete = False
                break
            done += 1
            g0 = run_history(G.History([list(o) for o in path]))._real[2]
            for op in static + core_renames(g0):
                h = run_history(G.History([list(o) for o in path] + [op]))
                h.dump_from = len(path)
                st = h._real[1][-1]
                hists.append(h)
                lines.append(G.model_line([], h._real[1], dump_from=len(path)))
                napp += 1
                if st.cls == 'ok' and not st.applied.exc and st.dump not in seen:
                    seen[st.dump] = True
                    nxt.append(path + [op])
        res.stats['exhaustive-core:depth-%d-states-expanded' % (depth + 1)] = '%d of %d' % (done, len(frontier))
        frontier = nxt
        depth += 1
        res.stats['exhaustive-core:depth-%d-new-states' % depth] = len(nxt)
    res.stats['exhaustive-core:distinct-states'] = len(seen)
    res.stats['exhaustive-core:operations-applied'] = napp
    res.stats['exhaustive-core:complete-to-depth'] = depth if complete else depth - 1
    return hists, lines


def exhaustive(ctx, res, budget_s, max_depth, full):
    """apply every operation of the alphabet in every distinct state reachable from the seeds through
    valid operations (class ok) in at most max_depth steps; distinct = distinct canonical dumps"""
    rng = ctx.rng('exhaustive')
    static = static_alphabet()
    t0 = time.time()
    seeds = [[], connected3(), connected3() + [['add_rocktype', R2[1], 2], ['add_block', N4[3], R2[1], 1.0, None], ['add_connection', N4[2], N4[0], PAY2]]]
    seen = {}
    frontier = []
    for s in seeds:
        h = run_history(G.History([list(o) for o in s]))
        d = h._real[1][-1].dump if s else G.dump_grid(G.start_grid(None))
        if d not in seen:
            seen[d] = True
            frontier.append(s)
    lines, hists = [], []
    depth = 0
    complete = True
    fseen, fstates = {}, []
    while frontier and depth < max_depth:
        nxt = []
        for path in frontier:
            if time.time() - t0 > budget_s:
                complete = False
                break
            g0 = run_history(G.History([list(o) for o in path]))._real[2]
            ops = static + dynamic_alphabet(g0, rng, full)
            for op in ops:
                h = run_history(G.History([list(o) for o in path] + [op]))
                h.dump_from = len(path)
                st = h._real[1][-1]
                hists.append(h)
                lines.append(G.model_line([], h._real[1], dump_from=len(path)))
                if st.cls == 'ok' and not st.applied.exc and st.dump not in seen:
                    seen[st.dump] = True
                    nxt.append(path + [op])
                elif st.cls in G.FINDING_KEYS and not st.applied.exc and (st.cls, st.dump) not in fseen:
                    fseen[(st.cls, st.dump)] = True
                    fstates.append(path + [op])
        frontier = nxt
        depth += 1
        res.count('exhaustive:depth-%d-new-states' % depth, len(nxt))
    # states right after a known-finding operation (consistent by name or not, never by identity): every
    # operation once more from there; the model says what the unchanged code does, the oracle judges
    # whatever the model does not explain
    if not full and len(fstates) > 40:
        fstates = rng.sample(fstates, 40)
    elif full and len(fstates) > 1500:
        fstates = rng.sample(fstates, 1500)
    follow = [o for o in static if o[0] not in ('add_connection', 'delete_connection', 'embed')] + \
             [['delete_connection', N4[0], N4[1]], ['delete_connection', N4[1], N4[2]], ['add_connection', N4[0], N4[2], PAY]]
    t1 = time.time()
    nf = 0
    for path in fstates:
        if time.time() - t1 > budget_s * (0.6 if not full else 0.35):
            break
        nf += 1
        for op in follow:
            h = run_history(G.History([list(o) for o in path] + [op]))
            h.dump_from = len(path) - 1
            hists.append(h)
            lines.append(G.model_line([], h._real[1], dump_from=len(path) - 1))
    res.count('exhaustive:known-finding-states-expanded', nf)
    res.count('exhaustive:distinct-states', len(seen))
    res.stats['exhaustive:complete-to-depth'] = depth if complete else depth - 1
    return hists, lines


# ------------------------------------------------------------------ random histories on grids from geometries

def random_recipe(rng, big):
    sizes = [(2, 1, 2), (3, 1, 1), (2, 2, 1), (3, 2, 2), (4, 3, 2)] if not big else [(6, 5, 5), (8, 6, 4), (7, 4, 6), (5, 5, 7)]
    nx, ny, nz = rng.choice(sizes)
    dy = [rng.choice([5., 10., 12.5]) for _ in range(ny)]
    dx = [rng.choice([10., 20., 7.5]) for _ in range(nx)]
    dz = [rng.choice([5., 2.5, 10.]) for _ in range(nz)]
    rec = {'dx': dx, 'dy': dy, 'dz': dz, 'atmos': rng.choice([0, 1, 2]), 'convention': rng.choice([0, 1, 2])}
    if rng.random() < 0.5 and nx * ny >= 4:
        rec['refine'] = sorted(rng.sample(range(nx * ny), rng.randint(1, 2)))
        rec['convention'] = 0
    if rng.random() < 0.5:
        tot = sum(dz)
        rec['surface'] = [-rng.choice([0., 0.25, 0.5]) * tot for _ in range(3)]
    return rec


def fresh_name(rng, taken, n=5):
    while True:
        s = rng.choice('pqrstuvw') + rng.choice('abcdefgh') + rng.choice(' 123') + rng.choice(' 0123456789') + rng.choice('0123456789')
        if s not in taken:
            return s


def random_pay(rng):
    return [rng.choice([1, 2, 3]), rng.choice([0.5, 1.0, 2.5, 10.]), rng.choice([0.25, 1.0, 5.0]), rng.choice([1.0, 50., 100.]),
            rng.choice([0.0, -1.0, 1.0, 0.5, -0.25, None]), rng.choice([None, 1, 2]), rng.choice([None, 1, 3])]


def random_spec(rng, g, common_rock=False):
    taken = set(b.name for b in g.blocklist)
    nb = rng.randint(1, 4)
    names = []
    for _ in range(nb):
        n = fresh_name(rng, taken | set(names))
        names.append(n)
    rtaken = set(r.name for r in g.rocktypelist)
    rname = rng.choice(sorted(rtaken)) if (common_rock and rtaken) else fresh_name(rng, rtaken)
    cons = [[i, i + 1, random_pay(rng)] for i in range(nb - 1)]
    return {'rocks': [[rname, rng.randint(1, 9)]], 'blocks': [[n, rname, rng.choice([0.125, 0.25, 0.5]), None] for n in names], 'cons': cons}


KINDS = ['add_rocktype', 'delete_rocktype', 'rename_rocktype', 'clean_rocktypes', 'sort_rocktypes', 'add_block',
         'delete_block', 'demote_block', 'add_connection', 'delete_connection', 'reorder', 'rename_blocks', 'minc',
         'add', 'embed', 'readd_block', 'readd_rocktype', 'readd_connection', 'again_block', 'add_block_fresh']
WEIGHTS = {'default': [6, 3, 4, 2, 2, 8, 5, 4, 10, 6, 6, 8, 2, 3, 3, 3, 2, 2, 1, 0],
           # after a rock type was replaced / deleted while in use: the operations that look at rock types
           'rocks': [8, 8, 10, 10, 6, 6, 3, 1, 2, 2, 1, 2, 3, 3, 2, 2, 8, 1, 1, 2],
           # after a connected block was replaced: the operations that look at connection records
           'blocks': [1, 1, 1, 1, 1, 6, 10, 2, 6, 10, 4, 6, 2, 2, 2, 10, 1, 6, 3, 1]}


def random_op(g, rng, valid_only, state, reg=None):
    """one operation drawn from the live grid; with valid_only the draw is repeated until it is within Pre"""
    reg = reg or G.Registry()
    names = [b.name for b in g.blocklist]
    rocks = [r.name for r in g.rocktypelist]
    keys = [tuple(b.name for b in c.block) for c in g.connectionlist]
    big = len(names) > 60
    for _ in range(50):
        wts = list(WEIGHTS[state.get('weights', 'default')])
        if state['minc'] >= 2: wts[12] = 0
        k = rng.choices(KINDS, wts)[0]
        wild = (not valid_only) and rng.random() < 0.5
        op = None
        if k == 'add_rocktype':
            op = [k, rng.choice(rocks) if (rocks and rng.random() < 0.3) else fresh_name(rng, set(rocks)), rng.randint(1, 9)]
        elif k == 'delete_rocktype':
            op = [k, rng.choice(rocks) if rocks and rng.random() < 0.9 else fresh_name(rng, set(rocks))]
        elif k == 'rename_rocktype' and rocks:
            op = [k, rng.choice(rocks), rng.choice(rocks) if rng.random() < 0.2 else fresh_name(rng, set(rocks))]
        elif k in ('clean_rocktypes', 'sort_rocktypes'):
            op = [k]
        elif k == 'add_block':
            nm = rng.choice(names) if (names and rng.random() < 0.25) else fresh_name(rng, set(names))
            rk = rng.choice(rocks) if (rocks and not wild) else fresh_name(rng, set(rocks))
            op = [k, nm, rk, rng.choice([1.0, 2.5, 100., 1e26, 0.0]), rng.choice([None, [1.0, 2.0, -3.5]])]
        elif k == 'delete_block' and names:
            op = [k, rng.choice(names) if rng.random() < 0.9 else fresh_name(rng, set(names))]
        elif k == 'demote_block' and names:
            op = [k, [rng.choice(names) for _ in range(rng.randint(1, 3))] + ([fresh_name(rng, set(names))] if wild else [])]
        elif k == 'add_connection' and len(names) >= 2:
            a, b = rng.sample(names, 2)
            if rng.random() < 0.15 and keys:
                a, b = rng.choice(keys)
                if rng.random() < 0.5: a, b = b, a
            if wild:
                b = rng.choice([a, fresh_name(rng, set(names))])
            op = [k, a, b, random_pay(rng)]
        elif k == 'delete_connection' and keys:
            a, b = rng.choice(keys)
            if rng.random() < 0.15: a, b = b, a
            op = [k, a, b]
        elif k == 'reorder' and names:
            bs = None
            if rng.random() < 0.7:
                bs = list(names)
                rng.shuffle(bs)
                if wild and len(bs) > 1: bs = bs[:-1]
            cs = None
            if keys and rng.random() < 0.7:
                cs = [list(c) for c in keys]
                rng.shuffle(cs)
                cs = [c[::-1] if rng.random() < 0.4 else c for c in cs]
                if wild and rng.random() < 0.5: cs = cs[:-1]
            op = [k, bs, cs]
        elif k == 'rename_blocks' and names:
            sub = rng.sample(names, min(len(names), rng.choice([1, 2, 3, 5, len(names)])))
            mode = rng.random()
            if mode < 0.4 and len(sub) >= 2:          # permutation of the chosen names (swaps, cycles)
                tgt = sub[1:] + sub[:1] if rng.random() < 0.5 else rng.sample(sub, len(sub))
            elif mode < 0.7:                         # fresh targets
                tgt, taken = [], set(names)
                for _ in sub:
                    n = fresh_name(rng, taken); taken.add(n); tgt.append(n)
            else:                                    # a chain: some to fresh names, others into the freed names
                taken = set(names)
                f = fresh_name(rng, taken)
                tgt = [f] + sub[:-1]
            m = [[a, b] for a, b in zip(sub, tgt)]
            if wild:
                m.append([rng.choice(names), rng.choice(names)])
            op = [k, m, rng.random() < 0.7]
        elif k == 'minc' and names:
            nlev = rng.randint(2, 6)
            fr = [rng.choice([1.0, 2.0, 5.0, 0.5, 10.0]) for _ in range(nlev)]
            blocks = None if (not big and rng.random() < 0.4) else rng.sample(names, min(len(names), rng.randint(1, 6)))
            op = [k, fr, rng.choice([50., 10., 37.5]), rng.randint(1, 3), blocks]
        elif k == 'add':
            op = [k, random_spec(rng, g, common_rock=rng.random() < 0.3), rng.random() < 0.6]
            if wild and names:
                op[1]['blocks'][0][0] = rng.choice(names)
        elif k == 'embed' and names:
            s = random_spec(rng, g, common_rock=rng.random() < 0.3)
            small = [b.name for b in g.blocklist if b.volume < 1e9]
            host = rng.choice(small or names)
            op = [k, s, host if not wild else fresh_name(rng, set(names)), s['blocks'][0][0], random_pay(rng)]
            if rng.random() < 0.4:
                hv = g.block[op[2]].volume if op[2] in g.block else 1.0
                op = ['embed_standalone'] + op[1:] + [float(rng.choice([hv, hv, 2 * hv, 64.0]))]
        elif k == 'readd_block':
            gone = [b.name for b in reg.blocks if not any(b is x for x in g.blocklist)]
            if gone: op = [k, rng.choice(gone)]
        elif k == 'readd_rocktype':
            gone = [r.name for r in reg.rocks if not any(r is x for x in g.rocktypelist)]
            if gone: op = [k, rng.choice(gone)]
        elif k == 'readd_connection':
            gone = [tuple(b.name for b in c.block) for c in reg.cons if not any(c is x for x in g.connectionlist)]
            if gone: op = [k] + list(rng.choice(gone))
        elif k == 'again_block' and names:
            op = [k, rng.choice(names)]
        elif k == 'add_block_fresh' and not valid_only:
            op = [k, fresh_name(rng, set(names)), rng.choice(rocks) if rocks else 'dfalt', 1.0, None]
        if op is None:
            continue
        c = G.classify(g, op, reg)
        if valid_only and c != 'ok':
            continue
        if op[0] == 'minc':
            state['minc'] += 1
        return op
    return ['clean_rocktypes']


def random_histories(ctx, res, n_small, n_big, maxlen):
    hists = []
    for j in range(n_small + n_big):
        rng = ctx.rng('random/%d' % j)
        big = j >= n_small
        rec = random_recipe(rng, big)
        valid_only = rng.random() < 0.7
        inject_at = None if valid_only else rng.randint(0, maxlen - 1)
        state = {'minc': 0}
        L = rng.randint(maxlen // 2, maxlen) if not big else rng.randint(maxlen // 4, maxlen // 2)

        def gen(g, i, reg, rng=rng, state=state, inject_at=inject_at):
            return random_op(g, rng, inject_at is None or i != inject_at, state, reg)
        h = G.History([], {'geo': rec})
        run_history(h, gen, L)
        hists.append(h)
        res.count('random:start-blocks', len([o for o in h._real[0] if o[0] == 'add_block']))
        res.count('random:atmos-%d' % rec['atmos'])
        res.count('random:irregular' if rec.get('refine') else 'random:rectangular')
        res.count('random:histories')
        res.count('random:operations', len(h._real[1]))
    return hists


def grid_as_spec(g):
    """recipe of a grid that the real fromgeo built (to add it to another one)"""
    idx = dict((id(b), i) for i, b in enumerate(g.blocklist))
    return {'rocks': [[r.name, int(r.density)] for r in g.rocktypelist],
            'blocks': [[b.name, b.rocktype.name, float(b.volume), None if b.centre is None else [float(v) for v in b.centre]] for b in g.blocklist],
            'cons': [[idx[id(c.block[0])], idx[id(c.block[1])],
                      [int(c.direction), float(c.distance[0]), float(c.distance[1]), float(c.area), None if c.dircos is None else float(c.dircos), c.nad1, c.nad2]]
                     for c in g.connectionlist]}


def scenario_histories(ctx, res, n, maxlen):
    """histories that go on after a known-finding operation: the grid is then consistent by name at best,
    and everything the unchanged code does from there is described by the model.  Three routes:
      sum    two grids built by the real fromgeo, both registering 'dfalt' in use, added (F2; also embed),
      block  a connected block replaced by add_block (F1),
      rock   a rock type in use replaced by add_rocktype or deleted (F2 / F3)."""
    hists = []
    for j in range(n):
        rng = ctx.rng('scenario/%d' % j)
        route = ['sum', 'block', 'rock', 'sum'][j % 4]
        rec = random_recipe(rng, False)
        rec['chars'] = 'abcdefghijklm'
        g0 = G.start_grid({'geo': rec})
        names = [b.name for b in g0.blocklist]
        if route == 'sum':
            rec2 = random_recipe(rng, False)
            rec2['chars'] = 'nopqrstuvwxyz'
            rec2['convention'] = rec.get('convention', 0)
            rec2['atmos'] = 2 if rec['atmos'] == 0 else rec2['atmos']     # two 'ATM 0' blocks would be a common block name
            spec = grid_as_spec(G.start_grid({'geo': rec2}))
            if set(b[0] for b in spec['blocks']) & set(names):
                continue
            first = [['add', spec, rng.random() < 0.7]] if rng.random() < 0.7 else \
                    [['embed', {'rocks': [['dfalt', 5]], 'blocks': [['zz  1', 'dfalt', 0.125, None]], 'cons': []},
                      rng.choice([b.name for b in g0.blocklist if b.volume < 1e9] or names), 'zz  1', PAY]]
            weights = 'rocks'
        elif route == 'block':
            con = [b.name for b in g0.blocklist if b.connection_name]
            if not con:
                continue
            first = [['add_block', rng.choice(con), 'dfalt', 3.0, None]]
            weights = 'blocks'
        else:
            first = [rng.choice([['add_rocktype', 'dfalt', 7], ['delete_rocktype', 'dfalt']])]
            weights = 'rocks'
        state = {'minc': 0, 'weights': weights}
        L = rng.randint(3, maxlen)

        def gen(g, i, reg, rng=rng, state=state, first=first):
            if i < len(first):
                return first[i]
            return random_op(g, rng, rng.random() < 0.85, state, reg)
        h = G.History([], {'geo': rec})
        run_history(h, gen, L)
        hists.append(h)
        res.count('scenario:' + route)
    return hists


# ------------------------------------------------------------------ run / search / replay

def run(ctx, scale=1.0, oracle_only=False):
    import importlib, t2grids, mulgrids
    res = Result()
    res.rule = ('a case = one operation applied in one state (real code + model, dumps compared after it); distinct non-trivial = distinct '
                '(state before, operation) pairs where the operation changed the public state or raised')
    hists, lines, facets = [], [], []
    # corpus
    for h in corpus_histories():
        run_history(h)
        hists.append(h); facets.append(('corpus', False))
        lines.append(G.model_line(h._real[0], h._real[1], 0))
        want = CORPUS[h.name][2]
        got = h._real[1][-1].cls
        if want is not None and want != got:
            raise RuntimeError('corpus case %s: harness classifies the last operation as %s, expected %s' % (h.name, got, want))
    # exhaustive
    tt = time.time()
    eh, el = exhaustive(ctx, res, ctx.n(16, 300) * scale, ctx.n(2, 3), not ctx.quick)
    ch, cl = exhaustive_core(ctx, res, ctx.n(14, 240) * scale, ctx.n(3, 4))
    for h, l in zip(ch, cl):
        hists.append(h); facets.append(('exhaustive_core', True)); lines.append(l)
    res.stats['seconds:exhaustive-real-code'] = round(time.time() - tt, 1); tt = time.time()
    for h, l in zip(eh, el):
        hists.append(h); facets.append(('exhaustive', True)); lines.append(l)
    # random
    rh = random_histories(ctx, res, int(ctx.n(60, 900) * scale), int(ctx.n(3, 30) * scale), 60)
    for h in rh:
        hists.append(h); facets.append(('random', False))
        h.dump_from = 0
        lines.append(G.model_line(h._real[0], h._real[1], 0))
    res.stats['seconds:random-real-code'] = round(time.time() - tt, 1); tt = time.time()
    for h in scenario_histories(ctx, res, int(ctx.n(48, 1000) * scale), 14):
        hists.append(h); facets.append(('after_known_finding', False))
        h.dump_from = 0
        lines.append(G.model_line(h._real[0], h._real[1], 0))
    res.stats['seconds:scenario-real-code'] = round(time.time() - tt, 1); tt = time.time()
    replies = [None] * len(lines)
    if ctx.model_ok and not oracle_only:
        replies = core.run_driver('drv_c08', lines)
    res.stats['seconds:model-driver'] = round(time.time() - tt, 1); tt = time.time()
    for h, (facet, only_last), rep in zip(hists, facets, replies):
        steps = evaluate(h, res, ctx, facet, rep, only_last)
        res.unstable += getattr(h, 'unstable', 0)
        # distinct non-trivial cases
        for i, st in enumerate(steps):
            if only_last and i != len(steps) - 1:
                continue
            before = steps[i - 1].dump if i > 0 else ''
            if st.dump != before or st.applied.exc:
                res.distinct.add(hashlib.sha1((before + json.dumps(st.op)).encode()).hexdigest()[:16])
        if facet == 'random' and len(res.samples) < 4 and steps:
            res.sample({'start': h.start, 'first_ops': [s.op for s in steps[:3]], 'n_ops': len(steps)})
    for name in ('corpus', 'exhaustive', 'exhaustive_core', 'random', 'after_known_finding', 'pre_class', 'inv_flag'):
        res.facet(name)
    res.exhaustive = False
    return res


def followups(g, reg):
    """operations worth trying after a history on which model and real code disagreed: whatever re-uses an
    object that left the grid, and whatever looks at rock types / connection records as a whole"""
    ops = [['clean_rocktypes'], ['sort_rocktypes']]
    for b in reg.blocks:
        if not any(b is x for x in g.blocklist):
            ops.append(['readd_block', b.name])
    for r in reg.rocks:
        if not any(r is x for x in g.rocktypelist):
            ops.append(['readd_rocktype', r.name])
    for c in reg.cons:
        if not any(c is x for x in g.connectionlist) and len(c.block) == 2:
            ops.append(['readd_connection', c.block[0].name, c.block[1].name])
    for r in g.rocktypelist[:4]:
        ops += [['rename_rocktype', r.name, 'zq  9'], ['delete_rocktype', r.name], ['add_rocktype', r.name, 1]]
    for b in g.blocklist[:6]:
        ops += [['delete_block', b.name], ['again_block', b.name], ['demote_block', [b.name]]]
    for c in g.connectionlist[:6]:
        k = [x.name for x in c.block]
        ops += [['delete_connection'] + k, ['reorder', None, [k[::-1]] + [[x.name for x in d.block] for d in g.connectionlist if d is not c]]]
    seen, out = set(), []
    for o in ops:
        key = json.dumps(o)
        if key not in seen:
            seen.add(key); out.append(o)
    return out


def judge(ctx, hists, facet='search'):
    """oracle (+ model, when the driver is available) on a list of histories; returns the violations"""
    r = Result()
    lines = [G.model_line(h._real[0], h._real[1], h.dump_from) for h in hists]
    replies = [None] * len(lines)
    if ctx.model_ok and lines:
        try:
            replies = core.run_driver('drv_c08', lines)
        except Exception:
            replies = [None] * len(lines)
    for h, rep in zip(hists, replies):
        evaluate(h, r, ctx, facet, rep)
    return r.violations


def search(ctx, seconds, res):
    """failing-input search.  First the histories on which model and real code disagreed, each continued
    by every follow-up operation (one and two more steps); then fresh random runs."""
    found = list(res.violations)
    t0 = time.time()
    known = core.known_keys(ID)
    seen_cases = set()
    for d in res.disagreements[:40]:
        if found or time.time() - t0 > seconds * 0.6:
            break
        c = d.get('case') or {}
        if 'ops' not in c:
            continue
        key = json.dumps(c, sort_keys=True)
        if key in seen_cases:
            continue
        seen_cases.add(key)
        base = run_history(G.History([list(o) for o in c['ops']], c.get('start')))
        g, reg = base._real[2], base._reg
        first = followups(g, reg)
        hists = []
        for o in first:
            h = run_history(G.History([list(x) for x in c['ops']] + [o], c.get('start')))
            hists.append(h)
        found = [v for v in judge(ctx, hists) if v['key'] not in known]
        if found:
            break
        for o in first[:12]:
            if time.time() - t0 > seconds * 0.6:
                break
            h1 = run_history(G.History([list(x) for x in c['ops']] + [o], c.get('start')))
            hists = [run_history(G.History([list(x) for x in c['ops']] + [o, o2], c.get('start'))) for o2 in followups(h1._real[2], h1._reg)[:30]]
            found = [v for v in judge(ctx, hists) if v['key'] not in known]
            if found:
                break
    k = 0
    while not found and time.time() - t0 < seconds:
        k += 1
        c2 = core.Ctx(ctx.prop, ctx.tier, ctx.seed + 7919 * k)
        c2.model_ok = ctx.model_ok
        try:
            r = run(c2, scale=0.4)
        finally:
            c2.cleanup()
        found = [v for v in r.violations if v['key'] not in known]
    return found


def replay(ctx, payload):
    c = payload.get('case') or {}
    if 'ops' not in c:
        return False, 'replay file names what no longer checks: %s' % payload.get('broken')
    h = run_history(G.History([list(o) for o in c['ops']], c.get('start')))
    res = Result()
    rep = None
    try:      # with the model when the driver is built: needed to tell a known finding's consequences from anything else
        rep = core.run_driver('drv_c08', [G.model_line(h._real[0], h._real[1], 0)])[0]
    except Exception:
        pass
    evaluate(h, res, ctx, 'replay', rep)
    st = h._real[1][-1]
    txt = 'history of %d operations; after the last one (%s): by-name reading %s, identity reading %s, exception %s' % (
        len(h._real[1]), json.dumps(st.op)[:200], st.weak or 'consistent', st.strong or 'consistent', st.applied.exc)
    if res.violations:
        txt += '\n' + '\n'.join('%s: %s' % (v['key'], v['what']) for v in res.violations[:3])
    known = core.known_keys(ID)
    bad = [v for v in res.violations if v['key'] not in known] if payload.get('key') not in known else res.violations
    return bool(bad), txt
