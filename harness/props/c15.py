"""C15 — IFC-67 routines agree with IAPWS-97 and with themselves on their common range.

model      lean/PyTough/Gen/Ifc67.lean — GENERATED on every run from /repo/t2thermo.py (cowat, supst, sat, b23p, region,
           visw, viss, the range guard of tsat, the algebra of separated_steam_fraction) and Gen/Iapws.lean (region,
           sat, b23p of IAPWS97.py for the classifier comparison)
theorems   lean/PyTough/Props/C15.lean
tie        T: the translator; validated on every run by executing the generated definitions over Float in the compiled
           driver and comparing BIT FOR BIT with CPython (facet ifc67_bits, incl. separated_steam_fraction with the
           saturation temperature taken from the real fsolve run)
oracle     IFC-67 vs IAPWS-97 densities / energies / saturation pressures against tolerances calibrated once on the
           pinned tree (x3 margin); the single-potential identity by finite differences (real doubles, and the translated
           tree in 70-digit Decimal); tsat(sat(t)); range checking on/off on both sides of every limit against an
           independent implementation of the limits; the two classifiers; steam fraction in [0,1] and monotone.
"""
import math, sys, decimal, time, warnings
from decimal import Decimal
import core
from core import Result
import props.c14 as c14
from props.c14 import neighbours, o_continuity, ref_tsat, ref_b23t, bits, unbits, canon, call, same, nextafter, load_real, edge_values, grid, V, ref_psat, ref_b23p, T0, need, NoValue

sys.path.insert(0, str(core.VERIF / 'harness' / 'translate'))
import thermo  # noqa: E402

ID = 'C15'
MODULE = 'PyTough.Props.C15'
TARGETS = ['PyTough.Props.C15', 'drv_c15']
THEOREMS = ['Props.C15.' + t for t in [
    'bounds_cowat', 'bounds_cowat_off', 'bounds_supst', 'bounds_sat', 'bounds_tsat', 'guards_calls_defined',
    'steam_fraction_in_unit', 'steam_fraction_monotone', 'steam_fraction_monotone_of_values', 'bounds_tsat_sat',
    'regions_agree_logic', 'regions_differ_exactly',
]]
LEVEL_TEXT = ('Proof (partial): 12 Lean theorems about definitions regenerated from t2thermo.py on every run, over the reals - the '
              'decision logic: with range checking on cowat / supst / sat return no value IFF the state is outside the stated range (cowat: or '
              'its internal ZP < 0 test, kept visible), with checking off the guard is vacuous; the guard of tsat; every call made inside a '
              'range test returns a number; the separated steam fraction lies in [0,1] for all inputs and solver results and is non-decreasing '
              'in enthalpy when steam is richer than water (one and two stages); the IFC-67 and IAPWS-97 classifiers agree below 350 degC / '
              'above the critical temperature whenever p is not between the two saturation (B23) curves, and are None outside the same box.  '
              'NOT provable here, evaluated by the oracle on the real code only: agreement of the two formulations within the calibrated '
              'tolerances, the single-potential identity of the hand-expanded IFC-67 formulas (finite differences: doubles, and the translated '
              'tree in 70-digit Decimal), tsat inverting sat (scipy fsolve), the enthalpy ordering h_steam > h_water.  Tie: AST translator + '
              'bit-for-bit Float validation (19k requests / seed incl. separated_steam_fraction end to end, 0 disagreements).')
LEVEL_NOTE = ('Trusted: Lean kernel (+propext, Classical.choice, Quot.sound); the translator for the step Float tree -> real tree; scipy fsolve '
              'is a parameter of the theorems; tolerances IFC-67 vs IAPWS-97 calibrated on the pinned tree (x3 margin); IEEE rounding not '
              'verified.  p = 0 is outside the property.  Known finding: bounds-raises:tsat:TypeError (p within 1e-9 of tsat\'s lower limit).')
TECHNIQUE = ('Lean 4 proof of the decision logic over definitions generated from the Python source + bit-for-bit validation '
             'of the generated definitions over Float + differential oracle IFC-67 vs IAPWS-97 on the real code')
ASSUMPTIONS = [
    'IEEE-754 rounding is not verified (theorems over the reals; Float instance compared bit for bit with CPython every run)',
    'scipy.optimize.fsolve (tsat) is not modelled: the theorems take its result as a parameter; tsat(sat(t)) = t is sampled by the oracle',
    'p = 0 exactly is outside the property (a vacuum is not a steam state): the oracle probes the smallest positive pressures instead; '
    'p = 0 stays in the bit-for-bit correspondence (ZeroDivisionError of the real code <-> non-finite value of the Float model)',
    'numeric agreement of the two formulations and the single-potential identity of the hand-expanded IFC-67 formulas are '
    'evaluated by the oracle (sampling), not proved',
]
TRUSTED_EXTRA = ['harness/translate/thermo.py for the step "Float tree -> real tree"',
                 'tolerances IFC-67 vs IAPWS-97 calibrated on the pinned tree: 3 x the largest difference observed on 100k states']

# largest differences observed on the pinned tree (liquid 40k states, steam 60k states, 100k saturation temperatures) x 3
TOL_LIQ_D, TOL_LIQ_U = 3 * 0.0023, 3 * 3626.0          # relative density, J/kg
TOL_STM_D, TOL_STM_U = 3 * 0.00467, 3 * 7507.0
TOL_SAT = 3 * 0.0013
TOL_INV = 1e-9
TOL_ID_DEC = 1e-10
TOL_ID_FD = 1e-5
TOL_TREE = 1e-10
BAND = 1e-9
EVIDENCE_EXTRA = {'measured_reach': 'quick run under coverage (pinned tree): every statement and branch of t2thermo.py cowat, supst, sat, tsat, visw, viss, separated_steam_fraction, b23p, region executed except the scalar-return fallback of tsat (line 299)',
                  'tolerances': {'liquid_density_rel': TOL_LIQ_D, 'liquid_energy_J_per_kg': TOL_LIQ_U, 'steam_density_rel': TOL_STM_D,
                                 'steam_energy_J_per_kg': TOL_STM_U, 'saturation_pressure_rel': TOL_SAT, 'tsat_sat_rel': TOL_INV,
                                 'identity_decimal_rel': TOL_ID_DEC, 'identity_fd_rel': TOL_ID_FD, 'double_vs_tree_rel': TOL_TREE,
                                 'range_limit_exclusion_band_rel': BAND, 'classifier_exclusion': 'between the two formulations\' curves +-1e-6'}}

# ------------------------------------------------------------------ independent reference for the IFC-67 range limits

_K = [-7.691234564, -2.608023696e1, -1.681706546e2, 6.423285504e1, -1.189646225e2, 4.167117320, 2.097506760e1, 1.0e9, 6.0]
TC1, PC1 = 647.3, 22120000.0
TC1_C = TC1 - 273.15


def ref_psat67(t):
    """IFC-67 K-function (Pa; t in degC)"""
    th = (t + 273.15) / TC1
    x = 1.0 - th
    s = sum(_K[i] * x ** (i + 1) for i in range(5))
    return PC1 * math.exp(s / (th * (1 + _K[5] * x + _K[6] * x * x)) - x / (_K[7] * x * x + _K[8]))


def ref_b23p67(t):
    th = (t + 273.15) / TC1
    return PC1 * (1.574373327e1 - 3.417061978e1 * th + 1.931380707e1 * th * th)


def ref_tsat67(p):
    lo, hi = 0.0, TC1_C
    for _ in range(200):
        m = 0.5 * (lo + hi)
        if not (lo < m < hi): break
        if ref_psat67(m) < p: lo = m
        else: hi = m
    return 0.5 * (lo + hi)


def near(p, q):
    return abs(p - q) <= BAND * abs(q)


def ref_in_range(fn, args):
    """True / False / 'band' : is the state inside the routine's stated range?"""
    if fn == 'cowat':
        t, p = args
        if not (0.01 <= t <= 350.0 and p <= 1e8): return False
        ps = ref_psat67(t)
        if near(p, ps): return 'band'
        return p >= ps
    if fn == 'supst':
        t, p = args
        if not (0.01 <= t <= 800.0 and 0 <= p): return False
        if t <= TC1_C:
            lim = ref_psat67(t)
        elif t <= 590.0:
            lim = ref_b23p67(t)
        else:
            return p <= 1e8
        if near(p, lim): return 'band'
        return p <= lim
    if fn == 'sat':
        return 0.01 <= args[0] <= TC1_C
    if fn == 'tsat':
        lo = ref_psat67(0.01)
        if near(args[0], lo): return 'band'
        return lo <= args[0] <= PC1
    raise KeyError(fn)


# ------------------------------------------------------------------ oracle clauses

def o_liquid(I, T, c):
    t, p = c['t'], c['p']
    a, b = need(I, 'cowat', t, p), need(T, 'cowat', t, p)
    if not (abs(a[0] - b[0]) <= TOL_LIQ_D * a[0] and abs(a[1] - b[1]) <= TOL_LIQ_U):
        return [V('liquid-disagree', 'liquid water at t=%r p=%r: IAPWS-97 (d, u) = (%r, %r), IFC-67 (%r, %r)' % (
            t, p, float(a[0]), float(a[1]), b[0], b[1]), c)]
    return []


def o_steam(I, T, c):
    t, p = c['t'], c['p']
    a, b = need(I, 'supst', t, p), need(T, 'supst', t, p)
    if not (abs(a[0] - b[0]) <= TOL_STM_D * a[0] and abs(a[1] - b[1]) <= TOL_STM_U):
        return [V('steam-disagree', 'steam at t=%r p=%r: IAPWS-97 (d, u) = (%r, %r), IFC-67 (%r, %r)' % (
            t, p, float(a[0]), float(a[1]), b[0], b[1]), c)]
    return []


def o_sat(I, T, c):
    t = c['t']
    a, b = need(I, 'sat', t), need(T, 'sat', t)
    if not abs(a - b) <= TOL_SAT * a:
        return [V('sat-disagree', 'saturation pressure at t=%r: IAPWS-97 %r, IFC-67 %r' % (t, float(a), b), c)]
    return []


def raise_key(T, fn, args, e):
    """the known defect: tsat raises TypeError for p within 1e-9 (relative) above its lower limit sat(0.01), because fsolve
    evaluates sat() below 0.01 degC; the same exception anywhere else gets a different key"""
    name = type(e).__name__
    if fn == 'tsat' and name == 'TypeError':
        plim = ref_psat67(0.01)
        if -1e-12 <= args[0] / plim - 1.0 <= 1e-9:
            return 'bounds-raises:tsat:TypeError'
        return 'tsat-raises:TypeError:away-from-lower-limit'
    return 'bounds-raises:%s:%s' % (fn, name)


def o_tsat(I, T, c):
    t = c['t']
    with warnings.catch_warnings():
        warnings.simplefilter('ignore')
        ps = need(T, 'sat', t)
        try:
            tt = T.tsat(ps, c.get('bounds', False))
        except Exception as e:
            return [V(raise_key(T, 'tsat', (ps,), e), 'tsat(sat(%r)) raises %s: %s' % (t, type(e).__name__, str(e)[:80]), c)]
    if tt is None or not abs(tt - t) <= TOL_INV * (t + 273.15):
        return [V('tsat-sat-inverse', 'tsat(sat(%r)) = %r' % (t, tt), c)]
    return []


def _vh(T, fn, t, p):
    d, u = need(T, fn, t, p)
    v = 1 / d
    return v, u + p * v


def o_potential_fd(I, T, c):
    f = 'cowat' if c['phase'] == 'liquid' else 'supst'
    t, p = c['t'], c['p']
    dp, dt = max(p * 1e-4, 1e-3), 0.01
    v, h = _vh(T, f, t, p)
    hp = (_vh(T, f, t, p + dp)[1] - _vh(T, f, t, p - dp)[1]) / (2 * dp)
    vT = (_vh(T, f, t + dt, p)[0] - _vh(T, f, t - dt, p)[0]) / (2 * dt)
    Tk = t + 273.15
    res = abs(hp - (v - Tk * vT)) / (abs(v) + abs(Tk * vT))
    if not res <= TOL_ID_FD:
        return [V('potential-identity:' + c['phase'], 'IFC-67 %s at t=%r p=%r: (dh/dp)_T = %r but v - T (dv/dT)_p = %r' % (
            c['phase'], t, p, hp, v - Tk * vT), c)]
    return []


def o_potential_tree(I, T, CD, c):
    out = []
    fn = 'cowat' if c['phase'] == 'liquid' else 'supst'
    with decimal.localcontext() as ctx:
        ctx.prec = 70
        t, p = Decimal(c['t']), Decimal(c['p'])

        def vh(t, p):
            rr = CD(fn, t, p, False)
            if rr[0] != 'pair': raise NoValue(fn, (float(t), float(p)), 'has no value (translated tree)')
            v = 1 / rr[1]
            return v, rr[2] + p * v, rr
        dp, dt = p * Decimal('1e-20'), Decimal('1e-18')
        v, h, rr = vh(t, p)
        hp = (vh(t, p + dp)[1] - vh(t, p - dp)[1]) / (2 * dp)
        vT = (vh(t + dt, p)[0] - vh(t - dt, p)[0]) / (2 * dt)
        Tk = t + Decimal(273.15)
        res = abs(hp - (v - Tk * vT)) / (abs(v) + abs(Tk * vT))
        if not res <= Decimal(TOL_ID_DEC):
            out.append(V('potential-identity-exact:' + c['phase'], 'IFC-67 %s at t=%r p=%r: volume and enthalpy are not derived from one '
                         'potential (relative residual %.3g in 70-digit arithmetic)' % (c['phase'], c['t'], c['p'], res), c))
        real = need(T, fn, c['t'], c['p'])
        e1 = abs(Decimal(real[0]) - rr[1]) / abs(rr[1])
        e2 = abs(Decimal(real[1]) - rr[2]) / (abs(rr[2]) + Decimal(461.51) * Tk)
        if not (e1 <= Decimal(TOL_TREE) and e2 <= Decimal(TOL_TREE)):
            out.append(V('double-vs-exact:' + c['phase'], 'IFC-67 %s at t=%r p=%r: the doubles returned differ from the exact value of '
                         'the same expressions by %.3g / %.3g relative' % (c['phase'], c['t'], c['p'], e1, e2), c))
    return out


def is_none(fn, r):
    return (r is None) if fn in ('sat', 'tsat') else (isinstance(r, tuple) and r[0] is None and r[1] is None)


def o_bounds(I, T, c):
    fn, args = c['fn'], tuple(c['args'])
    want = ref_in_range(fn, args)
    out = []
    with warnings.catch_warnings():
        warnings.simplefilter('ignore')
        if c.get('unchecked_first'):
            # the same state asked for without range checking first (whatever that gives): the checked answer that follows in
            # the same process must be the same as if nothing had been asked before
            try:
                getattr(T, fn)(*args, False)
            except Exception:
                pass
        # raising is neither "a value" nor "no value": never acceptable with range checking on, wherever the state lies
        try:
            r = getattr(T, fn)(*args, True)
        except Exception as e:
            return [V(raise_key(T, fn, args, e), '%s%r with range checking raises %s (%s)' % (
                fn, args, type(e).__name__, str(e)[:60]), c)]
        if want == 'band':
            return 'band'
        if is_none(fn, r) == bool(want):
            out.append(V('bounds:%s:%s' % (fn, 'rejected-inside' if want else 'accepted-outside'),
                         '%s%r with range checking returns %r but the state is %s the stated range' % (fn, args, r, 'inside' if want else 'outside'), c))
        if want:
            # with checking off, a state inside the range must give a value as well
            try:
                r0 = getattr(T, fn)(*args, False)
            except Exception as e:
                return out + [V(raise_key(T, fn, args, e), '%s%r raises %s' % (fn, args, type(e).__name__), c)]
            if is_none(fn, r0):
                out.append(V('bounds:%s:none-without-checking' % fn, '%s%r returns no value inside its range' % (fn, args), c))
    return out


def o_regions(I, T, c):
    t, p = c['t'], c['p']
    if 350.0 < t <= TC1_C + 1e-9:
        return 'band'
    if t <= 350.0 and 0.01 <= t:
        a, b = sorted([ref_psat(t), ref_psat67(t)])
        if a * (1 - 1e-6) <= p <= b * (1 + 1e-6): return 'band'
    elif t <= 590.0:
        a, b = sorted([ref_b23p(t), ref_b23p67(t)])
        if a * (1 - 1e-6) <= p <= b * (1 + 1e-6): return 'band'
    try:
        r1, r2 = I.region(t, p), T.region(t, p)
    except TypeError as e:
        raise NoValue('region', (t, p), 'raises TypeError')
    if r1 != r2:
        return [V('regions-disagree:%s-%s' % (r1, r2), 'region(%r, %r): IAPWS-97 %r, IFC-67 %r' % (t, p, r1, r2), c)]
    return []


def ssf(T, c):
    with warnings.catch_warnings():
        warnings.simplefilter('ignore')
        return T.separated_steam_fraction(c['h'], c['p1'], c.get('p2'))


def o_fraction(I, T, c):
    try:
        f1 = ssf(T, c)
        f2 = ssf(T, dict(c, h=c['h2']))
    except Exception as e:
        return [V('steam-fraction-raises:' + type(e).__name__, 'separated_steam_fraction(%r, %r, %r) raises %s' % (
            c['h'], c['p1'], c.get('p2'), type(e).__name__), c)]
    out = []
    for h, f in ((c['h'], f1), (c['h2'], f2)):
        if not (0.0 <= f <= 1.0):
            out.append(V('steam-fraction-range', 'separated_steam_fraction(%r, %r, %r) = %r' % (h, c['p1'], c.get('p2'), f), c))
    lo, hi = (f1, f2) if c['h'] <= c['h2'] else (f2, f1)
    if not lo <= hi:
        out.append(V('steam-fraction-decreases', 'steam fraction at separator pressure(s) %r, %r: %r at h=%r but %r at h=%r' % (
            c['p1'], c.get('p2'), f1, c['h'], f2, c['h2']), c))
    return out


CLAUSES = {'liquid': o_liquid, 'steam': o_steam, 'sat': o_sat, 'tsat': o_tsat, 'potential_fd': o_potential_fd,
           'bounds': o_bounds, 'regions': o_regions, 'fraction': o_fraction}


# ------------------------------------------------------------------ generators

PINNED = {'cowat': [(20., 1e5), (200., 50e5), (300., 100e5)], 'supst': [(200., 1e5), (300., 20e5), (450., 100e5)]}


def plow(T):
    """tsat's lower limit as the real code computes it (the reference value if the real sat gives none)"""
    try:
        v = T.sat(0.01)
        return float(v) if v is not None else ref_psat67(0.01)
    except Exception:
        return ref_psat67(0.01)


def gen_correspondence(T, rng, n):
    out = []
    tedges = [0.01, 350.0, float(T.Tc1_C), 500.0, 590.0, 800.0, -273.15, 0.0]
    pedges = [0.0, 1e8, float(T.Pc1), plow(T)]
    tvals = [v for e in tedges for v in edge_values(e)]
    pvals = [v for e in pedges for v in edge_values(e)]
    for fn, lst in PINNED.items():
        out += [(fn, a + (b,)) for a in lst for b in (False, True)]
    for t in tvals:
        for b in (False, True):
            out.append(('sat', (t, b)))
            for p in [1e5, 20e6, 1e8, rng.choice(pvals)]:
                out += [('cowat', (t, p, b)), ('supst', (t, p, b))]
        out += [('b23p', (t,)), ('region', (t, 1e5)), ('region', (t, 30e6)), ('viss', (t, 5.0)), ('visw', (t, 1e6, 1e5))]
    for p in pvals:
        for b in (False, True):
            out.append(('tsat_ok', (p, b)))
            for t in [20., 350., 373., 600., rng.choice(tvals)]:
                out += [('cowat', (t, p, b)), ('supst', (t, p, b))]
        out += [('region', (t, p)) for t in (20., 360., 400., 700.)]
    for t in grid(0.01, 374.15, 40):
        ps = ref_psat67(t)
        for p in edge_values(ps) + [ps * (1 - 1e-6), ps * (1 + 1e-6)]:
            out += [('cowat', (t, p, True)), ('supst', (t, p, True)), ('region', (t, p))]
    for t in grid(350., 590., 30):
        pb = ref_b23p67(t)
        for p in edge_values(pb) + [pb * (1 - 1e-6), pb * (1 + 1e-6)]:
            out += [('supst', (t, p, True)), ('region', (t, p))]
    for _ in range(n):
        t = rng.choice([rng.uniform(-5., 810.), rng.uniform(-5., 810.), rng.uniform(340, 380), rng.uniform(0, 1)])
        m = rng.random()
        p = rng.uniform(0., 101e6) if m < 0.45 else (10 ** rng.uniform(0, 8.01) if m < 0.9 else rng.uniform(-1e6, 120e6))
        d = rng.choice([rng.uniform(0.01, 1000.), 10 ** rng.uniform(-3, 3)])
        b = rng.random() < 0.5
        out += [('cowat', (t, p, b)), ('supst', (t, p, b)), ('sat', (t, b)), ('b23p', (t,)), ('region', (t, p)),
                ('visw', (t, p, p * rng.uniform(0, 1))), ('viss', (t, d)), ('tsat_ok', (p, b))]
    return out


def argtxt(a):
    return ('1' if a else '0') if isinstance(a, bool) else bits(a)


def real_call(T, fn, args):
    if fn == 'tsat_ok':
        p, b = args
        if not b: return 'true'
        with warnings.catch_warnings():
            warnings.simplefilter('ignore')
            try:
                return 'false' if T.tsat(p, True) is None else 'true'
            except Exception:
                return 'true'          # the guard was passed; what the solver does then is the oracle's business
    return call(getattr(T, fn), *args)


# ------------------------------------------------------------------ translate + run

def translate(ctx):
    """regenerate the Lean definitions from the current source; raises TranslateError on anything outside the subset"""
    changed = thermo.generate(core.REPO, core.LEAN, which=('iapws', 'ifc67'))
    if changed:
        ctx.notes.append('regenerated ' + ', '.join(changed))



def run(ctx, scale=1.0, oracle_only=False):
    I = load_real('IAPWS97')
    T = load_real('t2thermo')
    res = Result()
    res.rule = ('bit-for-bit facet: distinct (function, arguments, bounds flag) requests on which the real routine returns a value; '
                'states = pinned test states + every range limit and boundary curve +-2 ulp and +-1e-6 + uniform/log-uniform '
                'states over -5..810 degC x -1..120 MPa with range checking on and off; oracle cases counted per clause')
    rng = ctx.rng('ifc67')
    if not oracle_only:
        reqs = gen_correspondence(T, rng, int(ctx.n(2000, 50000) * scale))
        f1 = res.facet('ifc67_bits')
        impl = []
        for fn, args in reqs:
            c = real_call(T, fn, args)
            impl.append(c)
            res.evaluations += 1
            res.count('call:%s:%s' % (fn, c.split()[0] if not c.startswith('exc') else c.replace(' ', '-')))
            if c.split()[0] in ('num', 'pair', 'int', 'true'):
                res.distinct.add((fn,) + tuple(args))
        # separated_steam_fraction: saturation temperature from the real fsolve run, everything else in the model
        sreq = []
        for _ in range(int(ctx.n(300, 6000) * scale)):
            p1 = rng.uniform(0.1e6, 5e6)
            p2 = None if rng.random() < 0.5 else rng.uniform(0.1e6, 5e6)
            h = rng.choice([rng.uniform(0, 3.5e6), rng.uniform(0.3e6, 2.9e6)])
            sreq.append((h, p1, p2))
        if ctx.model_ok:
            lines = ['%s %s' % (fn, ' '.join(argtxt(a) for a in args)) for fn, args in reqs]
            out = core.run_driver('drv_c15', lines)
            nb = 0
            for k, ((fn, args), a, b) in enumerate(zip(reqs, impl, out)):
                f1['cases'] += 1
                if a == b: nb += 1
                if not same(a, b):
                    f1['disagreements'] += 1
                    res.disagreements.append(dict(facet='ifc67_bits', case={'fn': fn, 'args': [repr(x) for x in args]}, model=b, impl=a))
                if k % 2503 == 0:
                    res.sample({'fn': fn, 'args': [x if isinstance(x, bool) else float(x) for x in args], 'impl': a, 'model': b})
            f1['bit_identical'] = nb
            f2 = res.facet('steam_fraction_bits')
            with warnings.catch_warnings():
                warnings.simplefilter('ignore')
                usable = []
                for h, p1, p2 in sreq:
                    rf = call(T.separated_steam_fraction, h, p1, p2)
                    try:
                        ts = (float(T.tsat(p1)), None if p2 is None else float(T.tsat(p2)))
                    except Exception:
                        ts = None
                    if ts is None or rf.startswith('exc'):
                        res.count('steam_fraction:real-code-raises (left to the oracle)')
                        continue
                    usable.append(((h, p1, p2), rf, ts))
            l1 = []
            for (h, p1, p2), rf, (t1, t2) in usable:
                l1 += ['cowat %s %s 0' % (bits(t1), bits(p1)), 'supst %s %s 0' % (bits(t1), bits(p1))]
                if p2 is not None:
                    l1 += ['cowat %s %s 0' % (bits(t2), bits(p2)), 'supst %s %s 0' % (bits(t2), bits(p2))]
            o1 = core.run_driver('drv_c15', l1) if l1 else []
            l2, k, good = [], 0, []
            for (h, p1, p2), rf, ts in usable:
                ps_ = [p1, p1] if p2 is None else [p1, p1, p2, p2]
                ws = [o1[k + i].split() for i in range(len(ps_))]
                k += len(ps_)
                if any(w[0] != 'pair' for w in ws):
                    # the real code produced a fraction but the model has no density/energy there
                    f2['cases'] += 1; f2['disagreements'] += 1
                    res.disagreements.append(dict(facet='steam_fraction_bits', case={'h': h, 'p1': p1, 'p2': p2}, model='no value', impl=rf))
                    continue
                good.append(((h, p1, p2), rf, len(ps_)))
                for w, p in zip(ws, ps_):
                    l2.append('enth %s %s %s' % (w[1], w[2], bits(p)))
            o2 = core.run_driver('drv_c15', l2) if l2 else []
            l3, k = [], 0
            for (h, p1, p2), rf, n_ in good:
                e = [o2[k + i].split()[1] for i in range(n_)]
                k += n_
                if p2 is None:
                    l3.append('ssf %s 1 %s %s %s %s' % (bits(h), e[0], e[1], bits(0.0), bits(0.0)))
                else:
                    l3.append('ssf %s 0 %s %s %s %s' % (bits(h), e[0], e[1], e[2], e[3]))
            o3 = core.run_driver('drv_c15', l3) if l3 else []
            for ((h, p1, p2), a, n_), b in zip(good, o3):
                f2['cases'] += 1
                res.evaluations += 1
                res.count('steam_fraction:' + ('one-stage' if p2 is None else 'two-stage') + (':clamped' if a in ('num ' + bits(0.0), 'num ' + bits(1.0)) else ':interior'))
                if not same(a, b):
                    f2['disagreements'] += 1
                    res.disagreements.append(dict(facet='steam_fraction_bits', case={'h': h, 'p1': p1, 'p2': p2}, model=b, impl=a))
    oracle(ctx, I, T, res, rng, scale)
    return res


def steam_pmax(I, T, t):
    if t <= 350.: m = min(ref_psat(t), ref_psat67(t)) * (1 - 1e-9)
    elif t <= 590.: m = min(ref_b23p(t), ref_b23p67(t)) * (1 - 1e-9)
    else: m = 100e6
    return min(m, 100e6)


def oracle(ctx, I, T, res, rng, scale=1.0):
    n = lambda q, t: max(3, int(ctx.n(q, t) * scale))

    def apply(name, c, fn=None):
        c = dict(c, clause=name)
        try:
            r = (fn or (lambda I_, T_, cc: CLAUSES[name](I_, T_, cc)))(I, T, c)
        except NoValue as e:
            r = [V('no-value:%s:%s' % (name, e.fn), '%s %s at a state where clause %s needs its value (%s)' % (
                '%s%r' % (e.fn, e.args_), e.why, name, {k: v for k, v in c.items() if k != 'clause'}), c)]
        res.evaluations += 1
        res.count('oracle:' + name)
        if r == 'band':
            res.unstable += 1
            return
        res.violations += r
    CD = None
    try:
        _, MT = thermo.modules(core.REPO)
        CD = thermo.Compiled(MT, thermo.DecimalBackend())
    except Exception as e:
        ctx.notes.append('Decimal reference tree unavailable (translator failed): %s' % (str(e)[:200],))
    # liquid and steam states on the common range
    for k in range(n(1500, 40000)):
        t = rng.choice([rng.uniform(0.01, 350.), rng.uniform(0.01, 350.), rng.uniform(300., 350.), 350., 0.01])
        ps = max(ref_psat(t), ref_psat67(t)) * (1 + 1e-9)
        p = min(rng.choice([rng.uniform(ps, 1e8), rng.uniform(ps, 1e8), ps, 1e8, ps * (1 + 10 ** rng.uniform(-6, 0))]), 1e8)
        c = {'t': t, 'p': p}
        apply('liquid', c)
        if k % 4 == 0:
            cc = dict(c, phase='liquid')
            if 0.03 <= t <= 349.98 and p * (1 + 1.1e-4) <= 1e8 and p * (1 - 1.1e-4) >= ps:
                apply('potential_fd', cc)
            if CD is not None:
                apply('potential_tree', cc, lambda I_, T_, x: o_potential_tree(I_, T_, CD, x))
        t = rng.choice([rng.uniform(0.01, 800.), rng.uniform(0.01, 800.), rng.uniform(340., 600.), 800., 0.01, 350., 590.])
        pmax = steam_pmax(I, T, t)
        p = max(rng.choice([rng.uniform(0, 1) * pmax, 10 ** rng.uniform(0, math.log10(pmax)), pmax, pmax * (1 - 10 ** rng.uniform(-6, 0))]), 1.0)
        c = {'t': t, 'p': p}
        apply('steam', c)
        if k % 4 == 0:
            cc = dict(c, phase='steam')
            if 0.03 <= t <= 799.9 and p * (1 + 1.1e-4) <= pmax:
                apply('potential_fd', cc)
            if CD is not None:
                apply('potential_tree', cc, lambda I_, T_, x: o_potential_tree(I_, T_, CD, x))
    tc = float(I.tcritical)
    for t in grid(0.01, tc, n(500, 20000)) + [rng.uniform(0.01, tc) for _ in range(n(200, 5000))]:
        apply('sat', {'t': t})
    for t in grid(0.01, float(T.Tc1_C), n(150, 4000)) + [rng.uniform(0.01, float(T.Tc1_C)) for _ in range(n(50, 1000))]:
        apply('tsat', {'t': t, 'bounds': bool(rng.random() < 0.5)})
    # range checking on both sides of every limit
    cases = []
    tl = [v for e in (0.01, 350., TC1_C, 590., 800.) for v in edge_values(e)]
    for t in tl + [rng.uniform(-3., 805.) for _ in range(n(150, 4000))]:
        cases.append(('sat', (t,)))
        # p = 0 itself is outside the property (a vacuum is not a steam state; supst divides by p): small positive values (down to 1e-9 Pa) instead
        for p in edge_values(1e8) + [-1e-9, -1.0, 1e-9, 1e-6, 1e-3] + [1e5, 10e6, 30e6, 99e6] + [rng.uniform(1e-3, 1.01e8) for _ in range(3)]:
            cases += [('cowat', (t, p)), ('supst', (t, p))]
        if 0.01 <= t <= TC1_C:
            ps = ref_psat67(t)
            for f in (1 - 1e-3, 1 - 1e-6, 1 - 3e-9, 1 + 3e-9, 1 + 1e-6, 1 + 1e-3):
                cases += [('cowat', (t, ps * f)), ('supst', (t, ps * f))]
        elif TC1_C < t <= 590.:
            pb = ref_b23p67(t)
            for f in (1 - 1e-3, 1 - 1e-6, 1 - 3e-9, 1 + 3e-9, 1 + 1e-6, 1 + 1e-3):
                cases.append(('supst', (t, pb * f)))
    plo = ref_psat67(0.01)
    for p in edge_values(PC1) + edge_values(plow(T)) + [plo * f for f in (0.5, 1 - 1e-3, 1 - 1e-6, 1 + 1e-6, 1 + 1e-3, 2)] + [0.0, -1.0, 1.0, 2 * PC1] + \
            [10 ** rng.uniform(1, 7.5) for _ in range(n(60, 1500))]:
        cases.append(('tsat', (p,)))
    for p in [PC1 * f for f in (1 + 1e-6, 1.001, 1.1, 2, 4)] + [30e6, 50e6, 100e6]:
        cases.append(('tsat', (p,)))
    for k, (fn, args) in enumerate(cases):
        apply('bounds', {'fn': fn, 'args': list(args)})
        if fn == 'tsat' or k % 7 == 0:
            apply('bounds', {'fn': fn, 'args': list(args), 'unchecked_first': True})
    # the two classifiers
    rc = []
    for t in grid(0.01, 800., n(40, 400)):
        for p in grid(1.0, 100e6, n(25, 250)):
            rc.append((t, p))
    for _ in range(n(1500, 60000)):
        rc.append((rng.uniform(-2., 805.), rng.choice([rng.uniform(1e-3, 101e6), 10 ** rng.uniform(0, 8.01)])))
    for t in [v for e in (0.01, 350., 590., 800.) for v in edge_values(e)]:
        for p in edge_values(100e6) + [-1e-9, 1e-9, 1e-3] + [1e5, 17e6, 50e6]:
            rc.append((t, p))
    for t in grid(0.01, 350., n(40, 1000)):
        a, b = sorted([ref_psat(t), ref_psat67(t)])
        rc += [(t, a * (1 - 1e-5)), (t, b * (1 + 1e-5)), (t, a * (1 - 1e-3)), (t, b * (1 + 1e-3))]
    for t in grid(TC1_C + 0.01, 590., n(40, 1000)):
        a, b = sorted([ref_b23p(t), ref_b23p67(t)])
        rc += [(t, a * (1 - 1e-5)), (t, min(b * (1 + 1e-5), 100e6)), (t, a * (1 - 1e-3)), (t, min(b * (1 + 1e-3), 100e6))]
    u0 = res.unstable
    for t, p in rc:
        apply('regions', {'t': t, 'p': p})
    res.hyp['regions_agree_logic: t <= 350 or t > Tc1 and p outside both curves (classifier states explored)'] = [len(rc) - (res.unstable - u0), len(rc)]
    # separated steam fraction
    hyp_h = [0, 0]
    for _ in range(n(250, 6000)):
        p1 = rng.choice([rng.uniform(0.1e6, 5e6), 0.1e6, 5e6])
        p2 = None if rng.random() < 0.5 else rng.choice([rng.uniform(0.1e6, 5e6), 0.1e6, 5e6])
        h1 = rng.choice([rng.uniform(0, 3.5e6), 0.0, 3.5e6, rng.uniform(0.4e6, 2.9e6)])
        h2 = rng.choice([rng.uniform(0, 3.5e6), h1 + 1.0, h1 * (1 + 1e-9), rng.uniform(0.4e6, 2.9e6)])
        h2 = min(h2, 3.5e6)
        c = {'h': h1, 'h2': h2, 'p1': p1}
        if p2 is not None: c['p2'] = p2
        apply('fraction', c)
        res.count('fraction:' + ('one-stage' if p2 is None else 'two-stage'))
        # hypothesis of steam_fraction_monotone (steam richer in enthalpy than water) on these separator pressures
        try:
            with warnings.catch_warnings():
                warnings.simplefilter('ignore')
                def hh(p):
                    ts = T.tsat(p)
                    d, u = T.cowat(ts, p); hl = u + p / d
                    d, u = T.supst(ts, p); hs = u + p / d
                    return hl, hs
                hl1, hs1 = hh(p1)
                okh = hl1 < hs1
                if p2 is not None:
                    hl2, hs2 = hh(p2)
                    okh = okh and hl2 < hs2 and hl1 <= hs2
        except Exception:
            okh = False
        hyp_h[1] += 1; hyp_h[0] += bool(okh)
    res.hyp['steam_fraction_monotone: hl1 < hs1 (and hl2 < hs2, hl1 <= hs2 for two stages) at the separator pressures explored'] = hyp_h
    singular_stage(ctx, I, T, res, rng, apply, CD, n)


FNS15 = ['cowat', 'supst', 'sat', 'b23p', 'region', 'visw', 'viss']


def singular_stage(ctx, I, T, res, rng, apply, CD, n):
    """singularity-directed search on the IFC-67 routines (see props/c14.py singular_stage): roots of every denominator,
    square-root argument and comparison of the translated t2thermo routines (or of the comparisons against constants
    traced in the real code when the source cannot be translated) along lines through the common range; the property
    clauses are evaluated at each root and a few ulps / 1e-12 / 1e-9 / 1e-6 around it, plus a jump test."""
    try:
        _, MT = thermo.modules(core.REPO)
        P, mode = thermo.Prober(MT), 'translated-tree'
    except Exception:
        P, mode = thermo.TraceProber(T, core.REPO / 't2thermo.py', FNS15), 'real-code-comparisons'
        ctx.notes.append('singularity stage falls back to comparisons traced in the real code (translator failed)')
    N = n(160, 500) if mode == 'translated-tree' else n(60, 200)
    tc97 = 647.096 - 273.15
    psl = lambda t: max(ref_psat(t), ref_psat67(t)) * (1 + 1e-9)
    lines = [('sat', lambda x: (x, False), 0, 0.01, TC1_C, False), ('b23p', lambda x: (x,), 0, 350., 590., False)]
    for t in [0.01, 60., 150., 250., 330., 350.] + [rng.uniform(0.01, 350.) for _ in range(2)]:
        lines.append(('cowat', (lambda t_: lambda x: (t_, x, False))(t), 1, psl(t), 100e6, True))
    for p in [1e5, 1e6, 1e7, 5e7, 100e6] + [10 ** rng.uniform(5, 8)]:
        thi = 350. if p >= psl(350.) else min(ref_tsat(p), ref_tsat67(p)) * (1 - 1e-9)
        if thi > 0.02: lines.append(('cowat', (lambda p_: lambda x: (x, p_, False))(p), 0, 0.01, thi, False))
    for t in [0.01, 100., 300., 350., 450., 590., 700., 800.] + [rng.uniform(0.01, 800.) for _ in range(2)]:
        lines.append(('supst', (lambda t_: lambda x: (t_, x, False))(t), 1, 1.0, steam_pmax(I, T, t), True))
    for p in [1.0, 1e3, 1e5, 1e6, 1e7, 5e7, 100e6] + [10 ** rng.uniform(0, 8)]:
        if p < min(ref_psat(350.), ref_psat67(350.)): tlo = max(ref_tsat(p), ref_tsat67(p)) * (1 + 1e-9)
        elif p < min(ref_b23p(590.), ref_b23p67(590.)):
            tlo = 350.
            for _ in range(60):
                if steam_pmax(I, T, tlo) >= p: break
                tlo += (590. - tlo) * 0.1 + 1e-3
        else: tlo = 590.0001
        lines.append(('supst', (lambda p_: lambda x: (x, p_, False))(p), 0, max(tlo, 0.01), 800., False))
    for t in [0.01, 100., 349., 351., 500., 600., 800.]:
        lines.append(('region', (lambda t_: lambda x: (t_, x))(t), 1, 1e-3, 101e6, True))
    for p in [1.0, 1e5, 1e7, 2e7, 5e7, 100e6]:
        lines.append(('region', (lambda p_: lambda x: (x, p_))(p), 0, 0.001, 801., False))

    def inside(fn, a):
        if fn == 'cowat': return 0.01 <= a[0] <= 350. and psl(a[0]) <= a[1] <= 100e6
        if fn == 'supst': return 0.01 <= a[0] <= 800. and 0 < a[1] <= steam_pmax(I, T, a[0])
        if fn == 'sat': return 0.01 <= a[0] <= TC1_C
        if fn == 'b23p': return 350. <= a[0] <= 590.
        return True

    def at_point(fn, a):
        if fn == 'region':
            apply('regions', {'t': a[0], 'p': a[1]}); return
        if fn in ('cowat', 'supst', 'sat'):
            apply('bounds', {'fn': fn, 'args': [x for x in a if not isinstance(x, bool)]})
        if not inside(fn, a): return
        if fn == 'sat':
            if a[0] <= tc97: apply('sat', {'t': a[0]})
            apply('tsat', {'t': a[0], 'bounds': False})
        elif fn in ('cowat', 'supst'):
            c = {'t': a[0], 'p': a[1]}
            apply('liquid' if fn == 'cowat' else 'steam', c)
            if CD is not None:
                apply('potential_tree', dict(c, phase='liquid' if fn == 'cowat' else 'steam'), lambda I_, T_, x: o_potential_tree(I_, T_, CD, x))

    seen = set()
    for fn, mk, var, lo, hi, log in lines:
        if not lo < hi: continue
        for key, x, kind in thermo.find_roots(P, fn, mk, lo, hi, n=N, log=log):
            tag = (fn, key, repr(x))
            if tag in seen: continue
            seen.add(tag)
            res.count('singular-point:%s:%s:%s' % (mode, key.split('#')[0].split('@')[0], kind))
            res.sample({'singular point': P.describe(key), 'at': [v for v in mk(x)], 'kind': kind}, cap=14)
            for xn in neighbours(x):
                at_point(fn, mk(xn))
            if fn != 'region' and x != 0:
                a0 = list(mk(x))
                pts = []
                for f in (1 - 3e-9, 1 - 1e-9, 1 + 1e-9, 1 + 3e-9):
                    b = list(a0); b[var] = x * f; pts.append(b)
                if all(inside(fn, b) for b in pts):
                    apply('continuity', {'fn': fn, 'args': a0, 'var': var}, lambda I_, T_, cc: o_continuity(T_, cc))


def search(ctx, seconds, res):
    found = list(res.violations)
    t0 = time.time()
    k = 0
    while not found and time.time() - t0 < seconds:
        k += 1
        c2 = core.Ctx(ctx.prop, ctx.tier, ctx.seed + 1000 * k)
        c2.model_ok = False
        try:
            r = run(c2, scale=1.0, oracle_only=True)
        finally:
            c2.cleanup()
        found = r.violations
    return found


def replay(ctx, payload):
    I = load_real('IAPWS97')
    T = load_real('t2thermo')
    c = payload.get('case') or {}
    name = c.get('clause')
    if not name:
        return False, 'replay file names what no longer checks: %s' % payload.get('broken')
    try:
        if name == 'potential_tree':
            _, MT = thermo.modules(core.REPO)
            r = o_potential_tree(I, T, thermo.Compiled(MT, thermo.DecimalBackend()), c)
        elif name == 'continuity':
            r = o_continuity(T, c)
        else:
            r = CLAUSES[name](I, T, c)
    except NoValue as e:
        r = [V('no-value', '%s%r %s' % (e.fn, e.args_, e.why), c)]
    if r == 'band': r = []
    txt = '; '.join(v['what'] for v in r) or 'clause %s holds at %s' % (name, {k: v for k, v in c.items() if k != 'clause'})
    return bool(r), txt
