"""C17 — block, column, layer and node names are unique, well-formed and invertible.

model      lean/PyTough/Model/Names.lean (int_to_chars, new_dict_key, uniqstring, fix/unfix_blockname,
           fix_block_mapping, valid_blockname, block_/column_/layer_name, *_name_from_number,
           new_node_name, add_layers names, rectangular names, setup_block_name_index)
tables     lean/PyTough/Gen/Conventions.lean, regenerated from /repo/mulgrids.py by harness/translate/conventions.py
theorems   lean/PyTough/Props/C17.lean
tie        correspondence facets (real function vs compiled model, return value or exception class):
             gen_numbers  int_to_chars / column_/node_/layer_name_from_number, EXHAUSTIVE over 0..20000
             fix_unfix    fix_blockname / unfix_blockname / valid_blockname on all structured + random names
             block_names  block_name / column_name / layer_name
             dict_keys    new_dict_key / new_node_name / new_column_name / uniqstring / fix_block_mapping
             geometries   add_layers and rectangular(...) name lists, block_name_list (also with surfaces)
             sequences    multi-step orders in ONE process / on ONE object (spaces=False then True, the reverse, another alphabet or
                          case in between, random orders; generators, add_layers, rectangular; numbers crossing n+n^2, n^3, n+n^2+n^3),
                          each sequence in a pristine forked process: property oracle per step + the oracle's own numeration
oracle     the property statement evaluated directly on the real return values (distinctness, lengths,
           inverse functions, exception class, idempotence / simulator form / cycle stability)
"""
import string, itertools, contextlib, io, sys
import core
from core import Result, hexs

ID = 'C17'
MODULE = 'PyTough.Props.C17'
TARGETS = ['PyTough.Props.C17', 'drv_c17']
THEOREMS = ['Props.C17.' + t for t in [
    'int_to_chars_injective', 'int_to_chars_length_spaces', 'int_to_chars_length_padded',
    'column_name_from_number_total', 'node_name_from_number_total', 'layer_name_from_number_total',
    'column_name_from_number_injective', 'node_name_from_number_injective', 'layer_name_from_number_injective',
    'new_dict_key_fresh', 'new_node_name_fresh',
    'add_layers_names', 'uniqstring_alphabet',
    'block_name_invertible', 'block_name_injective', 'block_name_list_distinct',
    'rectangular_names_distinct', 'rectangular_block_names_distinct', 'rectangular_error_is_naming', 'rectangular_alphabet',
    'fix_idempotent', 'unfix_is_simulator_form', 'name_cycle_stabilises', 'unfix_cycle_stabilises',
]]
LEVEL_TEXT = ('Proof: Lean theorems about a character-exact model of the naming code of mulgrids.py: int_to_chars is injective with '
              'exact length/capacity in both modes; column/node/layer_name_from_number return a name of the convention\'s length '
              'iff the number is within capacity and NamingConventionError otherwise, injectively; new_dict_key terminates with a '
              'fresh key; add_layers names are distinct, of the right length and avoid the surface layer name; block_name has length '
              '5 and column_name/layer_name invert it under all 4 conventions; every rectangular geometry (4 conventions x 3 '
              'atmosphere types, any surface) has duplicate-free 5-character block names and fails only with NamingConventionError; '
              'fix_blockname is idempotent, unfix_blockname gives the (A3,I2) simulator form and the write/read cycle stabilises after '
              'one step for all 5-character names. No sorry. Tied to /repo by a translator for the convention tables and an exhaustive '
              '(generator integers 0..20000) + structured correspondence with the real functions, plus a direct oracle.')
LEVEL_NOTE = ('Trusted: Lean kernel (+propext, Classical.choice, Quot.sound); the hand-written model Model/Names.lean (diffed against the real '
              'functions on every run); the translator of the convention tables. ASCII only. Alphabets are duplicate-free after uniqstring, '
              'contain no blank or digit, and have >= 2 characters when spaces are not allowed (a 1-character alphabet without spaces makes '
              'int_to_chars recurse for ever: RecursionError, outside the property\'s quantifier). block order dmplex and the geometry '
              'constructors other than rectangular/add_layers are not modelled.')
TECHNIQUE = 'Lean 4 proof over an executable model of the naming functions + translated convention tables + exhaustive differential correspondence'
ASSUMPTIONS = [
    'ASCII text only (str.isdigit() is also true for non-ASCII digits: outside the model)',
    'alphabets: duplicate-free (uniqstring), no blanks or digits, at least 1 character (at least 2 when spaces=False)',
    'numbers passed to the generators are non-negative integers',
]
TRUSTED_EXTRA = ['Gen/Conventions.lean is regenerated from the AST of /repo/mulgrids.py on every run (harness/translate/conventions.py)']

LOWER, UPPER = string.ascii_lowercase, string.ascii_uppercase
NAMEALPHA = string.ascii_letters + string.digits + ' '
STRUCT = 'aBz0159 '                       # representatives of the character classes for structured names
EXC_MAP = {'RecursionError': 'Exception'}


def hx(s):
    return 'x' + hexs(s)


def unx(t):
    return bytes.fromhex(t[1:]).decode('latin-1')


def hxlist(l):
    return ','.join(hx(s) for s in l) if l else '-'


def unxlist(t):
    return [] if t == '-' else [unx(x) for x in t.split(',')]


def b(x):
    return '1' if x else '0'


def call(f, *a, **k):
    """('ok', value) or ('exc', class name)"""
    try:
        with contextlib.redirect_stdout(io.StringIO()):
            return ('ok', f(*a, **k))
    except RecursionError:
        return ('exc', 'Exception')
    except Exception as e:
        n = type(e).__name__
        return ('exc', EXC_MAP.get(n, n))


def parse_reply(line, kind):
    """driver reply -> same shape as call()"""
    w = line.split(' ')
    if w[0] == 'exc':
        return ('exc', w[1])
    if w[0] != 'ok':
        return ('bad', line)
    if kind == 'str':
        return ('ok', unx(w[1]))
    if kind == 'optstr':
        return ('ok', None if w[1] == 'none' else unx(w[1]))
    if kind == 'bool':
        return ('ok', w[1] == '1')
    if kind == 'strint':
        return ('ok', (unx(w[1]), int(w[2])))
    if kind == 'list':
        return ('ok', unxlist(w[1]))
    if kind == 'pairs':
        return ('ok', sorted([] if w[1] == '-' else [tuple(unx(x) for x in kv.split(':')) for kv in w[1].split(',')]))
    if kind == 'rect':
        return ('ok', tuple(unxlist(x) for x in w[1:5]))
    if kind == 'recth':
        return ('ok', tuple(tuple(int(y) for y in x.split(':')) for x in w[1:5]))
    raise RuntimeError('unknown reply kind ' + kind)


def hash_names(l):
    h = 0
    M = (1 << 64) - 1
    for name in l:
        for c in name:
            h = (h * 1000003 + ord(c) + 1) & M
        h = (h * 1000003 + 7) & M
    return h


# ------------------------------------------------------------------ the real code

class Real:
    def __init__(self):
        import importlib
        import mulgrids
        self.m = mulgrids
        self.geo = {}

    def g(self, conv, atmos=2):
        k = (conv, atmos)
        if k not in self.geo:
            self.geo[k] = self.m.mulgrid(convention=conv, atmos_type=atmos)
        return self.geo[k]

    def justfn(self, left):
        return str.ljust if left else str.rjust


def alphabets(ctx, rng):
    """(label, chars) — duplicate-free alphabetic sets: lower, upper, three custom ones (one with 2 characters),
    and one random subset per seed"""
    k = rng.randint(3, 12)
    rnd = ''.join(rng.sample(string.ascii_letters, k))
    return [('lower', LOWER), ('upper', UPPER), ('ab', 'ab'), ('qwertyuiop', 'qwertyuiop'), ('AbCdEfG', 'AbCdEfG'), ('random', rnd)]


# raw `chars` arguments as a caller may pass them: repeated letters and the same letter in both cases, so that the
# order of the preprocessing in rectangular()/add_layers() (case folding, then uniqstring) matters
RAW_ALPHAS = [('dups', 'hello'), ('mixed-case', 'aAbBcCdD'), ('ascii_letters', string.ascii_letters),
              ('mixed-case+dups', 'AbaBBa'), ('lower+ATM', LOWER + 'ATM')]


def good_chars(chars, spaces):
    """hypothesis of the theorems about an alphabet"""
    return (len(set(chars)) == len(chars) and all(c != ' ' and not c.isdigit() for c in chars)
            and len(chars) >= (1 if spaces else 2))


# ------------------------------------------------------------------ oracles (direct, on real values)

def sim_form(name):
    """the name as a simulator that treats it as (A3, I2) prints it"""
    t = name[3:5]
    if len(name) == 5 and t[1].isdigit() and (t[0].isdigit() or t[0] == ' '):
        return '%3s%2d' % (name[0:3], int(t))
    return name


def oracle_fix(R, name):
    """fix idempotent, unfix = simulator form, one write/read cycle reaches a fixed point (5-char names over NAMEALPHA)"""
    out = []
    fix, unfix = R.m.fix_blockname, R.m.unfix_blockname
    case = {'fn': 'fix', 'name': name}
    try:
        f1 = fix(name)
        if fix(f1) != f1:
            out.append(dict(key='fix-not-idempotent', what='fix_blockname(fix_blockname(%r)) = %r != %r' % (name, fix(f1), f1), case=case))
        u = unfix(name)
        if u != sim_form(name):
            out.append(dict(key='unfix-not-simulator-form', what='unfix_blockname(%r) = %r, the simulator prints %r' % (name, u, sim_form(name)), case=case))
        c1 = fix(unfix(name))
        c2 = fix(unfix(c1))
        if c1 != c2:
            out.append(dict(key='cycle-not-stable', what='write/read cycles of %r: %r then %r' % (name, c1, c2), case=case))
        c3 = fix(unfix(c2))
        if c3 != c2:
            out.append(dict(key='cycle-not-stable', what='write/read cycles of %r: %r, %r, then %r' % (name, c1, c2, c3), case=case))
    except Exception as e:
        out.append(dict(key='fix-raises:' + type(e).__name__, what='fix/unfix of %r raises %s' % (name, type(e).__name__), case=case))
    return out


def oracle_names(kind, names, length, case, what):
    """generated names: distinct and of the convention's length"""
    out = []
    bad = [n for n in names if not isinstance(n, str) or len(n) != length]
    if bad:
        out.append(dict(key='%s-length' % kind, what='%s: name %r does not have length %d' % (what, bad[0], length), case=case))
    if len(set(names)) != len(names):
        seen = {}
        for i, n in enumerate(names):
            if n in seen:
                out.append(dict(key='%s-duplicate' % kind, what='%s: name %r generated twice (positions %d and %d)' % (what, n, seen[n], i), case=case))
                break
            seen[n] = i
    return out


def oracle_exc(kind, r, case, what):
    """the only exception allowed is the explicit naming error"""
    if r[0] == 'exc' and r[1] != 'NamingConventionError':
        return [dict(key='%s-raises:%s' % (kind, r[1]), what='%s raises %s instead of NamingConventionError' % (what, r[1]), case=case)]
    return []


def oracle_blocks(g, conv, layers, cols, case, what, limit=None):
    """block_name has length 5 and column_name / layer_name give back the parts"""
    out = []
    n = 0
    for lay in layers:
        for col in cols:
            blk = g.block_name(lay, col)
            if len(blk) != 5 or g.column_name(blk) != col or g.layer_name(blk) != lay:
                c = dict(case); c.update(layer=lay, column=col)
                out.append(dict(key='block-name-not-invertible', what='%s: block_name(%r, %r) = %r -> column %r, layer %r'
                                % (what, lay, col, blk, g.column_name(blk), g.layer_name(blk)), case=c))
                return out
            n += 1
            if limit and n >= limit:
                return out
    return out


# ------------------------------------------------------------------ facets

class Batch:
    """collects (request line, reply kind, real result, case) and diffs against the driver"""
    def __init__(self, res, facet):
        self.res, self.name = res, facet
        self.f = res.facet(facet)
        self.items = []

    def add(self, line, kind, real, case):
        self.items.append((line, kind, real, case))

    def flush(self, ctx, canon=None):
        if not self.items:
            return
        self.res.evaluations += len(self.items)
        if ctx.model_ok:
            out = core.run_driver('drv_c17', [it[0] for it in self.items])
            for (line, kind, real, case), rep in zip(self.items, out):
                m = parse_reply(rep, kind)
                if canon:
                    real = canon(real)
                self.f['cases'] += 1
                if m != real:
                    self.f['disagreements'] += 1
                    if len(self.res.disagreements) < 50:
                        self.res.disagreements.append(dict(facet=self.name, case=case, model=repr(m)[:300], impl=repr(real)[:300]))
        self.items = []


def facet_numbers(ctx, R, res, rng, alphas):
    """exhaustive over generator integers 0..20000"""
    N = 20000
    B = Batch(res, 'gen_numbers')
    itc = R.m.int_to_chars
    # int_to_chars itself
    for label, chars in alphas:
        n = len(chars)
        for spaces, length in [(True, 0), (True, 3), (False, 2), (False, 3), (False, 0)]:
            # quick tier: all of 0..20000 for the default alphabet; for the others up to their 3-character capacity + 300
            nmax = N if (not ctx.quick or label == 'lower') else min(N, sum(n ** k for k in range(1, 4)) + 300)
            seen = {}
            for i in range(nmax + 1):
                r = call(itc, i, '', chars, spaces, length)
                B.add('itc %d x %s %s %d' % (i, hx(chars), b(spaces), length), 'str', r, {'fn': 'int_to_chars', 'i': i, 'chars': chars, 'spaces': spaces, 'length': length})
                if r[0] == 'ok' and (spaces or length):
                    # injectivity (property: generated names are distinct)
                    if r[1] in seen:
                        res.violations.append(dict(key='int_to_chars-duplicate', what='int_to_chars gives %r for %d and %d (chars=%r, spaces=%s, length=%d)'
                                                   % (r[1], seen[r[1]], i, chars, spaces, length),
                                                   case={'fn': 'int_to_chars', 'i': i, 'j': seen[r[1]], 'chars': chars, 'spaces': spaces, 'length': length}))
                    seen[r[1]] = i
            res.count('int_to_chars:%s:%s' % ('spaces' if spaces else 'nospaces', label), nmax + 1)
        B.flush(ctx)
    # degenerate alphabets (exception classes)
    for chars in ['', 'a']:
        for spaces in (True, False):
            for i in (0, 1, 2, 5):
                for length in (0, 3):
                    B.add('itc %d x %s %s %d' % (i, hx(chars), b(spaces), length), 'str', call(itc, i, '', chars, spaces, length),
                          {'fn': 'int_to_chars', 'i': i, 'chars': chars, 'spaces': spaces, 'length': length})
    for i in (0, 1, 30, 1000):
        for st in ('', 'q', 'xyz'):
            B.add('itc %d %s %s 1 0' % (i, hx(st), hx(LOWER)), 'str', call(itc, i, st), {'fn': 'int_to_chars', 'i': i, 'st': st})
    B.flush(ctx)

    # *_name_from_number
    fns = [('cnn', 'column_name_from_number', 'colname_length'), ('nnn', 'node_name_from_number', 'colname_length'),
           ('lnn', 'layer_name_from_number', 'layername_length'), ('ncn', 'node_col_name_from_number', None)]
    for conv in range(4):
        g = R.g(conv)
        for op, meth, lenattr in fns:
            f = getattr(g, meth)
            numeric = (conv in (1, 2)) if op != 'lnn' else (conv == 0)
            for label, chars in alphas:
                if numeric and label != 'lower':
                    continue                                 # chars/spaces are not used by the numeric conventions
                for spaces in (True, False):
                    if numeric and not spaces:
                        continue
                    for left in (False, True):
                        if ctx.quick and op == 'ncn' and (label != 'lower' or left or conv in (2, 3)):
                            continue
                        if ctx.quick and op == 'nnn' and (label != 'lower' or left):
                            continue                         # same body as column_name_from_number
                        n = len(chars)
                        L = g.layername_length if op == 'lnn' else g.colname_length
                        cap = 10 ** L if numeric else sum(n ** k for k in range(1, L + 1))
                        # quick tier: all of 0..20000 for the default alphabet (and the upper-case one for columns);
                        # for the other alphabets up to the capacity + 300 (everything beyond is the naming error)
                        full = (not ctx.quick) or label == 'lower' or (label == 'upper' and op == 'cnn' and conv == 0 and not left)
                        nmax = N if full else min(N, cap + 300)
                        names, first_exc = [], None
                        for k in range(nmax + 1):
                            r = call(f, k, R.justfn(left), chars, spaces)
                            case = {'fn': meth, 'convention': conv, 'num': k, 'left': left, 'chars': chars, 'spaces': spaces}
                            B.add('%s %d %d %s %s %s' % (op, conv, k, b(left), hx(chars), b(spaces)), 'str', r, case)
                            if lenattr:
                                if r[0] == 'ok':
                                    names.append(r[1])
                                    if first_exc is not None:
                                        pass    # a name after an error: lengths / duplicates are still checked below
                                else:
                                    if first_exc is None:
                                        first_exc = k
                                    res.violations += oracle_exc(meth, r, case, '%s(%d) [convention %d]' % (meth, k, conv))
                        if lenattr:
                            case = {'fn': meth + ':all', 'convention': conv, 'nmax': nmax, 'left': left, 'chars': chars, 'spaces': spaces}
                            res.violations += oracle_names(meth, names, getattr(g, lenattr), case,
                                                           '%s [convention %d, chars=%r, spaces=%s, %s]' % (meth, conv, chars, spaces, 'ljust' if left else 'rjust'))
                            res.count('%s:conv%d:names' % (meth, conv), len(names))
                            res.count('%s:conv%d:naming-errors' % (meth, conv), nmax + 1 - len(names))
                            if first_exc is not None:
                                res.distinct.add((meth, conv, left, chars, spaces, first_exc))
                                res.count('capacity-limit-crossed')
            B.flush(ctx)


def random_name(rng, n=5, alpha=NAMEALPHA):
    return ''.join(rng.choice(alpha) for _ in range(n))


def facet_fix(ctx, R, res, rng):
    B = Batch(res, 'fix_unfix')
    fix, unfix, valid = R.m.fix_blockname, R.m.unfix_blockname, R.m.valid_blockname
    names = [''.join(t) for t in itertools.product(STRUCT, repeat=5)]           # all structured names: 8^5
    res.count('names:structured', len(names))
    nr = ctx.n(100000, 1000000)
    names += [random_name(rng) for _ in range(nr)]
    res.count('names:random5', nr)
    n_prop = len(names)
    # outside the property's domain (other lengths, other characters): correspondence only
    other = ['', 'a', 'ab', 'abc', 'ab1', 'ab1 ', 'ab1 5', 'ab1 56', 'abc5', 'abcd5', ' a1 2 3', 'a+* 1', 'ab1\t5', 'AB1 5x', '12345', '1 3 5', '  1 0']
    for _ in range(ctx.n(20000, 200000)):
        other.append(random_name(rng, rng.choice([0, 1, 2, 3, 4, 4, 5, 5, 6, 7]), NAMEALPHA + '+-*./_' if rng.random() < 0.5 else '019 ab'))
    res.count('names:other-lengths/characters', len(other))
    fired = 0
    for k, name in enumerate(names + other):
        h = hx(name)
        case = {'fn': 'fix', 'name': name}
        rf = call(fix, name)
        B.add('fix ' + h, 'str', rf, case)
        B.add('unfix ' + h, 'str', call(unfix, name), {'fn': 'unfix', 'name': name})
        B.add('valid ' + h, 'bool', call(valid, name), {'fn': 'valid', 'name': name})
        if k < n_prop:
            res.violations += oracle_fix(R, name)
            if rf[0] == 'ok' and rf[1] != name:
                fired += 1
                res.distinct.add(('fix', name))
            elif unfix(name) != name:
                res.distinct.add(('unfix', name))
        if len(B.items) > 300000:
            B.flush(ctx)
    B.flush(ctx)
    res.count('names:fix-changed-the-name', fired)


def gen_names(R, conv, rng, alphas, ncol, nlay):
    """column and layer names as the library generates them for one random configuration"""
    label, chars = rng.choice(alphas)
    spaces, left = rng.random() < 0.6, rng.random() < 0.4
    if not good_chars(chars, spaces):
        spaces = True
    g = R.g(conv)
    jf = R.justfn(left)
    cols = []
    for k in range(1, ncol + 1):
        r = call(g.column_name_from_number, k, jf, chars, spaces)
        if r[0] != 'ok': break
        cols.append(r[1])
    with contextlib.redirect_stdout(io.StringIO()):
        g2 = R.m.mulgrid(convention=conv, atmos_type=2)
        r = call(g2.add_layers, [1.0] * nlay, 0., 'l' if left else 'r', chars, spaces)
        lays = [l.name for l in g2.layerlist]
    return dict(chars=chars, spaces=spaces, left=left), cols, lays


def facet_blocks(ctx, R, res, rng, alphas):
    B = Batch(res, 'block_names')
    for conv in range(4):
        g = R.g(conv)
        # generated names: inverse property (oracle) + correspondence on a sample of pairs
        for rep in range(ctx.n(6, 40)):
            cfg, cols, lays = gen_names(R, conv, rng, alphas, rng.choice([30, 99, 120, 999, 1100]), rng.choice([5, 50, 99, 120]))
            case = {'fn': 'block_name:generated', 'convention': conv, 'ncol': len(cols), 'nlay': len(lays) - 1}
            case.update(cfg)
            res.violations += oracle_blocks(g, conv, lays, cols, case, 'convention %d %r' % (conv, cfg), limit=ctx.n(20000, 200000))
            res.count('block_name:generated-pairs', min(len(lays) * len(cols), ctx.n(20000, 200000)))
            for _ in range(ctx.n(300, 3000)):
                lay, col = rng.choice(lays), rng.choice(cols)
                r = call(g.block_name, lay, col)
                B.add('blk %d %s %s -' % (conv, hx(lay), hx(col)), 'str', r, {'fn': 'block_name', 'convention': conv, 'layer': lay, 'column': col})
                if r[0] == 'ok':
                    res.distinct.add(('blk', conv, r[1]))
                    B.add('colname %d %s' % (conv, hx(r[1])), 'optstr', call(g.column_name, r[1]), {'fn': 'column_name', 'convention': conv, 'name': r[1]})
                    B.add('layname %d %s' % (conv, hx(r[1])), 'optstr', call(g.layer_name, r[1]), {'fn': 'layer_name', 'convention': conv, 'name': r[1]})
        # arbitrary parts (fix_blockname may fire, short parts raise): correspondence only
        for _ in range(ctx.n(4000, 40000)):
            lay = random_name(rng, rng.choice([0, 1, 2, 2, 3, 3, 4]), '019 abXY')
            col = random_name(rng, rng.choice([0, 1, 2, 2, 3, 3, 4]), '019 abXY')
            bm = {}
            if rng.random() < 0.3:
                for _ in range(rng.randint(1, 3)):
                    bm[random_name(rng, 5, '019 ab')] = random_name(rng, 5)
                if rng.random() < 0.5:
                    r0 = call(g.block_name, lay, col)
                    if r0[0] == 'ok': bm[r0[1]] = random_name(rng, 5)
            r = call(g.block_name, lay, col, bm)
            bms = ','.join('%s:%s' % (hx(k), hx(v)) for k, v in bm.items()) or '-'
            B.add('blk %d %s %s %s' % (conv, hx(lay), hx(col), bms), 'str', r, {'fn': 'block_name', 'convention': conv, 'layer': lay, 'column': col, 'blockmap': bm})
            res.count('block_name:arbitrary-parts:' + ('ok' if r[0] == 'ok' else r[1]))
            name = random_name(rng, rng.choice([0, 2, 3, 4, 5, 5, 5, 6]))
            B.add('colname %d %s' % (conv, hx(name)), 'optstr', call(g.column_name, name), {'fn': 'column_name', 'convention': conv, 'name': name})
            B.add('layname %d %s' % (conv, hx(name)), 'optstr', call(g.layer_name, name), {'fn': 'layer_name', 'convention': conv, 'name': name})
        B.flush(ctx)


def facet_dict(ctx, R, res, rng, alphas):
    B = Batch(res, 'dict_keys')
    # uniqstring
    for _ in range(ctx.n(3000, 30000)):
        s = random_name(rng, rng.randint(0, 30), rng.choice(['ab', 'abcABC', LOWER, NAMEALPHA]))
        r = call(R.m.uniqstring, s)
        B.add('uniq ' + hx(s), 'str', r, {'fn': 'uniqstring', 's': s})
        if r[0] == 'ok' and (len(set(r[1])) != len(r[1]) or set(r[1]) != set(s)):
            res.violations.append(dict(key='uniqstring', what='uniqstring(%r) = %r' % (s, r[1]), case={'fn': 'uniqstring', 's': s}))
    # new_dict_key / new_node_name / new_column_name
    for rep in range(ctx.n(1500, 15000)):
        conv = rng.randrange(4)
        label, chars = rng.choice(alphas)
        spaces, left = rng.random() < 0.6, rng.random() < 0.4
        if not good_chars(chars, spaces): spaces = True
        g = R.g(conv)
        length = g.colname_length
        n = len(chars)
        cap = sum(n ** k for k in range(1, length + 1)) if spaces else n ** length - 1
        mode = rng.random()
        if mode < 0.5:      # sparse dict
            nums = set(rng.randint(1, max(2, min(cap, 400))) for _ in range(rng.randint(0, 60)))
        elif mode < 0.8:    # a full prefix (forces a long walk)
            nums = set(range(1, rng.randint(1, min(cap, 300)) + 1))
        else:               # everything up to capacity: exhausted -> naming error expected
            nums = set(range(1, min(cap, 800) + 1)) if cap <= 800 else set(range(1, 200))
        jf = R.justfn(left)
        keys = [jf(R.m.int_to_chars(k, '', chars, spaces, length), length) for k in sorted(nums)]
        rng.shuffle(keys)
        istart = rng.choice([0, 0, 0, rng.randint(0, 50), max(0, cap - 3)])
        d = dict((k, None) for k in keys)
        case = {'fn': 'new_dict_key', 'keys': keys, 'istart': istart, 'left': left, 'length': length, 'chars': chars, 'spaces': spaces}
        r = call(R.m.new_dict_key, d, istart, jf, length, chars, spaces)
        B.add('ndk %d %s %d %s %s %s' % (istart, b(left), length, hx(chars), b(spaces), hxlist(keys)), 'strint', r, case)
        if r[0] == 'ok' and r[1][0] in d:
            res.violations.append(dict(key='new_dict_key-used', what='new_dict_key returned %r, which is already a key' % (r[1][0],), case=case))
        # through the geometry methods
        gg = R.m.mulgrid(convention=conv, atmos_type=2)
        which = rng.choice(['node', 'column'])
        if which == 'node':
            gg.node = d; f = gg.new_node_name
        else:
            gg.column = d; f = gg.new_column_name
        case = {'fn': 'new_%s_name' % which, 'convention': conv, 'keys': keys, 'istart': istart, 'left': left, 'chars': chars, 'spaces': spaces}
        r = call(f, istart, jf, chars, spaces)
        B.add('nnew %d %d %s %s %s %s' % (conv, istart, b(left), hx(chars), b(spaces), hxlist(keys)), 'strint', r, case)
        res.violations += oracle_exc('new_name', r, case, 'new_%s_name' % which)
        if r[0] == 'ok':
            if r[1][0] in d or len(r[1][0]) != length:
                res.violations.append(dict(key='new_name-bad', what='new_%s_name returned %r (dict has it: %s; required length %d)'
                                           % (which, r[1][0], r[1][0] in d, length), case=case))
            res.count('new_name:ok')
            res.distinct.add(('new', conv, r[1][0], len(keys)))
        else:
            res.count('new_name:' + r[1])
    # fix_block_mapping
    for _ in range(ctx.n(2000, 20000)):
        bm = {}
        for _ in range(rng.randint(0, 5)):
            n1 = random_name(rng, rng.choice([5, 5, 5, 5, 3, 6]), '019 ab') if rng.random() < 0.8 else random_name(rng)
            bm[n1] = random_name(rng, 5, '019 ab') if rng.random() < 0.7 else random_name(rng)
        bms = ','.join('%s:%s' % (hx(k), hx(v)) for k, v in bm.items()) or '-'
        d = dict(bm)
        r = call(R.m.fix_block_mapping, d)
        r = ('ok', sorted(d.items())) if r[0] == 'ok' else r
        B.add('fbm ' + bms, 'pairs', r, {'fn': 'fix_block_mapping', 'blockmap': bm})
        res.count('fix_block_mapping:' + ('ok' if r[0] == 'ok' else r[1]))
    B.flush(ctx)


def rect_sizes(conv, n, spaces, rng, quick):
    """(nx, ny) around the node/column capacity limits of the convention, plus small random ones"""
    out = [(1, 1), (3, 2), (rng.randint(1, 12), rng.randint(1, 12))]
    if conv == 1:
        out += [(48, 1), (10, 8), (32, 2), (49, 1), (9, 9)]
    elif conv == 2:
        out += [(36, 26), (498, 1), (499, 1), (99, 9)]
    else:
        cap = sum(n ** k for k in range(1, 4)) if spaces else n ** 3 - 1
        # grids whose node count is just below / at / above the capacity
        for ny in (1, 2, rng.randint(3, 30)):
            nx = cap // (ny + 1) - 1
            if nx >= 1:
                out += [(nx, ny), (nx + 1, ny)]
        if n == 26 and not quick:
            out += [(134, 134), (24, 702) if not spaces else (150, 120)]
    return out


def facet_geometries(ctx, R, res, rng, alphas):
    B = Batch(res, 'geometries')
    mg = R.m.mulgrid
    # add_layers: layer counts across 99, the 2- and 3-letter capacities and the surface-name collision indices
    for conv in range(4):
        for label, chars in alphas + RAW_ALPHAS + [('lower+dups', LOWER + 'tam')]:
            if ctx.quick and label in ('ascii_letters', 'lower+ATM') and conv in (0, 1):
                continue                                    # 52-letter alphabets: 3-letter capacity is far above 20000
            for spaces in (True, False):
                if not good_chars(R.m.uniqstring(chars), spaces):
                    continue
                for left in (False, True):
                    n = len(set(chars))
                    L = R.g(conv).layername_length
                    cap = 99 if conv == 0 else (sum(n ** k for k in range(1, L + 1)) if spaces else n ** L - 1)
                    ms = {1, 2, 45, 46, 47, 98, 99, 100, 120, cap - 1, cap, cap + 1, cap + 2, rng.randint(1, 130)}
                    if conv == 1 and n == 26 and (not ctx.quick or label == 'lower'):
                        ms |= {505, 506, 507, 1208, 1209, 1210}
                    for m in sorted(x for x in ms if 1 <= x <= 20000):
                        if ctx.quick and m > 1500 and not (label == 'lower' and left is False):
                            continue
                        with contextlib.redirect_stdout(io.StringIO()):
                            g = mg(convention=conv, atmos_type=2)
                        r = call(g.add_layers, [1.0] * m, 0., 'l' if left else 'r', chars, spaces)
                        case = {'fn': 'add_layers', 'convention': conv, 'm': m, 'left': left, 'chars': chars, 'spaces': spaces}
                        if r[0] == 'ok':
                            names = [l.name for l in g.layerlist]
                            r = ('ok', names)
                            res.violations += oracle_names('layer', names, L, case, 'add_layers(%d layers) [convention %d, chars=%r, spaces=%s]' % (m, conv, chars, spaces))
                            if len(names) != m + 1:
                                res.violations.append(dict(key='layer-count', what='add_layers(%d thicknesses) made %d layers' % (m, len(names)), case=case))
                            res.distinct.add(('addl', conv, m, left, chars, spaces))
                        else:
                            res.violations += oracle_exc('add_layers', r, case, 'add_layers(%d layers) [convention %d]' % (m, conv))
                            res.count('add_layers:' + r[1])
                        B.add('addl %d %d %s %s %s' % (conv, m, b(left), hx(chars), b(spaces)), 'list', r, case)
        B.flush(ctx)

    # rectangular
    def effective(chars, case_):
        eff = chars if case_ is None else (chars.lower() if case_ == 'l' else chars.upper())
        return R.m.uniqstring(eff)
    cases = []
    for conv in range(4):
        for atmos in range(3):
            for label, chars in alphas + RAW_ALPHAS:
                for spaces in (True, False):
                    for case_ in (None, 'l', 'u'):
                        eff = effective(chars, case_)
                        if not good_chars(eff, spaces):
                            continue
                        cases.append((conv, atmos, label, chars, spaces, case_, len(eff), False))
    rng.shuffle(cases)
    # always run (small grids): every raw alphabet x case in {None,'l','u'} x spaces x convention, both justifications,
    # atmosphere type rotating; then every (convention, atmosphere type, spaces) triple; the rest is sampled
    keep = []
    k = 0
    for label, chars in RAW_ALPHAS:
        for case_ in (None, 'l', 'u'):
            for spaces in (True, False):
                eff = effective(chars, case_)
                if not good_chars(eff, spaces):
                    continue
                for conv in range(4):
                    keep.append((conv, k % 3, label, chars, spaces, case_, len(eff), True))
                    k += 1
    res.count('rectangular:raw-alphabet-configurations', len(keep))
    seen = set()
    nsample = len(keep) + ctx.n(60, 600)
    for c in cases:
        if (c[0], c[1], c[4]) not in seen or len(keep) < nsample:
            seen.add((c[0], c[1], c[4]))
            keep.append(c)
    budget = ctx.n(600000, 12000000)      # total number of block names generated by the real code in this facet
    for idx, (conv, atmos, label, chars, spaces, case_, n, small) in enumerate(keep):
        left = (idx % 2 == 1) if small else rng.random() < 0.4
        L = R.g(conv).layername_length
        lcap = 99 if conv == 0 else (sum(n ** k for k in range(1, L + 1)) if spaces else n ** L - 1)
        if small:
            sizes = [(3, 2), (rng.randint(1, 9), rng.randint(1, 9))]
            ccap = (sum(n ** k for k in range(1, 4)) if spaces else n ** 3 - 1) if conv in (0, 3) else (99 if conv == 1 else 999)
            if ccap <= 400:                       # small alphabets: also at / above the node capacity
                sizes += [(ccap // 2 - 1, 1), (ccap // 2, 1)]
            sizes = [(a, c) for a, c in sizes if a >= 1]
        else:
            sizes = rect_sizes(conv, n, spaces, rng, ctx.quick)
        for nx, ny in sizes:
            nz = rng.choice([1, 2, 3, 46, 47, 99, 100, 120, lcap - 1, lcap, lcap + 1, rng.randint(1, 120)])
            nz = max(1, min(nz, 120))
            if small:
                nz = min(nz, rng.choice([3, 10, 47]))
            if nx * ny * nz > budget // 8:
                nz = max(1, (budget // 8) // (nx * ny))
            if nx * ny * nz > budget:
                continue
            budget -= nx * ny * nz
            case = {'fn': 'rectangular', 'nx': nx, 'ny': ny, 'nz': nz, 'convention': conv, 'atmos_type': atmos, 'left': left,
                    'case': case_, 'chars': chars, 'spaces': spaces,
                    # all columns of a rectangular grid have 4 nodes, so the DMPlex order coincides with layer/column order (what the model computes)
                    'block_order': rng.choice([None, None, 'layer_column', 'dmplex'])}
            res.count('rectangular:block_order=%s' % case['block_order'])
            res.count('rectangular:case=%s' % case_)
            res.count('rectangular:chars=%s' % label)
            res.count('rectangular:justify=%s' % ('l' if left else 'r'))
            res.count('rectangular:convention=%d,atmos_type=%d' % (conv, atmos))
            r, viol, g = run_rect(R, case)
            res.violations += viol
            full = nx * ny * nz <= 60000
            if r[0] == 'ok':
                res.count('rectangular:ok')
                res.count('rectangular:blocks', len(r[1][3]))
                res.distinct.add(('rect', nx, ny, nz, conv, atmos, left, case_, chars, spaces))
                if not full:
                    r = ('ok', tuple((len(l), hash_names(l)) for l in r[1]))
            else:
                res.count('rectangular:' + r[1])
            B.add('rect %s %d %d %d %d %d %s %s %s %s' % (b(full), nx, ny, nz, conv, atmos, b(left), case_ or 'n', hx(chars), b(spaces)),
                  'rect' if full else 'recth', r, case)
            if len(res.samples) < 3 and r[0] == 'ok' and full:
                res.sample({'rectangular': case, 'block_name_list[:4]': r[1][3][:4], 'blocks': len(r[1][3])})
            # a non-default surface: columns lose their upper layers
            # (only on a geometry with the requested numbers of layers and columns: a wrong count is already a recorded violation)
            if g is not None and nx * ny <= 400 and nz >= 2 and rng.random() < 0.7 and len(g.layerlist) == nz + 1 and len(g.columnlist) == nx * ny:
                first = []
                for col in g.columnlist:
                    k = rng.choice([1, 1, 1, 2, rng.randint(1, nz), nz])       # first layer (index in layerlist) that contains the column
                    first.append(k)
                    lay = g.layerlist[k]
                    col.surface = 0.5 * (lay.top + lay.bottom) if rng.random() < 0.5 else lay.top
                with contextlib.redirect_stdout(io.StringIO()):
                    g.setup_block_name_index()
                names = list(g.block_name_list)
                c2 = dict(case); c2['fn'] = 'rectangular+surface'; c2['first_layer'] = first
                res.violations += oracle_names('block', names, 5, c2, 'block_name_list with a surface')
                B.add('bnl %d %d %s %s %s' % (conv, atmos, hxlist([l.name for l in g.layerlist]), hxlist([c.name for c in g.columnlist]),
                                             ','.join(str(k) for k in first)), 'list', ('ok', names), c2)
                res.count('rectangular:with-surface')
        if len(B.items) > 200:
            B.flush(ctx)
    B.flush(ctx)


def run_rect(R, case):
    """real rectangular(...) + the direct oracle; returns (result, violations, geometry or None)"""
    nx, ny, nz = case['nx'], case['ny'], case['nz']
    viol = []
    g = None
    try:
        with contextlib.redirect_stdout(io.StringIO()):
            g = R.m.mulgrid().rectangular([1.0] * nx, [1.0] * ny, [1.0] * nz, convention=case['convention'], atmos_type=case['atmos_type'],
                                          justify='l' if case['left'] else 'r', case=case['case'], chars=case['chars'], spaces=case['spaces'],
                                          block_order=case.get('block_order'))
        r = ('ok', ([n.name for n in g.nodelist], [c.name for c in g.columnlist], [l.name for l in g.layerlist], list(g.block_name_list)))
    except RecursionError:
        r = ('exc', 'Exception')
    except Exception as e:
        r = ('exc', type(e).__name__)
    what = 'rectangular(%dx%dx%d, convention=%d, atmos_type=%d, justify=%s, case=%r, chars=%r, spaces=%s)' % (
        nx, ny, nz, case['convention'], case['atmos_type'], 'l' if case['left'] else 'r', case['case'], case['chars'], case['spaces'])
    viol += oracle_exc('rectangular', r, case, what)
    if r[0] == 'ok':
        nodes, cols, lays, blocks = r[1]
        viol += oracle_names('node', nodes, g.colname_length, case, what)
        viol += oracle_names('column', cols, g.colname_length, case, what)
        viol += oracle_names('layer', lays, g.layername_length, case, what)
        viol += oracle_names('block', blocks, 5, case, what)
        natm = [1, nx * ny, 0][case['atmos_type']]
        if len(nodes) != (nx + 1) * (ny + 1) or len(cols) != nx * ny or len(lays) != nz + 1 or len(blocks) != natm + nx * ny * nz:
            viol.append(dict(key='rectangular-count', what='%s: %d nodes, %d columns, %d layers, %d blocks' % (what, len(nodes), len(cols), len(lays), len(blocks)), case=case))
        if g.num_nodes != len(nodes) or g.num_columns != len(cols) or g.num_layers != len(lays) or len(g.block_name_index) != len(blocks):
            viol.append(dict(key='rectangular-registry', what='%s: by-name dictionaries lost entries (%d/%d nodes, %d/%d columns, %d/%d layers, %d/%d blocks)'
                             % (what, g.num_nodes, len(nodes), g.num_columns, len(cols), g.num_layers, len(lays), len(g.block_name_index), len(blocks)), case=case))
        # the column and layer parts of every block name give back the column and layer it was built from
        # (positional walk: only meaningful when the counts are right — a wrong count is already reported above)
        k = natm
        ok = True
        counts_ok = len(cols) == nx * ny and len(lays) == nz + 1 and len(blocks) == natm + nx * ny * nz
        if not counts_ok:
            colset, layset = set(cols) | {getattr(g, 'atmosphere_column_name', None)}, set(lays)
            for blk in blocks:
                if g.column_name(blk) not in colset or g.layer_name(blk) not in layset:
                    viol.append(dict(key='block-name-not-invertible', what='%s: block %r has parts %r / %r which are not a column / layer of the geometry'
                                     % (what, blk, g.column_name(blk), g.layer_name(blk)), case=case))
                    break
            return r, viol, g
        if case['atmos_type'] == 0 and (g.layer_name(blocks[0]) != lays[0] or g.column_name(blocks[0]) != g.atmosphere_column_name):
            ok = False; bad = (blocks[0], lays[0], g.atmosphere_column_name)
        if case['atmos_type'] == 1:
            for i, col in enumerate(cols):
                if g.layer_name(blocks[i]) != lays[0] or g.column_name(blocks[i]) != col:
                    ok = False; bad = (blocks[i], lays[0], col); break
        if ok:
            for lay in lays[1:]:
                for col in cols:
                    blk = blocks[k]; k += 1
                    if g.column_name(blk) != col or g.layer_name(blk) != lay:
                        ok = False; bad = (blk, lay, col); break
                if not ok: break
        if not ok:
            viol.append(dict(key='block-name-not-invertible', what='%s: block %r was built from layer %r and column %r but its parts are %r / %r'
                             % (what, bad[0], bad[1], bad[2], g.layer_name(bad[0]), g.column_name(bad[0])), case=case))
    return r, viol, g


# ------------------------------------------------------------------ sequences (hidden state)
#
# Every other facet calls a generator / constructor for ONE configuration on a fresh object.  This facet runs realistic
# multi-step orders in ONE process (and partly on ONE mulgrid object): the same convention / justification / chars first with
# spaces=False and then with spaces=True, the reverse order, another alphabet or case in between, random orders — over numbers
# that cross n+n^2, n^3 and n+n^2+n^3 of the alphabet (702 / 17576 / 18278 for 26 letters) and geometries that cross them.
# Each sequence starts in a pristine process (a forked child of a fresh interpreter that has only imported mulgrids), so that
# what one sequence leaves behind cannot hide the effect of the next.  Every step is judged by the property itself
# (distinct, right length, only the naming error, counts, by-name dictionaries complete, block names invertible: violations)
# and against the names of the oracle's own numeration, which do not depend on any earlier call (differences: disagreements).

def seq_letters(k, chars, spaces, L):
    """the oracle's own numeration of k >= 0 over a duplicate-free alphabet: bijective base-n when blanks are allowed,
    positional base-n padded with chars[0] to L otherwise; None when it does not fit L characters"""
    n, s = len(chars), ''
    if spaces:
        while k > 0:
            k -= 1
            s = chars[k % n] + s
            k //= n
    else:
        while k > 0:
            s = chars[k % n] + s
            k //= n
        s = chars[0] * (L - len(s)) + s
    return s if len(s) <= L else None


def seq_expected(kind, conv, L, k, left, chars, spaces):
    """('ok', name) / ('exc', 'NamingConventionError') for column|node|layer number k, independent of any history"""
    jf = str.ljust if left else str.rjust
    if kind == 'layer':
        s = (str(k) if len(str(k)) <= L else None) if conv == 0 else seq_letters(k, chars, spaces, L)
        return ('ok', jf(s, L)) if s is not None else ('exc', 'NamingConventionError')
    if conv in (0, 3):
        s = seq_letters(k, chars, spaces, L)
        return ('ok', jf(s, L)) if s is not None else ('exc', 'NamingConventionError')
    return ('ok', str(k).rjust(L)) if len(str(k)) <= L else ('exc', 'NamingConventionError')


def seq_expected_layers(conv, L, m, left, chars, spaces, surface):
    """names add_layers gives to m layers below the surface layer (numbers whose name is the surface name are skipped)"""
    out, num = [surface], 0
    for _ in range(m):
        while True:
            num += 1
            r = seq_expected('layer', conv, L, num, left, chars, spaces)
            if r[0] != 'ok':
                return r
            if r[1] != surface:
                break
        out.append(r[1])
    return ('ok', out)


def seq_effective(R, chars, case_):
    eff = chars if case_ is None else (chars.lower() if case_ == 'l' else chars.upper())
    return R.m.uniqstring(eff)


def seq_first_diff(a, b):
    if a[0] != 'ok' or b[0] != 'ok':
        return 'result %r, expected %r' % (a if a[0] != 'ok' else 'ok', b if b[0] != 'ok' else 'ok')
    for i, (x, y) in enumerate(zip(a[1], b[1])):
        if x != y:
            return 'position %d: %r, expected %r' % (i, x, y)
    return '%d names, expected %d' % (len(a[1]), len(b[1]))


def seq_step(R, objs, st, case):
    """one step on the real code -> (violations, mismatches, evaluations, outcome)"""
    conv, left, chars, spaces = st['convention'], st['left'], st['chars'], st['spaces']
    op = st['op']
    viol, mism = [], []
    tag = 'step %d of the sequence: ' % case['at']
    cfg = '[convention %d, %s, chars=%r, spaces=%s]' % (conv, 'ljust' if left else 'rjust', chars, spaces)
    if op == 'rect':
        rc = dict(st); rc['fn'] = 'rectangular'
        r, v, g = run_rect(R, rc)
        for x in v:
            viol.append(dict(key='sequence:' + x['key'], what=tag + x['what'], case=case))
        if r[0] == 'ok':
            eff = seq_effective(R, chars, st.get('case'))
            nx, ny = st['nx'], st['ny']
            Lc = g.colname_length
            for kind, got, cnt in (('node', r[1][0], (nx + 1) * (ny + 1)), ('column', r[1][1], nx * ny)):
                exp = [seq_expected(kind, conv, Lc, k, left, eff, spaces) for k in range(1, cnt + 1)]
                exp = ('ok', [e[1] for e in exp]) if all(e[0] == 'ok' for e in exp) else ('exc', 'NamingConventionError')
                if exp != ('ok', got):
                    mism.append(dict(what='%s names of rectangular(%dx%dx%d) %s: %s' % (kind, nx, ny, st['nz'], cfg, seq_first_diff(('ok', got), exp)),
                                     model=repr(exp)[:200], impl=repr(got)[:200]))
            if r[1][2]:
                exp = seq_expected_layers(conv, g.layername_length, st['nz'], left, eff, spaces, r[1][2][0])
                if exp != ('ok', r[1][2]):
                    mism.append(dict(what='layer names of rectangular(%dx%dx%d) %s: %s' % (nx, ny, st['nz'], cfg, seq_first_diff(('ok', r[1][2]), exp)),
                                     model=repr(exp)[:200], impl=repr(r[1][2])[:200]))
        return viol, mism, 1, (r[0] if r[0] == 'ok' else r[1])
    key = (st.get('obj', 0), conv)
    if key not in objs:
        with contextlib.redirect_stdout(io.StringIO()):
            objs[key] = R.m.mulgrid(convention=conv, atmos_type=2)
    g = objs[key]
    if op == 'addl':
        m = st['m']
        L = g.layername_length
        r = call(g.add_layers, [1.0] * m, 0., 'l' if left else 'r', chars, spaces)
        what = tag + 'add_layers(%d layers) %s' % (m, cfg)
        if r[0] == 'ok':
            names = [l.name for l in g.layerlist]
            r = ('ok', names)
            for x in oracle_names('layer', names, L, case, what):
                viol.append(dict(x, key='sequence:' + x['key']))
            if len(names) != m + 1:
                viol.append(dict(key='sequence:layer-count', what='%s made %d layers' % (what, len(names)), case=case))
            if g.num_layers != len(names):
                viol.append(dict(key='sequence:layer-registry', what='%s: %d layers in the list, %d in the by-name dictionary' % (what, len(names), g.num_layers), case=case))
        else:
            for x in oracle_exc('add_layers', r, case, what):
                viol.append(dict(x, key='sequence:' + x['key']))
        surface = g.layerlist[0].name if g.layerlist else None       # the surface layer is added before any generated name
        if surface is not None:
            exp = seq_expected_layers(conv, L, m, left, R.m.uniqstring(chars), spaces, surface)
            if exp != r:
                mism.append(dict(what='add_layers(%d) %s: %s' % (m, cfg, seq_first_diff(r, exp)), model=repr(exp)[:200], impl=repr(r)[:200]))
        return viol, mism, 1, (r[0] if r[0] == 'ok' else r[1])
    if op == 'gen':
        meth = st['meth']
        kind = meth.split('_')[0]
        f = getattr(g, meth)
        L = g.layername_length if kind == 'layer' else g.colname_length
        jf = R.justfn(left)
        names, nums, nev, nexc = [], [], 0, 0
        for lo, hi in st['ranges']:
            for k in range(lo, hi + 1):
                r = call(f, k, jf, chars, spaces)
                nev += 1
                exp = seq_expected(kind, conv, L, k, left, chars, spaces)
                if r != exp and len(mism) < 3:
                    mism.append(dict(what='%s(%d) %s: %r, expected %r' % (meth, k, cfg, r, exp), model=repr(exp), impl=repr(r)))
                if r[0] == 'ok':
                    names.append(r[1]); nums.append(k)
                else:
                    nexc += 1
                    for x in oracle_exc(meth, r, case, tag + '%s(%d) %s' % (meth, k, cfg)):
                        if len(viol) < 5:
                            viol.append(dict(x, key='sequence:' + x['key']))
        bad = [(k, n) for k, n in zip(nums, names) if not isinstance(n, str) or len(n) != L]
        if bad:
            viol.append(dict(key='sequence:%s-length' % meth, what=tag + '%s(%d) %s = %r does not have length %d' % (meth, bad[0][0], cfg, bad[0][1], L), case=case))
        seen = {}
        for k, n in zip(nums, names):
            if n in seen:
                viol.append(dict(key='sequence:%s-duplicate' % meth, what=tag + '%s %s gives %r for the numbers %d and %d' % (meth, cfg, n, seen[n], k), case=case))
                break
            seen[n] = k
        if kind == 'column' and names:
            # the generated column names with generated layer names: block names of 5 characters that give back their parts
            lays = [x[1] for x in (call(g.layer_name_from_number, j, jf, chars, spaces) for j in (1, 2, 27)) if x[0] == 'ok']
            for x in oracle_blocks(g, conv, lays, names, case, tag + cfg):
                viol.append(dict(key='sequence:' + x['key'], what=x['what'], case=case))
        return viol, mism, nev, ('%d names, %d naming errors' % (len(names), nexc))
    raise RuntimeError('unknown sequence step %r' % op)


def run_sequence(R, steps):
    """all steps, in order, in this process; objects are shared between the steps that name the same 'obj'"""
    objs = {}
    out = dict(violations=[], mismatches=[], evaluations=0, outcomes=[])
    for i, st in enumerate(steps):
        case = {'fn': 'sequence', 'at': i, 'steps': steps[:i + 1]}
        v, mm, nev, outcome = seq_step(R, objs, st, case)
        out['violations'] += v
        for x in mm:
            x['case'] = case
        out['mismatches'] += mm
        out['evaluations'] += nev
        out['outcomes'].append(outcome)
    return out


def seq_isolated(fn):
    """fn() in a forked child of this process (JSON result through a pipe)"""
    import os, json
    rd, wr = os.pipe()
    pid = os.fork()
    if pid == 0:
        code = 1
        try:
            os.close(rd)
            data = json.dumps(fn()).encode()
            with os.fdopen(wr, 'wb') as f:
                f.write(data)
            code = 0
        except BaseException:
            import traceback
            traceback.print_exc()
        finally:
            os._exit(code)
    os.close(wr)
    with os.fdopen(rd, 'rb') as f:
        data = f.read()
    _, status = os.waitpid(pid, 0)
    if status != 0 or not data:
        raise RuntimeError('sequence child failed (status %d)' % status)
    return json.loads(data.decode())


def seq_server(inp, outp):
    """entry point of the fresh interpreter: nothing of the library has been called yet; one forked child per sequence"""
    import json
    R = Real()
    seqs = json.load(open(inp))
    res = [seq_isolated(lambda s=s: run_sequence(R, s)) for s in seqs]
    json.dump(res, open(outp, 'w'))


def seq_run_all(ctx, seqs):
    import json, subprocess, os
    inp, outp = ctx.tmp / 'c17_seq_in.json', ctx.tmp / 'c17_seq_out.json'
    json.dump(seqs, open(inp, 'w'))
    harness = str(core.VERIF / 'harness')
    p = subprocess.run([sys.executable, '-W', 'ignore', '-c',
                        'import sys; sys.path.insert(0, %r); import core; import props.c17 as m; m.seq_server(%r, %r)' % (harness, str(inp), str(outp))],
                       capture_output=True, text=True, timeout=3600, env=dict(os.environ, PYTOUGH_REPO=str(core.REPO)))
    if p.returncode != 0 or not outp.exists():
        raise RuntimeError('sequence server failed: ' + (p.stderr or p.stdout)[-2000:])
    out = json.load(open(outp))
    if len(out) != len(seqs):
        raise RuntimeError('sequence server returned %d results for %d sequences' % (len(out), len(seqs)))
    return out


def seq_ranges(bounds, small=None):
    if small:
        return [[1, small]]
    iv = [[1, 60]] + [[max(1, b0 - 35), b0 + 95] for b0 in bounds]
    iv.sort()
    out = []
    for lo, hi in iv:
        if out and lo <= out[-1][1] + 1:
            out[-1][1] = max(out[-1][1], hi)
        else:
            out.append([lo, hi])
    return out


def seq_make_step(R, rng, conv, left, chars, spaces, size, kinds, case_=None, obj=0):
    """one step for a configuration; size 'small' (an earlier, unrelated use) or 'big' (crosses the boundaries of the alphabet)"""
    g = R.g(conv)
    Lc, Ll = g.colname_length, g.layername_length
    eff = seq_effective(R, chars, case_)
    n = len(eff)
    letters = conv in (0, 3)
    kind = rng.choice(kinds)
    base = dict(convention=conv, left=left, chars=chars, spaces=spaces)
    ccap = (sum(n ** k for k in range(1, Lc + 1)) if spaces else n ** Lc - 1) if letters else 10 ** Lc - 1
    lcap = 99 if conv == 0 else (sum(n ** k for k in range(1, Ll + 1)) if spaces else n ** Ll - 1)
    if kind == 'rect':
        if size == 'small':
            nx, ny, nz = rng.randint(1, 5), rng.randint(1, 4), rng.randint(1, 3)
            while (nx + 1) * (ny + 1) > ccap and nx > 1:
                nx -= 1
        else:
            target = min(ccap, (n + n * n + 280) if letters and n >= 12 else 1150)      # number of nodes
            ny = max(1, int(target ** 0.5) - rng.randint(0, 4))
            nx = max(1, target // (ny + 1) - 1)
            nz = rng.randint(1, 3)
        nz = max(1, min(nz, lcap - 1))
        return dict(base, op='rect', nx=nx, ny=ny, nz=nz, atmos_type=rng.randrange(3), case=case_, block_order=rng.choice([None, None, 'layer_column', 'dmplex']))
    chars = eff          # the generators and add_layers get the alphabet as rectangular() would pass it on
    base['chars'] = chars
    if kind == 'addl':
        m = rng.randint(1, 6) if size == 'small' else min(lcap - 1, rng.choice([99, 110, 120, n + 40]))
        return dict(base, op='addl', m=max(1, m), obj=obj)
    meth = kind + '_name_from_number'
    if kind == 'layer':
        bounds = [99] if conv == 0 else sorted(set([n, n ** 2 if Ll > 1 else n, lcap] + ([n + n * n, n ** 3] if Ll > 2 else [])))
    else:
        bounds = [n + n * n, n ** 3, n + n * n + n ** 3] if letters else [10 ** Lc - 1]
    return dict(base, op='gen', meth=meth, obj=obj, ranges=seq_ranges(bounds, rng.randint(3, 40) if size == 'small' else None))


SEQ_TEMPLATES = ['nospaces-then-spaces', 'spaces-then-nospaces', 'nospaces,other-alphabet,spaces', 'spaces,other-alphabet,nospaces', 'random-order']


def seq_build(R, rng, template, conv, left, A, Bs, variant):
    gens = ['column', 'node', 'layer']
    if variant == 'generators':
        small_k, big_k = gens + ['column'], ['column', 'column', 'node', 'layer']
    elif variant == 'geometries':
        small_k, big_k = ['rect', 'rect', 'addl'], ['rect']
    else:
        small_k, big_k = gens + ['rect', 'addl'], gens + ['rect', 'addl']
    same_obj = rng.random() < 0.5            # the steps share one mulgrid object, or use different ones
    ob = lambda i: 0 if same_obj else i
    def other(i):
        B, case_ = rng.choice(Bs)
        sp = rng.random() < 0.5
        if not good_chars(seq_effective(R, B, case_), sp):
            sp = True
        return seq_make_step(R, rng, conv, left if rng.random() < 0.7 else not left, B, sp, rng.choice(['small', 'small', 'big']) if variant != 'geometries' else 'small',
                             small_k, case_, ob(i))
    if template == 'nospaces-then-spaces':
        return [seq_make_step(R, rng, conv, left, A, False, 'small', small_k, None, ob(0)), seq_make_step(R, rng, conv, left, A, True, 'big', big_k, None, ob(1))]
    if template == 'spaces-then-nospaces':
        return [seq_make_step(R, rng, conv, left, A, True, 'small', small_k, None, ob(0)), seq_make_step(R, rng, conv, left, A, False, 'big', big_k, None, ob(1))]
    if template == 'nospaces,other-alphabet,spaces':
        return [seq_make_step(R, rng, conv, left, A, False, 'small', small_k, None, ob(0)), other(1), seq_make_step(R, rng, conv, left, A, True, 'big', big_k, None, ob(2))]
    if template == 'spaces,other-alphabet,nospaces':
        return [seq_make_step(R, rng, conv, left, A, True, 'small', small_k, None, ob(0)), other(1), seq_make_step(R, rng, conv, left, A, False, 'big', big_k, None, ob(2))]
    steps = []
    for i in range(rng.randint(3, 5)):
        if rng.random() < 0.65:
            steps.append(seq_make_step(R, rng, conv, left, A, rng.random() < 0.5, rng.choice(['small', 'big']), small_k if variant != 'geometries' or i else big_k, None, ob(i)))
        else:
            steps.append(other(i))
    return steps


def facet_sequences(ctx, R, res, rng, alphas):
    f = res.facet('sequences')
    rnd = dict(alphas)['random']
    pairs = [(LOWER, [(UPPER, None), (LOWER, 'u'), ('qwertyuiop', None)]),
             (UPPER, [(LOWER, None), (UPPER, 'l'), ('AbCdEfG', None)]),
             ('qwertyuiop', [('abcd', None), ('qwertyuiop', 'u'), (LOWER, None)]),
             ('abcd', [('ab', None), ('abcd', 'u'), (UPPER, None)]),
             (rnd, [(LOWER, None), (rnd, 'l'), (rnd, 'u')])]
    seqs, meta = [], []
    ngeo = 0
    for conv in range(4):
        for left in (False, True):
            for A, Bs in pairs:
                if not good_chars(A, False):
                    continue
                for template in SEQ_TEMPLATES:
                    for variant in ('generators', 'geometries', 'mixed'):
                        if variant != 'generators':
                            # geometries cost more: in the quick tier the two plain orders for every 26-letter configuration, the rest sampled
                            core_case = len(A) == 26 and template in SEQ_TEMPLATES[:2] and variant == 'geometries' and conv in (0, 3)
                            if ctx.quick and not core_case and rng.random() > 0.12:
                                continue
                        if conv in (1, 2) and ctx.quick and variant == 'generators' and A not in (LOWER, 'abcd') :
                            continue                    # digit column names: chars only reach the layer names
                        seqs.append(seq_build(R, rng, template, conv, left, A, Bs, variant))
                        meta.append((template, variant, conv, left, A))
    out = seq_run_all(ctx, seqs)
    for steps, (template, variant, conv, left, A), o in zip(seqs, meta, out):
        f['cases'] += 1
        res.evaluations += o['evaluations']
        res.count('sequence:template=%s' % template)
        res.count('sequence:variant=%s' % variant)
        res.count('sequence:steps', len(steps))
        res.count('sequence:calls', o['evaluations'])
        for st, oc in zip(steps, o['outcomes']):
            res.count('sequence:step=%s' % st['op'])
            if oc == 'NamingConventionError':
                res.count('sequence:geometry-naming-error')
        res.distinct.add(('seq', template, variant, conv, left, A, len(steps)))
        res.violations += o['violations']
        for mm in o['mismatches']:
            f['disagreements'] += 1
            if len(res.disagreements) < 50:
                res.disagreements.append(dict(facet='sequences', case=mm['case'], model=mm['model'], impl=mm['impl'] + ' — ' + mm['what']))


ANCHORED = ['int_to_chars', 'new_dict_key', 'uniqstring', 'fix_blockname', 'unfix_blockname', 'fix_block_mapping', 'valid_blockname',
            'block_name', 'column_name', 'layer_name', 'node_col_name_from_number', 'column_name_from_number', 'node_name_from_number',
            'layer_name_from_number', 'new_node_name', 'new_column_name', 'add_layers', 'rectangular', 'setup_block_name_index',
            'block_name_list_layer_column', 'set_secondary_variables']


def measure_reach(ctx, res):
    """thorough tier: statements of the anchored functions executed by the facets (a facet cannot notice a change to a line it never runs)"""
    import ast, coverage
    src = str(core.REPO / 'mulgrids.py')
    cov = coverage.Coverage(include=[src], data_file=None)
    cov.start()
    try:
        c2 = core.Ctx(ctx.prop, 'quick', ctx.seed)
        c2.model_ok = False
        try:
            run(c2, only=['fix', 'blocks', 'dict', 'geometries'])
            R = Real()
            for conv in range(4):
                g = R.g(conv)
                for k in (0, 1, 30, 100, 1000, 20000):
                    for f in (g.column_name_from_number, g.node_name_from_number, g.layer_name_from_number, g.node_col_name_from_number):
                        call(f, k, str.rjust, LOWER, True); call(f, k, str.ljust, 'ab', False)
        finally:
            c2.cleanup()
    finally:
        cov.stop()
    an = cov.analysis2(src)
    stmts, missing = set(an[1]), set(an[3])
    tree = ast.parse(open(src).read())
    tot = hit = 0
    unexecuted = []
    for n in ast.walk(tree):
        if isinstance(n, ast.FunctionDef) and n.name in ANCHORED:
            lines = [l for l in range(n.lineno + 1, n.end_lineno + 1) if l in stmts]      # the def line itself ran at import time
            miss = [l for l in lines if l in missing]
            tot += len(lines); hit += len(lines) - len(miss)
            unexecuted += ['%s:%d' % (n.name, l) for l in miss]
    res.stats['reach:anchored-statements-executed'] = '%d/%d' % (hit, tot)
    res.stats['reach:unexecuted'] = ', '.join(unexecuted) or '-'


# ------------------------------------------------------------------ interface

def translate(ctx):
    from translate import conventions
    import importlib
    importlib.reload(conventions)
    conventions.translate(core.REPO)


def run(ctx, only=None):
    res = Result()
    res.rule = ('non-trivial = distinct cases that leave the default path: a generator sequence that crosses its capacity limit (naming error raised), '
                'a name changed by fix_blockname or unfix_blockname, a generated (layer, column) pair turned into a block name, a new_*_name search over a '
                'non-empty dictionary, an add_layers / rectangular configuration that returned names')
    R = Real()
    rng = ctx.rng('names')
    alphas = alphabets(ctx, rng)
    for label, chars in alphas:
        for spaces in (True, False):
            h = res.hyp.setdefault('GoodChars / AlphabetOK (hypothesis on the alphabet in all generator theorems)', [0, 0])
            h[1] += 1
            h[0] += 1 if good_chars(chars, spaces) else 0
    facets = [('sequences', lambda: facet_sequences(ctx, R, res, ctx.rng('sequences'), alphas)),
              ('numbers', lambda: facet_numbers(ctx, R, res, ctx.rng('numbers'), alphas)),
              ('fix', lambda: facet_fix(ctx, R, res, ctx.rng('fix'))),
              ('blocks', lambda: facet_blocks(ctx, R, res, ctx.rng('blocks'), alphas)),
              ('dict', lambda: facet_dict(ctx, R, res, ctx.rng('dict'), alphas)),
              ('geometries', lambda: facet_geometries(ctx, R, res, ctx.rng('geometries'), alphas))]
    import time
    for name, f in facets:
        if only and name not in only:
            continue
        t0 = time.time()
        f()
        res.stats['seconds:' + name] = round(time.time() - t0, 1)
    if not ctx.quick and not only:
        measure_reach(ctx, res)
    res.hyp['name is 5 characters over letters/digits/blanks (fix/unfix theorems)'] = [res.stats.get('names:structured', 0) + res.stats.get('names:random5', 0)] * 2
    res.exhaustive = False
    return res


def search(ctx, seconds, res):
    """failing-input search on the real code: the oracle is part of run(); widen the random streams with new seeds"""
    import time
    found = list(res.violations)
    t0 = time.time()
    k = 0
    while not found and time.time() - t0 < seconds:
        k += 1
        c2 = core.Ctx(ctx.prop, 'quick', ctx.seed + 1000 * k)
        c2.model_ok = False
        try:
            r = run(c2, only=['sequences', 'fix', 'blocks', 'dict', 'geometries'] if k > 1 else None)
        finally:
            c2.cleanup()
        found = r.violations
    return found


def replay(ctx, payload):
    c = payload.get('case') or {}
    fn = c.get('fn')
    if not fn:
        return False, 'replay file names what no longer checks: %s' % payload.get('broken')
    R = Real()
    jf = R.justfn(c.get('left', False))
    if fn == 'sequence':
        # the recorded steps, in order, in this (fresh) process
        o = run_sequence(R, c['steps'])
        txt = '; '.join(x['what'] for x in o['violations'][:3])
        return bool(o['violations']), txt or 'sequence of %d steps (%s): every step gave distinct, well-formed, invertible names (%s)' % (
            len(c['steps']), ', '.join('%s spaces=%s' % (st['op'], st['spaces']) for st in c['steps']), '; '.join(str(x) for x in o['outcomes']))
    if fn in ('fix', 'unfix', 'valid'):
        v = oracle_fix(R, c['name'])
        return bool(v), '; '.join(x['what'] for x in v) or 'fix/unfix of %r: idempotent, simulator form, stable cycle' % c['name']
    if fn == 'int_to_chars':
        a = call(R.m.int_to_chars, c['i'], c.get('st', ''), c.get('chars', LOWER), c.get('spaces', True), c.get('length', 0))
        txt = 'int_to_chars(%d) -> %r' % (c['i'], a)
        if 'j' in c:
            a2 = call(R.m.int_to_chars, c['j'], '', c['chars'], c['spaces'], c['length'])
            return a == a2, txt + ' ; int_to_chars(%d) -> %r' % (c['j'], a2)
        return False, txt
    if fn.endswith(':all') or fn in ('column_name_from_number', 'node_name_from_number', 'layer_name_from_number'):
        meth = fn.split(':')[0]
        g = R.g(c['convention'])
        f = getattr(g, meth)
        length = g.layername_length if meth.startswith('layer') else g.colname_length
        ks = range(c['nmax'] + 1) if 'nmax' in c else [c['num']]
        names, viol = [], []
        for k in ks:
            r = call(f, k, jf, c['chars'], c['spaces'])
            if r[0] == 'ok': names.append(r[1])
            else: viol += oracle_exc(meth, r, c, '%s(%d)' % (meth, k))
        viol += oracle_names(meth, names, length, c, meth)
        return bool(viol), '; '.join(x['what'] for x in viol[:3]) or '%s: %d names, distinct, length %d' % (meth, len(names), length)
    if fn in ('block_name:generated', 'block_name'):
        g = R.g(c['convention'])
        if 'layer' in c:
            blk = call(g.block_name, c['layer'], c['column'])
            bad = blk[0] != 'ok' or len(blk[1]) != 5 or g.column_name(blk[1]) != c['column'] or g.layer_name(blk[1]) != c['layer']
            return bad, 'block_name(%r, %r) -> %r; parts %r / %r' % (c['layer'], c['column'], blk, blk[0] == 'ok' and g.column_name(blk[1]), blk[0] == 'ok' and g.layer_name(blk[1]))
        return False, 'no concrete pair recorded'
    if fn == 'uniqstring':
        r = R.m.uniqstring(c['s'])
        return len(set(r)) != len(r) or set(r) != set(c['s']), 'uniqstring(%r) = %r' % (c['s'], r)
    if fn in ('new_dict_key', 'new_node_name', 'new_column_name'):
        d = dict((k, None) for k in c['keys'])
        if fn == 'new_dict_key':
            r = call(R.m.new_dict_key, d, c['istart'], jf, c['length'], c['chars'], c['spaces'])
            return r[0] == 'ok' and r[1][0] in d, '%s -> %r' % (fn, r)
        gg = R.m.mulgrid(convention=c['convention'], atmos_type=2)
        if fn == 'new_node_name':
            gg.node = d; f = gg.new_node_name
        else:
            gg.column = d; f = gg.new_column_name
        r = call(f, c['istart'], jf, c['chars'], c['spaces'])
        bad = bool(oracle_exc('new_name', r, c, fn)) or (r[0] == 'ok' and (r[1][0] in d or len(r[1][0]) != gg.colname_length))
        return bad, '%s -> %r' % (fn, r)
    if fn == 'add_layers':
        with contextlib.redirect_stdout(io.StringIO()):
            g = R.m.mulgrid(convention=c['convention'], atmos_type=2)
        r = call(g.add_layers, [1.0] * c['m'], 0., 'l' if c['left'] else 'r', c['chars'], c['spaces'])
        viol = oracle_exc('add_layers', r, c, 'add_layers')
        if r[0] == 'ok':
            names = [l.name for l in g.layerlist]
            viol += oracle_names('layer', names, g.layername_length, c, 'add_layers')
            if len(names) != c['m'] + 1:
                viol.append(dict(what='add_layers made %d layers for %d thicknesses' % (len(names), c['m'])))
        return bool(viol), '; '.join(x['what'] for x in viol[:3]) or 'add_layers: %r, names distinct and of the right length' % (r[0],)
    if fn in ('rectangular', 'rectangular+surface'):
        r, viol, g = run_rect(R, c)
        if fn == 'rectangular+surface' and g is not None:
            for col, k in zip(g.columnlist, c['first_layer']):
                col.surface = g.layerlist[k].top
            g.setup_block_name_index()
            viol += oracle_names('block', list(g.block_name_list), 5, c, 'block_name_list with a surface')
        return bool(viol), '; '.join(x['what'] for x in viol[:3]) or 'rectangular: %s, all name lists distinct and well-formed' % (r[0] if r[0] == 'ok' else r[1])
    return False, 'unknown case kind %r' % fn
