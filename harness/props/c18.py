"""C18 — reverse-engineering a rectangular geometry (t2grid.rectgeo) inverts grid generation.

model      lean/PyTough/Model/RectGeo.lean (rectgeo: origin block, direction tracks, spacings, block mapping,
           position matching, surface finding, snapping; over Model/FromGeo.lean and Model/Names.lean)
theorems   lean/PyTough/Props/C18.lean
tie        correspondence facet `rectgeo`: real grid.rectgeo(...) vs the compiled model on the same grid
           (layers, columns, node positions, surfaces, name list, block map), in memory and after a data-file round trip
oracle     the property itself: the reconstructed geometry has the generating spacings, position, surfaces and
           atmosphere arrangement, and fromgeo(geo1, blockmap) reproduces the original names, volumes and connections
"""
import math, os, time, contextlib, io
from fractions import Fraction as F
import core
from core import Result
from props.c04 import quiet, fr, enc_rat, enc_name, dec_name, dec_rat, close, RTOL

ID = 'C18'
MODULE = 'PyTough.Props.C18'
TARGETS = ['PyTough.Props.C18', 'drv_c18']
THEOREMS = ['Props.C18.' + t for t in [
    'surface_recovery', 'surface_recovery_above_top', 'missing_direction_spacing',
    'direction_track_sizes', 'next_block_unique', 'find_surface_on_line', 'rectangle_half_width', 'rotation_inverse',
    'rectgeo_spacings_partial', 'rectgeo_spacings_2d_partial', 'line_sizes_are_widths', 'surfaces_recovered_partial',
    'snap_keeps_surface', 'origin_recovered',
    'row_track_widths', 'rectgeo_spacings_lattice_partial', 'lattice_lines',
    'lattice_topmost_block', 'rectgeo_spacings_lattice', 'rectgeo_spacings_lattice_2d', 'column_surface_on_row_partial']]
LEVEL_TEXT = ('Partial proof: Lean theorems about the executable model of rectgeo for the three core steps (the surface formula inverts '
              'block_centre/block_volume for a surface inside a layer and above the top layer; the spacing of a single-block direction is '
              'volume / product of the doubled distances; following a direction along a line of blocks visits exactly that line with a unique '
              'candidate at each step and returns twice the own distances, which for rectangular columns are the spacings), no sorry. '
              'row_track_widths: on a row of a grid described structurally (distinct blocks, the connections joining consecutive ones, no other '
              'connection of that direction except to boundary blocks) the walk returns the row and the widths, for any connection-set order. '
              'rectgeo_spacings_lattice_partial: on a full rectangular lattice of blocks (any atmosphere arrangement / boundary blocks) block_spacings '
              'returns the three width lists; assumed: which top-layer block is topmost. '
              'lattice_lines: every row and column of such a lattice satisfies the line hypothesis of the walk theorems. '
              'lattice_topmost_block: when the admissible blocks are exactly the box and centre elevations decrease with the layer index, the '
              'nanargmax block is a top-layer block; rectgeo_spacings_lattice / rectgeo_spacings_lattice_2d: hence block_spacings returns the '
              'three width lists of a 3-D lattice, and of a 2-D one (single block along direction 1 or 2, missing width from the origin volume), '
              'with no hypothesis on walks, connection order or the topmost block. '
              'column_surface_on_row_partial: for a column given structurally as a vertical row of any height (flat or stepped surfaces) whose top '
              'block carries fromgeo\'s centre and volume, find_surface returns the generating surface; assumed: the block-map lookup of the bottom block. '
              'NOT proved: that fromgeo of a rectangular geometry is such a lattice (so nothing is yet stated directly about rectgeo(fromgeo G)), '
              'stepped surfaces in the lattice description, the block map; the composition '
              '(rectgeo inverts fromgeo, block map reproduces names/volumes/connections) and general rotation angles are NOT proved: they are '
              'covered by the correspondence run (real rectgeo vs compiled model, exact regeneration check inside the model for axis-aligned grids) '
              'and the direct oracle.')
LEVEL_NOTE = ('Trusted: Lean kernel (+propext, Classical.choice, Quot.sound); the hand model (tied by the correspondence); IEEE rounding, asin/cos/sin '
              'of the rotation angle and the data-file precision are outside the model (tolerances 1e-9 in memory, field precision after a file round trip).')
TECHNIQUE = 'Lean 4 proof over an executable rational model of rectgeo + differential correspondence with the real code + direct oracle'
ASSUMPTIONS = [
    'exact arithmetic; the norm of the orientation vector is exact for axis-aligned grids and a 1e-30 rational approximation otherwise',
    'the iteration order of a block\'s connection_name set is immaterial (proved for lines of blocks: unique candidate)',
    'some column has a complete block in the top layer (otherwise the top layer thickness is not observable from the grid at all)',
    'the caller passes the atmosphere type of the original geometry to rectgeo and the permeability angle follows the rotation (as in the pinned test)',
]
TRUSTED_EXTRA = ['Model/RectGeo.lean as a model of rectgeo: diffed against the real code on every run (facet rectgeo)',
                 'Model/Names.lean (C17) for the names rectangular() generates']
FIXED_CORPUS = [
    # the single-x-block case that used to give a nan geometry (fixed in /repo 4e3a5be); must stay caught if reverted
    {'gen': 'rect18', 'dx': [1.0], 'dy': [3.0, 4.0], 'dz': [1.0, 2.0], 'origin': [0.0, 0.0, 0.0], 'conv': 0, 'atm': 2, 'atmvol': 1e25,
     'surf': None, 'angle': 0, 'shift': None, 'conv1': 0, 'justify': 'r', 'snap': 0.1, 'file': False},
    {'gen': 'rect18', 'dx': [2.0], 'dy': [2.0, 4.0, 6.0], 'dz': [2.0, 2.0, 4.0], 'origin': [10.0, -4.0, 6.0], 'conv': 2, 'atm': 1, 'atmvol': 1e25,
     'surf': [['in', 1, 2], None, ['in', 2, 4]], 'angle': 30, 'shift': None, 'conv1': 1, 'justify': 'r', 'snap': 0.1, 'file': False},
    {'gen': 'rect18', 'dx': [2.0, 4.0], 'dy': [6.0], 'dz': [2.0, 2.0], 'origin': [0.0, 0.0, 0.0], 'conv': 0, 'atm': 0, 'atmvol': 0.0,
     'surf': None, 'angle': 0, 'shift': None, 'conv1': 3, 'justify': 'l', 'snap': 0.1, 'file': True},
    # 2-D grid, no atmosphere, origin column reduced to the bottom layer: the origin block has no vertical connection
    {'gen': 'rect18', 'dx': [2.0, 3.0], 'dy': [10.0], 'dz': [2.0, 1.0], 'origin': [0.0, 0.0, 0.0], 'conv': 0, 'atm': 2, 'atmvol': 1e25,
     'surf': [['in', 1, 0], None], 'angle': 0, 'shift': None, 'conv1': 0, 'justify': 'r', 'snap': 0.1, 'file': False},
    {'gen': 'rect18', 'dx': [1.5], 'dy': [1.0, 15.25, 1.5], 'dz': [4.75, 4.75, 2.0, 1.0], 'origin': [-45.5, -43.5, 64.0], 'conv': 2, 'atm': 2,
     'atmvol': 1e30, 'surf': [['in', 3, 0], None, ['in', 1, 2]], 'angle': 0, 'shift': None, 'conv1': 0, 'justify': 'r', 'snap': 0.1, 'file': False},
]


def translate(ctx):
    # Model/Names.lean (C17) reads the naming-convention tables regenerated from the current /repo tree
    from translate import conventions
    import importlib
    importlib.reload(conventions)
    conventions.translate(core.REPO)


# ------------------------------------------------------------------ generators

def gen_case(rng, big=False, file=False):
    hi = 12 if big else 5
    nx, ny = rng.randint(1, hi), rng.randint(1, hi)
    if nx == 1 and ny == 1:
        (nx, ny) = rng.choice([(1, 2), (2, 1), (3, 1), (1, 4)])
    nz = rng.randint(2, 14 if big else 6)
    if file:
        nz = min(nz, 4)
        sp = lambda: float(rng.choice([2, 2, 4, 6, 8, 10, 20]))
        origin = [float(rng.randint(-50, 50)), float(rng.randint(-50, 50)), float(rng.randint(-20, 20))]
        angle = rng.choice([0, 0, 0, 0, 90, 30])
        shift = None
    else:
        sp = lambda: rng.choice([0.5, 1.0, 1.0, 1.5, 2.0, 3.0, 4.75, 10.0, rng.randint(2, 64) / 4.0])
        origin = rng.choice([[0.0, 0.0, 0.0], [rng.randint(-400, 400) / 4.0, rng.randint(-400, 400) / 4.0, rng.randint(-400, 400) / 4.0]])
        angle = rng.choice([0, 0, 0, 90, 180, 270, 10, 33.3, 45, -30, 200])
        shift = rng.choice([None, None, [rng.randint(-4096, 4096) / 4.0, rng.randint(-4096, 4096) / 4.0, rng.randint(-400, 400) / 4.0]])
    dz = [sp() for _ in range(nz)]
    mode = rng.choice(['flat', 'flat', 'stepped', 'sloping', 'random'])
    surf = None
    if mode != 'flat':
        surf = []
        for j in range(ny):
            for i in range(nx):
                if mode == 'stepped':
                    k = 1 + ((i + j) // 2) % (nz - 1)
                    surf.append(['in', k, 4])
                elif mode == 'sloping':
                    t = (i + 2 * j) % (4 * (nz - 1))
                    surf.append(['in', 1 + t // 4, 1 + t % 4])
                else:
                    r = rng.random()
                    if r < 0.2: surf.append(None)
                    elif r < 0.35: surf.append(['above', 0, rng.choice([1, 2, 4, 10])])
                    else: surf.append(['in', rng.randint(1, nz - 1), rng.choice([0, 1, 2, 3, 4, 4])])
        # the thickness of the top layer is only observable if some column has a complete top block
        if not any(sp_ is None or sp_[0] == 'above' or (sp_[1] == 1 and sp_[2] == 4) for sp_ in surf):
            surf[rng.randrange(len(surf))] = None
    atm = rng.randint(0, 2)
    # convention 1 has 2-digit column/node names: at most 99 nodes
    convs = [0, 1, 2, 3] if (nx + 1) * (ny + 1) <= 99 else [0, 2, 3]
    return {
        'gen': 'rect18', 'dx': [sp() for _ in range(nx)], 'dy': [sp() for _ in range(ny)], 'dz': dz, 'origin': origin,
        'conv': rng.choice(convs), 'atm': atm, 'atmvol': rng.choice([1e25, 1e25, 0.0, 1e30]),
        'surf': surf, 'angle': angle, 'shift': shift,
        'conv1': rng.choice(convs), 'justify': rng.choice(['r', 'r', 'l']), 'snap': rng.choice([0.1, 0.1, 1e-3]) if not file else 0.1,
        'file': file,
        'remove_inactive': False, 'boundary': None,
    }


def gen_boundary(rng):
    """inactive boundary blocks and remove_inactive=True:
       atm-demoted : the atmosphere blocks (type 0/1, zero or huge volume) are moved to the end of the block list (TOUGH2's place for
                     inactive elements); remove_inactive True or False
       top-zero / top-huge : the top blocks of some columns of a grid without atmosphere are turned into boundary blocks in place
       top-marker  : they keep their volumes but are moved to the end behind a zero-volume marker element; remove_inactive=True"""
    rec = gen_case(rng)
    mode = rng.choice(['atm-demoted', 'atm-demoted', 'top-zero', 'top-huge', 'top-marker', 'top-marker'])
    if mode == 'atm-demoted':
        rec['atm'] = rng.choice([0, 1])
        rec['atmvol'] = rng.choice([0.0, 1e30, 1e25])
        rec['remove_inactive'] = rng.random() < 0.7
        rec['boundary'] = {'mode': mode}
    else:
        rec['atm'] = 2
        ncol = len(rec['dx']) * len(rec['dy'])
        rec['remove_inactive'] = (mode == 'top-marker') or rng.random() < 0.3
        rec['boundary'] = {'mode': mode, 'cols': sorted(rng.sample(range(ncol), rng.randint(1, ncol)))}
        # a zero-volume element in the middle of the block list together with remove_inactive=True declares every later
        # block inactive (TOUGH2's convention): a misuse of the flag, outside the property -- correspondence only
        rec['oracle'] = not (mode == 'top-zero' and rec['remove_inactive'])
    return rec


def top_layer_index(geo, col):
    for i, lay in enumerate(geo.layerlist[1:], 1):
        if lay.bottom < col.surface:
            return i
    return None


def apply_boundary(rec, geo, grid):
    """modifies the real grid as the recipe says; returns (expected surface per column, names of the boundary blocks)"""
    import t2grids
    b = rec.get('boundary')
    exp = [float(c.surface) for c in geo.columnlist]
    if not b:
        return exp, set()
    if b['mode'] == 'atm-demoted':
        names = [blk.name for blk in grid.atmosphere_blocks]
        grid.demote_block(names)
        return exp, set(names)
    nlay = len(geo.layerlist) - 1
    # a witness column keeps a complete block in the top layer, so that its thickness stays observable
    witness = [i for i, c in enumerate(geo.columnlist) if c.surface >= geo.layerlist[1].top]
    chosen = []
    for i in b['cols']:
        col = geo.columnlist[i]
        k = top_layer_index(geo, col)
        if k is None or k >= nlay:          # the bottom layer stays
            continue
        if b['mode'] != 'top-marker' and i in witness and all(w == i or w in chosen for w in witness):
            continue
        chosen.append(i)
    names = []
    for i in chosen:
        col = geo.columnlist[i]
        k = top_layer_index(geo, col)
        name = geo.block_name(geo.layerlist[k].name, col.name)
        names.append(name)
        exp[i] = float(geo.layerlist[k].bottom)
    if b['mode'] == 'top-zero':
        for n in names: grid.block[n].volume = 0.0
    elif b['mode'] == 'top-huge':
        for n in names: grid.block[n].volume = 1.e30
    elif names:
        grid.add_block(t2grids.t2block('zzz99', 0.0, grid.rocktypelist[0]))
        grid.demote_block(names)
    return exp, set(names) | ({'zzz99'} if b['mode'] == 'top-marker' and names else set())


def surface_value(geo, spec):
    kind, k, q = spec
    lays = geo.layerlist
    if kind == 'above':
        return lays[0].bottom + q / 4.0
    lay = lays[max(1, min(k, len(lays) - 2))]       # never the bottom layer: it stays complete
    if q == 4: return lay.top
    if q == 0: return lay.bottom                     # = top of the layer below (a column may keep only the bottom layer)
    return lay.bottom + (q / 4.0) * (lay.top - lay.bottom)


def build(rec):
    """recipe -> (geo0, grid) built with the real code"""
    import mulgrids, t2grids, numpy as np
    with quiet():
        geo = mulgrids.mulgrid().rectangular(rec['dx'], rec['dy'], rec['dz'], convention=rec['conv'], atmos_type=rec['atm'],
                                             origin=list(rec['origin']))
        geo.atmosphere_volume = rec['atmvol']
        if rec['surf'] is not None:
            for col, spec in zip(geo.columnlist, rec['surf']):
                if spec is not None:
                    col.surface = surface_value(geo, spec)
            for col in geo.columnlist:
                geo.set_column_num_layers(col)
            geo.setup_block_name_index()
            geo.setup_block_connection_name_index()
        if rec['angle']:
            geo.rotate(rec['angle'], np.zeros(2))
            geo.permeability_angle = -float(rec['angle'])
        if rec['shift'] is not None:
            geo.translate(np.array(rec['shift']))
        grid = t2grids.t2grid().fromgeo(geo)
        rec['_expected'] = apply_boundary(rec, geo, grid)
    return geo, grid


def file_roundtrip(ctx, grid, tag):
    import t2data
    path = str(ctx.tmp / ('c18_%s.dat' % tag))
    with quiet():
        dat = t2data.t2data()
        dat.grid = grid
        dat.write(path)
        dat2 = t2data.t2data(path)
    os.remove(path)
    return dat2.grid


def run_rectgeo(grid, rec):
    try:
        with quiet():
            geo1, bm = grid.rectgeo(atmos_volume=1.e25, convention=rec['conv1'], atmos_type=rec['atm'], justify=rec['justify'],
                                    layer_snap=rec['snap'], remove_inactive=bool(rec.get('remove_inactive')))
        return ('ok', geo1, bm)
    except Exception as e:
        return ('exc', type(e).__name__)


# ------------------------------------------------------------------ the oracle

def grid_summary(grid):
    B = dict((b.name, b) for b in grid.blocklist)
    K = {}
    for c in grid.connectionlist:
        K[(c.block[0].name, c.block[1].name)] = (int(c.direction), float(c.distance[0]), float(c.distance[1]), float(c.area), float(c.dircos))
    return B, K


def oracle(rec, geo0, grid, res_real, rtol, atol_pos, label=''):
    out = []

    def bad(key, what):
        out.append(dict(key=key, what=label + what, case=dict((k, v) for k, v in rec.items() if not k.startswith('_'))))
        return out
    if res_real[0] == 'exc':
        return bad('rectgeo-raises:' + res_real[1], 'rectgeo raises %s on a grid generated from a rectangular geometry' % res_real[1])
    geo1, bm = res_real[1], res_real[2]
    import t2grids
    # --- spacings in the three directions
    nx, ny, nz = len(rec['dx']), len(rec['dy']), len(rec['dz'])
    if geo1.num_columns != nx * ny or geo1.num_layers != nz + 1:
        return bad('block-counts', 'reconstructed geometry has %d columns and %d layers, generated from %dx%d columns and %d layers'
                   % (geo1.num_columns, geo1.num_layers - 1, nx, ny, nz))
    for l1, t in zip(geo1.layerlist[1:], rec['dz']):
        if not close(l1.top - l1.bottom, t, rtol, atol_pos):
            return bad('z-spacing', 'layer %r thickness %r, generated with %r' % (l1.name, l1.top - l1.bottom, t))
    for j in range(ny):
        for i in range(nx):
            col = geo1.columnlist[j * nx + i]
            p = [n.pos for n in col.node]
            sides = [math.hypot(*(p[(k + 1) % 4] - p[k])) for k in range(4)]
            # node order of rectangular(): (j,i) (j+1,i) (j+1,i+1) (j,i+1) -> sides dy, dx, dy, dx
            if not (close(sides[0], rec['dy'][j], rtol, atol_pos) and close(sides[1], rec['dx'][i], rtol, atol_pos)
                    and close(sides[2], rec['dy'][j], rtol, atol_pos) and close(sides[3], rec['dx'][i], rtol, atol_pos)):
                return bad('xy-spacing', 'column %d,%d of the reconstruction has sides %r, generated with dx=%r dy=%r'
                           % (i, j, sides, rec['dx'][i], rec['dy'][j]))
    # --- position and orientation: node positions and layer elevations coincide (same construction order)
    for n1, n0 in zip(geo1.nodelist, geo0.nodelist):
        if any(math.isnan(v) for v in n1.pos) or not (abs(n1.pos[0] - n0.pos[0]) <= atol_pos and abs(n1.pos[1] - n0.pos[1]) <= atol_pos):
            return bad('position', 'node %r of the reconstruction at %r, original at %r' % (n1.name, list(map(float, n1.pos)), list(map(float, n0.pos))))
    for l1, l0 in zip(geo1.layerlist, geo0.layerlist):
        if not (abs(l1.bottom - l0.bottom) <= atol_pos and abs(l1.top - l0.top) <= atol_pos):
            return bad('elevation', 'layer %r of the reconstruction spans (%r, %r), original (%r, %r)' % (l1.name, l1.bottom, l1.top, l0.bottom, l0.top))
    # --- surfaces
    exp_surf, boundary = rec.get('_expected') or ([float(c.surface) for c in geo0.columnlist], set())
    for c1, s0 in zip(geo1.columnlist, exp_surf):
        if not abs(c1.surface - s0) <= atol_pos:
            return bad('surface', 'column %r surface %r, expected %r' % (c1.name, float(c1.surface), s0))
    # --- atmosphere arrangement
    if geo1.atmosphere_type != geo0.atmosphere_type:
        return bad('atmosphere', 'atmosphere type %r, original %r' % (geo1.atmosphere_type, geo0.atmosphere_type))
    # --- the block map regenerates the grid
    try:
        with quiet():
            grid1 = t2grids.t2grid().fromgeo(geo1, bm)
    except Exception as e:
        return bad('regenerate-raises:' + type(e).__name__, 'fromgeo(reconstruction, blockmap) raises %s' % type(e).__name__)
    B0, K0 = grid_summary(grid)
    B1, K1 = grid_summary(grid1)
    if rec.get('boundary') and rec['boundary']['mode'] != 'atm-demoted':
        # blocks turned into boundary blocks of a grid without atmosphere are not part of the reconstruction:
        # compare the active part (blocks, and connections between two active blocks)
        B0 = dict((n, b) for n, b in B0.items() if n not in boundary)
        K0 = dict((k, v) for k, v in K0.items() if k[0] not in boundary and k[1] not in boundary)
    if set(B0) != set(B1):
        d = sorted(set(B0) ^ set(B1))
        return bad('regenerated-names', 'regenerated grid block names differ from the original: %r' % d[:6])
    for n, b in B0.items():
        if 0. < b.volume < 1.e25 and not close(B1[n].volume, b.volume, rtol):
            return bad('regenerated-volume', 'regenerated volume of %r is %r, original %r' % (n, float(B1[n].volume), float(b.volume)))
    if len(K0) != len(K1):
        return bad('regenerated-connections', 'regenerated grid has %d connections, original %d' % (len(K1), len(K0)))
    for (a, b), (d, d0, d1, ar, dc) in K0.items():
        if (a, b) in K1:
            e, e0, e1, er, ec = K1[(a, b)]
        elif (b, a) in K1:
            e, e1, e0, er, ec = K1[(b, a)]
            ec = -ec
        else:
            return bad('regenerated-connections', 'connection %r of the original grid is missing from the regenerated grid' % ((a, b),))
        atm_con = not (0. < B0[b].volume < 1.e25) or not (0. < B0[a].volume < 1.e25)
        if e != d or not close(e0, d0, rtol, atol_pos) or (not atm_con and not close(e1, d1, rtol, atol_pos)) or not close(er, ar, rtol, atol_pos) \
                or not close(ec, dc, rtol, max(1e-12, rtol)):
            return bad('regenerated-connection-data', 'connection %r regenerated as %r, original %r' % ((a, b), (e, e0, e1, er, ec), (d, d0, d1, ar, dc)))
    return out


# ------------------------------------------------------------------ the model

def encode(grid, rec):
    t = ['rectgeo', enc_rat(1.e25), str(rec['conv1']), str(rec['atm']), '1' if rec['justify'] == 'l' else '0',
         enc_name('abcdefghijklmnopqrstuvwxyz'), '1', '0', enc_rat(rec['snap']), '1' if rec.get('remove_inactive') else '0', '-']
    t.append(str(len(grid.blocklist)))
    for b in grid.blocklist:
        t += [enc_name(b.name), enc_rat(b.volume)]
        if b.centre is None: t.append('-')
        else: t += [enc_rat(v) for v in b.centre]
    t.append(str(len(grid.connectionlist)))
    for c in grid.connectionlist:
        t += [enc_name(c.block[0].name), enc_name(c.block[1].name), str(int(c.direction)), enc_rat(c.distance[0]), enc_rat(c.distance[1])]
    return ' '.join(t)


class Reply:
    pass


def decode(line):
    w = line.split()
    r = Reply()
    r.exc = None
    if w[0] == 'exc':
        r.exc = w[1]
        return r
    if w[0] != 'ok':
        raise RuntimeError('driver reply: ' + line[:200])
    p = [1]

    def tok():
        p[0] += 1
        return w[p[0] - 1]

    def rats():
        n = int(tok())
        return [dec_rat(tok()) for _ in range(n)]
    assert tok() == 'O'
    r.origin = dec_name(tok())
    assert tok() == 'S'
    r.spacings = [rats(), rats(), rats()]
    assert tok() == 'R'
    r.exact = tok() == '1'
    r.cs = (dec_rat(tok()), dec_rat(tok()))
    assert tok() == 'L'
    r.layers = [(dec_name(tok()), dec_rat(tok()), dec_rat(tok()), dec_rat(tok())) for _ in range(int(tok()))]
    assert tok() == 'C'
    r.columns = []
    for _ in range(int(tok())):
        name = dec_name(tok())
        cx, cy, s, a = (dec_rat(tok()) for _ in range(4))
        k = int(tok())
        nodes = [(dec_rat(tok()), dec_rat(tok())) for _ in range(k)]
        r.columns.append((name, cx, cy, s, a, nodes))
    assert tok() == 'N'
    r.names = [dec_name(tok()) for _ in range(int(tok()))]
    assert tok() == 'M'
    r.map = dict((dec_name(tok()), dec_name(tok())) for _ in range(int(tok())))
    assert tok() == 'F'
    r.regen = tok()
    assert tok() == 'H'
    r.lines = tok()
    return r


def compare(rec, res_real, rep, tol_abs):
    """model vs real rectgeo: first difference or None"""
    if res_real[0] == 'exc' or rep.exc is not None:
        a = res_real[1] if res_real[0] == 'exc' else 'ok'
        b = rep.exc or 'ok'
        return None if a == b else 'outcome: model %s real %s' % (b, a)
    geo1, bm = res_real[1], res_real[2]
    if [l.name for l in geo1.layerlist] != [l[0] for l in rep.layers]:
        return 'layer names: model %r real %r' % ([l[0] for l in rep.layers], [l.name for l in geo1.layerlist])
    for l, (n, b, c, t) in zip(geo1.layerlist, rep.layers):
        if not (close(l.bottom, b, RTOL, tol_abs) and close(l.centre, c, RTOL, tol_abs) and close(l.top, t, RTOL, tol_abs)):
            return 'layer %r: model %r real %r' % (n, (float(b), float(c), float(t)), (l.bottom, l.centre, l.top))
    if [c.name for c in geo1.columnlist] != [c[0] for c in rep.columns]:
        return 'column names: model %r real %r' % ([c[0] for c in rep.columns][:6], [c.name for c in geo1.columnlist][:6])
    for c, (n, cx, cy, s, a, nodes) in zip(geo1.columnlist, rep.columns):
        if not (close(c.centre[0], cx, RTOL, tol_abs) and close(c.centre[1], cy, RTOL, tol_abs)):
            return 'column %r centre: model %r real %r' % (n, (float(cx), float(cy)), list(map(float, c.centre)))
        if not close(c.surface, s, RTOL, tol_abs):
            return 'column %r surface: model %r real %r' % (n, float(s), float(c.surface))
        if not close(c.area, a, RTOL):
            return 'column %r area: model %r real %r' % (n, float(a), float(c.area))
        if len(nodes) != len(c.node) or not all(close(nd.pos[0], x, RTOL, tol_abs) and close(nd.pos[1], y, RTOL, tol_abs) for nd, (x, y) in zip(c.node, nodes)):
            return 'column %r nodes: model %r real %r' % (n, [(float(x), float(y)) for x, y in nodes], [list(map(float, nd.pos)) for nd in c.node])
    if list(geo1.block_name_list) != rep.names:
        return 'block_name_list: model %r real %r' % (rep.names[:8], list(geo1.block_name_list)[:8])
    if dict(bm) != rep.map:
        d = [k for k in set(bm) | set(rep.map) if bm.get(k) != rep.map.get(k)]
        return 'block map differs at %r: model %r real %r' % (d[:4], [rep.map.get(k) for k in d[:4]], [bm.get(k) for k in d[:4]])
    a = math.radians(geo1.permeability_angle)
    if not (close(math.cos(a), rep.cs[0], RTOL, 1e-9) and close(math.sin(a), rep.cs[1], RTOL, 1e-9)):
        return 'permeability angle: model (cos, sin) = %r real %r' % ((float(rep.cs[0]), float(rep.cs[1])), (math.cos(a), math.sin(a)))
    return None


# ------------------------------------------------------------------ run

EVIDENCE_EXTRA = {}


def anchored_functions():
    import t2grids, mulgrids, geometry
    G, M = t2grids.t2grid, mulgrids.mulgrid
    return [G.rectgeo, M.rectangular, M.add_layers, M.rotate, M.translate, M.snap_columns_to_layers, M.set_column_num_layers,
            M.identify_layer_tops, M.set_default_surface, geometry.vector_heading]


def describe(rec):
    return 'rect %dx%dx%d conv %d->%d atm %d atmvol %g angle %s surf %s snap %g%s%s%s' % (
        len(rec['dx']), len(rec['dy']), len(rec['dz']), rec['conv'], rec['conv1'], rec['atm'], rec['atmvol'], rec['angle'],
        'flat' if rec['surf'] is None else 'varied', rec['snap'], ' +file' if rec['file'] else '',
        ' boundary:%s' % rec['boundary']['mode'] if rec.get('boundary') else '', ' remove_inactive' if rec.get('remove_inactive') else '')


def scale_of(geo0):
    m = 1.0
    for n in geo0.nodelist:
        m = max(m, abs(float(n.pos[0])), abs(float(n.pos[1])))
    for l in geo0.layerlist:
        m = max(m, abs(float(l.bottom)))
    return m


def file_tolerance(rec, scale0):
    """position tolerance after a data-file round trip: block centres are written '10.3e' (4 significant digits, relative 5e-4),
    volumes and distances '10.4e'.  Exactly representable (unrotated, small-integer) grids come back exactly; for a rotated grid the
    orientation is found from two rounded centres a distance L apart, so a rounding eps moves a node by up to eps * (1 + 2 * extent / L)."""
    eps = 5e-4 * scale0
    if not rec['angle'] or rec['angle'] % 90 == 0:
        return 2 * eps
    lever = sum(rec['dx']) - 0.5 * (rec['dx'][0] + rec['dx'][-1]) if len(rec['dx']) > 1 else sum(rec['dy']) - 0.5 * (rec['dy'][0] + rec['dy'][-1])
    extent = math.hypot(sum(rec['dx']), sum(rec['dy']))
    return 2 * eps * (1 + 2 * extent / max(lever, 1e-9))


def gen_cases(ctx, rng, scale=1.0):
    cases = [dict(c) for c in FIXED_CORPUS]
    n_mem = int(ctx.n(200, 3000) * scale)
    n_file = int(ctx.n(50, 600) * scale)
    for i in range(n_mem):
        cases.append(gen_case(rng, big=(i % 30 == 7)))
    for i in range(n_file):
        cases.append(gen_case(rng, file=True))
    for i in range(int(ctx.n(80, 1000) * scale)):
        cases.append(gen_boundary(rng))
    return cases


def run(ctx, scale=1.0, oracle_only=False):
    res = Result()
    res.rule = ('cases = grids generated by the real fromgeo from rectangular geometries (1..12 x 1..12 x 2..14, dyadic spacings, any origin, '
                'rotation {0,90,180,270,10,30,33.3,45,200}, translation, atmosphere 0/1/2 with huge or zero atmosphere volume, flat/stepped/sloping/'
                'random surfaces leaving the bottom layer complete, 4x4 conventions, layer_snap 0.1/1e-3), in memory and after a data-file round trip; '
                'non-trivial = distinct request lines with a non-flat surface, a rotation, a single-block direction or a file round trip')
    rng = ctx.rng('rectgeo')
    cases = gen_cases(ctx, rng, scale)
    facet = res.facet('rectgeo')
    items, lines = [], []
    for idx, rec in enumerate(cases):
        geo0, grid = build(rec)
        scale0 = scale_of(geo0)
        variants = [('mem', grid, RTOL, 1e-9 * scale0)]
        if rec['file']:
            g2 = file_roundtrip(ctx, grid, '%d' % idx)
            variants.append(('file', g2, 2e-4, file_tolerance(rec, scale0)))
        for tag, g, rtol, atol in variants:
            real = run_rectgeo(g, rec)
            res.evaluations += 1
            res.count('variant:' + tag)
            res.count('atm:%d' % rec['atm'])
            res.count('atmvol:%g' % rec['atmvol'])
            res.count('conv:%d->%d' % (rec['conv'], rec['conv1']))
            res.count('rotation:%s' % rec['angle'])
            res.count('surface:' + ('flat' if rec['surf'] is None else 'varied'))
            res.count('single-block-direction:' + ('x' if len(rec['dx']) == 1 else 'y' if len(rec['dy']) == 1 else 'none'))
            res.count('outcome:' + (real[0] if real[0] == 'ok' else real[1]))
            res.count('boundary:' + (rec['boundary']['mode'] if rec.get('boundary') else 'none') + ('/remove_inactive' if rec.get('remove_inactive') else ''))
            res.count('blocks', len(g.blocklist))
            if rec.get('oracle', True):
                res.violations += oracle(rec, geo0, g, real, rtol, atol, label='' if tag == 'mem' else 'after a data-file round trip: ')
            else:
                res.count('oracle skipped (misuse of remove_inactive)')
            if not oracle_only and ctx.model_ok:
                lines.append(encode(g, rec))
                items.append((rec, tag, real, atol))
    if not oracle_only and ctx.model_ok:
        replies = core.run_driver('drv_c18', lines)
        for (rec, tag, real, atol), line, rep in zip(items, lines, replies):
            facet['cases'] += 1
            r = decode(rep)
            d = compare(rec, real, r, atol)
            if d:
                facet['disagreements'] += 1
                res.disagreements.append(dict(facet='rectgeo', case=dict(((k, v) for k, v in rec.items() if not k.startswith('_')), variant=tag), model=d[:300], impl='(see model field: first difference)'))
            if r.exc is None:
                res.count('model-rotation:' + ('exact' if r.exact else 'approximated norm'))
                for k, bit in enumerate(r.lines):
                    h = res.hyp.setdefault('isLine (unique candidate at every step) on the direction-%d spacing track' % (k + 1), [0, 0])
                    h[0] += 1 if bit == '1' else 0
                    h[1] += 1
                if tag == 'mem' and not rec['angle'] and not rec.get('boundary'):
                    # conclusions of the composition theorems, checked exactly on the model for unrotated grids
                    h = res.hyp.setdefault('model: spacings returned = generating spacings, exactly (unrotated in-memory cases)', [0, 0])
                    h[0] += 1 if r.spacings == [[F(x) for x in rec['dx']], [F(x) for x in rec['dy']], [F(x) for x in rec['dz']]] else 0
                    h[1] += 1
                    h = res.hyp.setdefault('model: surfaces returned = generating surfaces, exactly (unrotated in-memory cases)', [0, 0])
                    exp_surf = (rec.get('_expected') or ([], set()))[0]
                    h[0] += 1 if [c[3] for c in r.columns] == [F(x) for x in exp_surf] else 0
                    h[1] += 1
                if True:
                    h = res.hyp.setdefault('model: fromgeo(rectgeo(T), blockmap) regenerates T (names, volumes, connections; in-memory cases, 1e-9)', [0, 0])
                    if tag == 'mem' and not rec.get('boundary'):      # (boundary variants reorder or drop blocks)
                        h[0] += 1 if r.regen == '11111' else 0
                        res.count('model-regeneration:' + r.regen)
                        h[1] += 1
            if rec['surf'] is not None or rec['angle'] or len(rec['dx']) == 1 or len(rec['dy']) == 1 or tag == 'file':
                res.distinct.add(hash(line))
            if facet['cases'] % 17 == 1:
                res.sample({'case': describe(rec), 'variant': tag, 'real': real[0] if real[0] == 'ok' else real[1], 'agree': not d})
    else:
        for rec in cases[:6]:
            res.sample({'case': describe(rec)})
    if not ctx.quick and not oracle_only:
        from props.c04 import measure_reach
        sub = cases[:200]

        def thunk():
            for rec in sub:
                geo0, grid = build(rec)
                run_rectgeo(grid, rec)
        EVIDENCE_EXTRA['measured_reach'] = measure_reach(thunk, anchored_functions())
    return res


def search(ctx, seconds, res):
    found = list(res.violations)
    t0 = time.time()
    k = 0
    while not found and time.time() - t0 < seconds:
        k += 1
        c2 = core.Ctx(ctx.prop, ctx.tier, ctx.seed + 1000 * k)
        try:
            r = run(c2, scale=0.5, oracle_only=True)
        finally:
            c2.cleanup()
        found = r.violations
    return found


def replay(ctx, payload):
    rec = payload.get('case')
    if not isinstance(rec, dict) or rec.get('gen') != 'rect18':
        return False, 'replay file names what no longer checks: %s' % payload.get('broken')
    rec = dict(rec)
    rec.pop('variant', None)
    geo0, grid = build(rec)
    s = scale_of(geo0)
    v = oracle(rec, geo0, grid, run_rectgeo(grid, rec), RTOL, 1e-9 * s)
    if not v and rec['file']:
        g2 = file_roundtrip(ctx, grid, 'replay')
        v = oracle(rec, geo0, g2, run_rectgeo(g2, rec), 2e-4, file_tolerance(rec, s), label='after a data-file round trip: ')
    return bool(v), describe(rec) + ' -> ' + (v[0]['what'] if v else 'property holds')
