"""Theorem list of Props/C01.lean (kept in sync by hand; every name is audited with #print axioms)."""
THEOREMS = ['Props.C01.' + t for t in [
    'record_roundtrip', 'value_line_roundtrip', 'all_records_wf',
    'chunked_roundtrip', 'chunked_roundtrip_nonNone', 'chunked_roundtrip_take', 'all_chunk_records',
    'untilBlank_roundtrip', 'untilKeyword_roundtrip', 'param_default_incons_roundtrip', 'section_roundtrip_PARAM', 'block_name_cycle',
    'section_roundtrip_ROCKS', 'seven_parameters_kept', 'section_roundtrip_RPCAP', 'section_roundtrip_dict',
    'section_roundtrip_TIMES', 'section_roundtrip_ELEME', 'section_roundtrip_CONNE', 'section_roundtrip_GENER', 'section_roundtrip_INCON',
    'section_roundtrip_FOFT_GOFT', 'section_roundtrip_COFT', 'section_roundtrip_INDOM', 'options_roundtrip',
    'section_roundtrip_MOMOP', 'section_roundtrip_SELEC', 'section_roundtrip_DIFFU', 'section_roundtrip_SHORT', 'section_roundtrip_MESHM',
    'sections_preserved', 'insert_keeps_others', 'delete_keeps_order', 'update_sections_canonical',
    'write_read_fixpoint', 'flavour_param_spec', 'dispatch_as_modelled',
    'read_write_whole_partial', 'whole_sections_preserved', 'whole_fields', 'write_read_write_whole_partial',
    'read_write_whole_meshfile_partial', 'whole_fields_once']]
LEVEL_TEXT = ('Proof (partial): 43 Lean theorems, no sorry, about the executable model of t2data.py read/write: one record and one '
              'dictionary line read back field by field (any record kind); chunked lists of any length in lines of n (both sides of '
              'every 4/8 boundary, all 17 chunk records of the current tables); record lists closed by a blank line; the default initial conditions of PARAM (0..12, ...) with continuation lines and the look-ahead into the next section; full section round '
              'trips for PARAM (both flavours: three dictionary lines, MOP digits, time steps of a negative const_timestep, default incons, look-ahead), ROCKS (incl. NAD continuation lines and all seven RP/CP parameters), RPCAP, LINEQ/SOLVR/MULTI, TIMES, ELEME, CONNE, GENER with its time/rate/enthalpy tables (main and extra-precision tables), INCON, INDOM, FOFT/GOFT, COFT, SHORT (lists resolved against the grid), MOMOP (MOP digits proved outright), SELEC, DIFFU, MESHM (RZ2D with RADII/EQUID/LOGAR/LAYER, XYZ, MINC); the (A3,I2) block-name cycle is '
              'total and idempotent; the keyword loop of read() dispatches each written section once in file order and _sections becomes '
              'the file\'s keywords in order; insert/delete_section keep the order of the others; fixed point of the second file from the '
              'round trip; PARAM/MULTI flavour choice; dispatch and record tables of /repo as modelled (decided on the generated tables). '
                            'read_write_whole_partial: read(write d) = canon d for whole objects, by induction over the object\'s section list through the '
              'keyword loop (title line, each section\'s round trip with a continuation that begins with a keyword line, PARAM\'s look-ahead '
              'handed back to the loop, ENDCY/ENDFI), for objects of both flavours (TOUGH2; AUTOUGH2 = SIMUL section, param1_autough2/multi_autough2 records, written without extra-precision arguments) with the mesh in the file, no extra-precision companion and '
              'sections among ROCKS PARAM MOMOP START NOVER ELEME CONNE GENER LINEQ SOLVR RPCAP TIMES SELEC INCON INDOM MULTI DIFFU FOFT GOFT COFT MESHM SHORT SIMUL, i.e. all 23 kinds (SIMUL: the simulator string comes back stripped, side condition that it is not blank; MESHM through its MESHMAKER keyword line, SHORT through its header line raw or padded, names resolved against the grid read before it; COFT only before the grid is read; side conditions of the section theorems stated on the '
              'reader\'s object when the section is met); whole_sections_preserved: the object read has the written object\'s _sections in '
              'the same order and its end keyword; whole_fields: its title, rock types, blocks, connections, generators, MOP/MOMOP options and '
              'default initial conditions are the canonical values of the written object\'s; write_read_write_whole_partial: write(read(write d)) = write(canon d) for the same objects; '
              'whole_fields_once: for a section that occurs once in the written section list, the field it fills in the object read back (initial conditions, output times, FOFT/GOFT/COFT history requests - resolved against the blocks read when ELEME precedes them -, selection, diffusion, mesh-maker entries, short-output lists, INDOM, simulator string, parameter dictionary and time steps) is the canonical value of the written field, starting from the fresh object\'s empty value; '
              'read_write_whole_meshfile_partial: the same round trip with the mesh in an ASCII MESH file (keyword loop on the main file, then read_meshfile). '
              'NOT proved (modelled; covered by the byte-for-byte correspondence and the oracle only): the whole-object composition '
              'for the extra-precision companion file (AUTOUGH2 objects written with extra_precision set); the binary MESHA/MESHB pair; idempotence of field rounding on '
              'reals (hence of canon on whole objects).')
LEVEL_NOTE = ('Trusted: Lean kernel (+propext, Classical.choice, Quot.sound); the hand-written model (tied to /repo on every run: written '
              'files byte for byte, read-back objects attribute by attribute, incl. the six shipped files); C02 record theorems; '
              'A-float (decimal -> double by CPython); harness, translators, canonicalisers.')
