"""Shared machinery of the C08 / C09 checks (t2grid registry + physics).

  * an edit alphabet in JSON form (replayable), applied to the real `t2grid` in-process,
  * the same history encoded for the compiled Lean model (`drv_c08` / `drv_c09`),
  * a canonical dump of the public state (names, orders, dictionary keys with the list index of the
    object they point to - by identity -, each block's sorted connection_name, rock type, payload
    as exact rationals), produced identically by both sides,
  * the classification of an operation in the state it is applied to (within Pre / known finding
    F1-F3 / argument misuse) - mirrored by `Model.Grid.preClass` and cross-checked,
  * the direct C08 oracle (the property's clauses read by name and by object identity).
"""
import io, contextlib, itertools, math
from fractions import Fraction
import core

ATMOS_VOLUME = 1.e25

# ------------------------------------------------------------------ numbers / tokens


def frac(x):
    return Fraction(float(x))


def rat_tok(x):
    f = frac(x)
    return '%d/%d' % (f.numerator, f.denominator)


def rat_dump(x):
    f = frac(x)
    return '%d~%d' % (f.numerator, f.denominator)


def hx(s):
    return s.encode('latin-1').hex()


def name_tok(s):
    return 'x' + hx(s)


def opt_tok(v, f):
    return 'N' if v is None else f(v)


def list_tok(l, f):
    out = [str(len(l))]
    for x in l:
        out += f(x)
    return out


def pay_tok(p):
    return [str(int(p[0])), rat_tok(p[1]), rat_tok(p[2]), rat_tok(p[3]), opt_tok(p[4], rat_tok),
            opt_tok(p[5], lambda v: str(int(v))), opt_tok(p[6], lambda v: str(int(v)))]


def centre_tok(c):
    if c is None:
        return ['N']
    return [str(len(c))] + [rat_tok(v) for v in c]


def spec_tok(s):
    return (list_tok(s['rocks'], lambda r: [name_tok(r[0]), str(int(r[1]))]) +
            list_tok(s['blocks'], lambda b: [name_tok(b[0]), name_tok(b[1]), rat_tok(b[2])] + centre_tok(b[3])) +
            list_tok(s['cons'], lambda c: [str(c[0]), str(c[1])] + pay_tok(c[2])))


DEFAULT_PAY = [1, 0.0, 0.0, 1.0, 0.0, None, None]


def op_tokens(op, aux=None):
    """tokens of one operation for the Lean driver; `aux` carries what only the real run knows
    (the MINC geometry numbers a, d)"""
    k = op[0]
    if k == 'add_rocktype': return ['ar', name_tok(op[1]), str(int(op[2]))]
    if k == 'delete_rocktype': return ['dr', name_tok(op[1])]
    if k == 'rename_rocktype': return ['rr', name_tok(op[1]), name_tok(op[2])]
    if k == 'clean_rocktypes': return ['cr']
    if k == 'sort_rocktypes': return ['sr']
    if k == 'add_block': return ['ab', name_tok(op[1]), name_tok(op[2]), rat_tok(op[3])] + centre_tok(op[4])
    if k == 'delete_block': return ['db', name_tok(op[1])]
    if k == 'demote_block': return ['dm'] + list_tok(op[1], lambda n: [name_tok(n)])
    if k == 'add_connection': return ['ac', name_tok(op[1]), name_tok(op[2])] + pay_tok(op[3])
    if k == 'delete_connection': return ['dc', name_tok(op[1]), name_tok(op[2])]
    if k == 'reorder':
        return (['ro'] + list_tok(op[1] or [], lambda n: [name_tok(n)]) +
                list_tok(op[2] or [], lambda c: [name_tok(c[0]), name_tok(c[1])]))
    if k == 'rename_blocks':
        # the argument is a Python dict: a key listed twice keeps its first position and its last value
        m = list(dict((a, b) for a, b in op[1]).items())
        return ['rb'] + list_tok(m, lambda kv: [name_tok(kv[0]), name_tok(kv[1])]) + ['1' if op[2] else '0']
    if k == 'minc':
        a, d = aux if aux else ([], [])
        return (['mi'] + list_tok(op[1], lambda v: [rat_tok(v)]) + list_tok(a, lambda v: [rat_tok(v)]) +
                list_tok(d, lambda v: [rat_tok(v)]) + list_tok(op[4] or [], lambda n: [name_tok(n)]) + [rat_tok(ATMOS_VOLUME)])
    if k == 'add_block_fresh': return ['af', name_tok(op[1]), name_tok(op[2]), rat_tok(op[3])] + centre_tok(op[4])
    if k == 'readd_block': return ['xb', name_tok(op[1])]
    if k == 'readd_rocktype': return ['xr', name_tok(op[1])]
    if k == 'readd_connection': return ['xc', name_tok(op[1]), name_tok(op[2])]
    if k == 'again_block': return ['gb', name_tok(op[1])]
    if k == 'add': return ['ag'] + spec_tok(op[1]) + ['1' if op[2] else '0']
    if k == 'embed': return ['em'] + spec_tok(op[1]) + [name_tok(op[2]), name_tok(op[3])] + pay_tok(op[4])
    if k == 'embed_standalone': return ['es'] + spec_tok(op[1]) + [name_tok(op[2]), name_tok(op[3])] + pay_tok(op[4]) + [rat_tok(op[5])]
    raise RuntimeError('unknown op %r' % (op,))


# ------------------------------------------------------------------ the real code


def T():
    import t2grids
    return t2grids


class Registry:
    """every rocktype / t2block / t2connection object of a history, in creation order (the model's
    heap ids are creation order too): lets an operation name "the most recently created object called
    X that is not in the grid" on both sides"""
    def __init__(self):
        self.rocks, self.blocks, self.cons, self.seen = [], [], [], set()

    def _add(self, lst, o):
        if id(o) not in self.seen:
            self.seen.add(id(o))
            lst.append(o)

    def rock(self, o): self._add(self.rocks, o); return o
    def con(self, o): self._add(self.cons, o); return o

    def block(self, o):
        self._add(self.blocks, o)
        return o

    def scan(self, g):
        """objects the library itself created (fromgeo, minc) show up in the lists in creation order"""
        for r in g.rocktypelist: self._add(self.rocks, r)
        for b in g.blocklist: self._add(self.blocks, b)
        for c in g.connectionlist: self._add(self.cons, c)

    def outside(self, kind, current, pred):
        ids = set(id(o) for o in current)
        for o in reversed(getattr(self, kind)):
            if id(o) not in ids and pred(o):
                return o
        return None


def outside_block(g, reg, nm): return reg.outside('blocks', g.blocklist, lambda b: b.name == nm)
def outside_rock(g, reg, nm): return reg.outside('rocks', g.rocktypelist, lambda r: r.name == nm)
def outside_con(g, reg, k): return reg.outside('cons', g.connectionlist, lambda c: tuple(b.name for b in c.block) == tuple(k))


def make_con(blocks, p):
    t = T()
    return t.t2connection(blocks, int(p[0]), [p[1], p[2]], p[3], p[4], None, None, p[5], p[6])


def build_spec(spec, reg=None):
    """a second grid built with the public API from fresh objects"""
    t = T()
    reg = reg or Registry()
    g = t.t2grid()
    for r in spec['rocks']:
        g.add_rocktype(reg.rock(t.rocktype(name=r[0], density=float(r[1]))))
    for b in spec['blocks']:
        g.add_block(reg.block(t.t2block(b[0], b[2], g.rocktype[b[1]], centre=b[3])))
    if not spec_ok(spec):
        raise RuntimeError('harness: ill-formed grid recipe %r' % (spec,))
    for c in spec['cons']:
        # the blocks named by blocks[i], blocks[j] (as the model's specOps does)
        g.add_connection(reg.con(make_con([g.block[spec['blocks'][c[0]][0]], g.block[spec['blocks'][c[1]][0]]], c[2])))
    return g


class Applied:
    """result of one real call"""
    __slots__ = ('grid', 'exc', 'ret', 'flag', 'aux', 'set_loop_exc')

    def __init__(self, grid):
        self.grid, self.exc, self.ret, self.flag, self.aux, self.set_loop_exc = grid, None, [], True, None, False


def apply_op(g, op, reg=None):
    """apply one operation to the real grid `g`"""
    t = T()
    k = op[0]
    res = Applied(g)
    reg = reg or Registry()
    try:
        with contextlib.redirect_stdout(io.StringIO()):
            if k == 'add_rocktype':
                g.add_rocktype(reg.rock(t.rocktype(name=op[1], density=float(op[2]))))
            elif k == 'delete_rocktype':
                g.delete_rocktype(op[1])
            elif k == 'rename_rocktype':
                g.rename_rocktype(op[1], op[2])
            elif k == 'clean_rocktypes':
                g.clean_rocktypes()
            elif k == 'sort_rocktypes':
                g.sort_rocktypes()
            elif k == 'add_block':
                rt = g.rocktype[op[2]] if op[2] in g.rocktype else reg.rock(t.rocktype(name=op[2], density=0.0))
                g.add_block(reg.block(t.t2block(op[1], op[3], rt, centre=op[4])))
            elif k == 'add_block_fresh':
                rt = reg.rock(t.rocktype(name=op[2], density=0.0))
                g.add_block(reg.block(t.t2block(op[1], op[3], rt, centre=op[4])))
            elif k == 'readd_block':
                b = outside_block(g, reg, op[1])
                if b is not None: g.add_block(b)
            elif k == 'readd_rocktype':
                r = outside_rock(g, reg, op[1])
                if r is not None: g.add_rocktype(r)
            elif k == 'readd_connection':
                c = outside_con(g, reg, (op[1], op[2]))
                if c is not None: g.add_connection(c)
            elif k == 'again_block':
                if op[1] in g.block: g.add_block(g.block[op[1]])
            elif k == 'delete_block':
                res.set_loop_exc = True
                g.delete_block(op[1])
                res.set_loop_exc = False
            elif k == 'demote_block':
                g.demote_block(list(op[1]))
            elif k == 'add_connection':
                bs = [g.block[n] if n in g.block else default_block(n, reg) for n in op[1:3]]
                g.add_connection(reg.con(make_con(bs, op[3])))
            elif k == 'delete_connection':
                g.delete_connection((op[1], op[2]))
            elif k == 'reorder':
                g.reorder(list(op[1]) if op[1] else None, [tuple(c) for c in op[2]] if op[2] else None)
            elif k == 'rename_blocks':
                g.rename_blocks(dict((a, b) for a, b in op[1]), fix_blocknames=bool(op[2]))
            elif k == 'minc':
                vols = dict((id(b), b.volume) for b in g.blocklist)
                ncon = len(g.connectionlist)
                try:
                    idx = g.minc(list(op[1]), op[2], op[3], blocks=list(op[4]) if op[4] else None,
                                 atmos_volume=ATMOS_VOLUME)
                    res.ret = [[int(v) for v in idx[:, j]] for j in range(idx.shape[1])]
                finally:
                    res.aux = recover_minc_numbers(g, vols, ncon, len(op[1]))
            elif k == 'add':
                other = build_spec(op[1], reg)
                res.grid = (g + other) if op[2] else (other + g)
            elif k == 'embed':
                sub = build_spec(op[1], reg)
                host = g.block[op[2]] if op[2] in g.block else default_block(op[2], reg)
                sb = sub.block[op[3]] if op[3] in sub.block else default_block(op[3], reg)
                r = g.embed(sub, reg.con(make_con([host, sb], op[4])))
                if r is None:
                    res.flag = False
                else:
                    res.grid = r
            elif k == 'embed_standalone':
                # the connection's host block is a standalone t2block that only carries the host's name
                # (like a block of a copy of the grid, or of the grid before a write/read)
                sub = build_spec(op[1], reg)
                host = t.t2block(op[2], op[5])
                host.rocktype.density = 0.0
                reg.rock(host.rocktype); reg.block(host)
                sb = sub.block[op[3]] if op[3] in sub.block else default_block(op[3], reg)
                r = g.embed(sub, reg.con(make_con([host, sb], op[4])))
                if r is None:
                    res.flag = False
                else:
                    res.grid = r
            else:
                raise RuntimeError('unknown op %r' % (op,))
    except RuntimeError:
        raise
    except (KeyError, ValueError, IndexError, TypeError, ZeroDivisionError) as e:
        res.exc = type(e).__name__
    except Exception as e:
        if type(e) is not Exception:
            raise
        res.exc = 'Exception'
    if res.exc is None:
        res.set_loop_exc = False
    reg.scan(res.grid)
    return res


def default_block(n, reg=None):
    t = T()
    b = t.t2block(n)
    b.rocktype.density = 0.0
    if reg is not None:
        reg.rock(b.rocktype)
        reg.block(b)
    return b


def recover_minc_numbers(g, vols_before, ncon_before, nlevels):
    """a[0..L-2], d[0..L-1] from the first MINC chain that was added (connections appended after
    `ncon_before`): area = V * a[m-1], distance = [d[m-1], d[m]] with V the block's old volume"""
    new = g.connectionlist[ncon_before:]
    if not new:
        return ([], [])
    first = new[0].block[0]
    V = vols_before.get(id(first))
    if V is None or V == 0:
        return ([], [])
    a, d = [], []
    for c in new[:nlevels - 1]:
        a.append(float(c.area) / float(V))
        if not d:
            d.append(float(c.distance[0]))
        d.append(float(c.distance[1]))
    return (a, d)


# ------------------------------------------------------------------ canonical dump


def idx_of(lst_ids, o):
    return lst_ids.get(id(o), -1)


def dump_grid(g):
    rl_ids, bl_ids, cl_ids = {}, {}, {}
    for i, o in enumerate(g.rocktypelist): rl_ids.setdefault(id(o), i)
    for i, o in enumerate(g.blocklist): bl_ids.setdefault(id(o), i)
    for i, o in enumerate(g.connectionlist): cl_ids.setdefault(id(o), i)
    rl = ['%s:%d' % (hx(r.name), int(r.density)) for r in g.rocktypelist]
    rd = sorted('%s:%d' % (hx(k), idx_of(rl_ids, r)) for k, r in g.rocktype.items())
    bl = []
    for b in g.blocklist:
        centre = 'N' if b.centre is None else '_'.join(rat_dump(v) for v in b.centre)
        conn = '+'.join(sorted('%s.%s' % (hx(c[0]), hx(c[1])) for c in b.connection_name))
        bl.append('%s/%s/%d/%s/%s/%s' % (hx(b.name), hx(b.rocktype.name), idx_of(rl_ids, b.rocktype), rat_dump(b.volume), centre, conn))
    bd = sorted('%s:%d' % (hx(k), idx_of(bl_ids, b)) for k, b in g.block.items())
    cl = []
    for c in g.connectionlist:
        b0, b1 = c.block
        cl.append('%s.%s/%d/%d/%d/%s/%s/%s/%s/%s/%s' % (
            hx(b0.name), hx(b1.name), idx_of(bl_ids, b0), idx_of(bl_ids, b1), int(c.direction),
            rat_dump(c.distance[0]), rat_dump(c.distance[1]), rat_dump(c.area),
            'N' if c.dircos is None else rat_dump(c.dircos),
            'N' if c.nad1 is None else str(int(c.nad1)), 'N' if c.nad2 is None else str(int(c.nad2))))
    cd = sorted('%s.%s:%d' % (hx(k[0]), hx(k[1]), idx_of(cl_ids, c)) for k, c in g.connection.items())
    j = ','.join
    return 'RL=%s;RD=%s;BL=%s;BD=%s;CL=%s;CD=%s' % (j(rl), j(rd), j(bl), j(bd), j(cl), j(cd))


def dump_applied(res):
    x = '.'.join(','.join(str(v) for v in row) for row in res.ret)
    return 'E=%s;F=%d;X=%s' % (res.exc or '-', 1 if res.flag else 0, x)


def split_model_dump(s):
    """model reply -> (header 'E=..;F=..;X=..', pre class, inv flag, world dump)"""
    parts = s.split(';', 5)
    head = ';'.join(parts[:3])
    pre = parts[3][2:]
    inv = parts[4][2:] == '1'
    return head, pre, inv, parts[5]


def _num(s):
    a, b = s.split('~')
    return Fraction(int(a), int(b))


def close(a, b, rel):
    if a == b:
        return True
    if 'N' in (a, b):
        return False
    x, y = _num(a), _num(b)
    return abs(x - y) <= rel * max(abs(x), abs(y))


def dumps_equal(real, model, rel=None):
    """exact comparison, or (after floating-point arithmetic happened: MINC, embed) numeric payload
    to a relative tolerance and everything else exactly"""
    if real == model:
        return True
    if rel is None:
        return False
    fr, fm = real.split(';'), model.split(';')
    if len(fr) != len(fm):
        return False
    for a, b in zip(fr, fm):
        if a == b:
            continue
        tag = a[:3]
        if tag != b[:3] or tag not in ('BL=', 'CL='):
            return False
        ia, ib = a[3:].split(','), b[3:].split(',')
        if len(ia) != len(ib):
            return False
        numeric = (3,) if tag == 'BL=' else (4, 5, 6, 7)
        for x, y in zip(ia, ib):
            if x == y:
                continue
            px, py = x.split('/'), y.split('/')
            if len(px) != len(py):
                return False
            for i, (u, v) in enumerate(zip(px, py)):
                if u == v:
                    continue
                if i not in numeric or not close(u, v, rel):
                    return False
    return True


# ------------------------------------------------------------------ classification (mirror of Model.Grid.pre / finding)


def rock_in_use(g, r):
    return any(b.rocktype is r for b in g.blocklist)


def rock_name_in_use(g, nm):
    r = g.rocktype.get(nm)
    return r is not None and rock_in_use(g, r)


def block_name_connected(g, nm):
    b = g.block.get(nm)
    return b is not None and len(b.connection_name) > 0


def spec_ok(s):
    rn = [r[0] for r in s['rocks']]
    bn = [b[0] for b in s['blocks']]
    return (len(set(rn)) == len(rn) and len(set(bn)) == len(bn) and all(b[1] in rn for b in s['blocks']) and
            all(c[0] < len(bn) and c[1] < len(bn) and c[0] != c[1] for c in s['cons']))


def fix_name(n):
    """independent statement of mulgrids.fix_blockname (raises IndexError like the original)"""
    if n[2].isdigit() and n[4].isdigit() and n[3] == ' ':
        return n[0:3] + '0' + n[4:5]
    return n


def effective_map(pairs, fix):
    """the dictionary rename_blocks really applies: fix_block_mapping mutates it in place"""
    m = dict((a, b) for a, b in pairs)
    if not fix:
        return m
    import mulgrids
    try:
        mulgrids.fix_block_mapping(m)
    except IndexError:
        return None
    return m


def resolve_con(g, k):
    k = tuple(k)
    if k in g.connection:
        return g.connection[k]
    return g.connection.get(k[::-1])


def is_perm_ids(objs, lst):
    if any(o is None for o in objs) or len(objs) != len(lst):
        return False
    return sorted(id(o) for o in objs) == sorted(id(o) for o in lst)


def classify(g, op, reg=None):
    """'ok' (within Pre), 'F1'/'F2'/'F3' (known finding situations), or 'misuse'"""
    k = op[0]
    pre, finding = True, None
    reg = reg or Registry()
    if k == 'add_block_fresh':
        return 'misuse'
    if k == 'readd_block':
        b = outside_block(g, reg, op[1])
        if b is None: return 'ok'
        base = len(b.connection_name) == 0 and any(b.rocktype is r for r in g.rocktypelist)
        con = block_name_connected(g, op[1])
        if base and not con: return 'ok'
        return 'F1' if base else 'misuse'
    if k == 'readd_rocktype':
        r = outside_rock(g, reg, op[1])
        if r is None or not rock_name_in_use(g, op[1]): return 'ok'
        return 'F2'
    if k == 'readd_connection':
        c = outside_con(g, reg, (op[1], op[2]))
        if c is None: return 'ok'
        ids = set(id(b) for b in g.blocklist)
        return 'ok' if (len(c.block) == 2 and id(c.block[0]) in ids and id(c.block[1]) in ids and c.block[0] is not c.block[1]) else 'misuse'
    if k == 'again_block':
        return 'ok'
    if k == 'add_rocktype':
        if rock_name_in_use(g, op[1]): pre, finding = False, 'F2'
    elif k == 'delete_rocktype':
        if rock_name_in_use(g, op[1]): pre, finding = False, 'F3'
    elif k == 'add_block':
        reg = op[2] in g.rocktype
        con = block_name_connected(g, op[1])
        pre = reg and not con
        if reg and con: finding = 'F1'
    elif k == 'add_connection':
        pre = op[1] in g.block and op[2] in g.block and op[1] != op[2]
    elif k == 'reorder':
        bs, cs = op[1] or [], op[2] or []
        okb = (not bs) or is_perm_ids([g.block.get(n) for n in bs], g.blocklist)
        okc = (not cs) or is_perm_ids([resolve_con(g, c) for c in cs], g.connectionlist)
        pre = okb and okc
    elif k == 'rename_blocks':
        m = effective_map(op[1], op[2])
        if m is not None:
            new = [m.get(b.name, b.name) for b in g.blocklist]
            pre = len(set(new)) == len(new)
    elif k == 'add':
        s, left = op[1], op[2]
        sok = spec_ok(s)
        disjoint = all(b[0] not in g.block for b in s['blocks'])
        if left:
            rocks_ok = all(not rock_name_in_use(g, r[0]) for r in s['rocks'])
        else:
            rocks_ok = all(not any(b[1] == r.name for b in s['blocks']) for r in g.rocktypelist)
        pre = sok and disjoint and rocks_ok
        if sok and not pre:
            if left:
                if any(block_name_connected(g, b[0]) for b in s['blocks']): finding = 'F1'
                elif not rocks_ok: finding = 'F2'
            else:
                names = set(b.name for b in g.blocklist)
                if any(s['blocks'][c[0]][0] in names or s['blocks'][c[1]][0] in names for c in s['cons']): finding = 'F1'
                elif not rocks_ok: finding = 'F2'
    elif k in ('embed', 'embed_standalone'):
        s = op[1]
        sok = spec_ok(s) and op[2] in g.block and any(b[0] == op[3] for b in s['blocks'])
        rocks_ok = all(not rock_name_in_use(g, r[0]) for r in s['rocks'])
        pre = sok and rocks_ok
        if sok and not rocks_ok: finding = 'F2'
    if pre:
        return 'ok'
    return finding or 'misuse'


FINDING_KEYS = {'F1': 'add_block-replaces-connected-block', 'F2': 'rocktype-replaced-while-in-use',
                'F3': 'delete_rocktype-in-use'}

# ------------------------------------------------------------------ the C08 oracle


def oracle(g, strong):
    """violated clauses of the C08 statement on grid g.
    strong=False: "in the grid" / "registered" / "mention" are read by name;
    strong=True : by object identity.  A state counts as violating only if both readings fail."""
    bad = []
    for kind, lst, dct in (('rocktype', g.rocktypelist, g.rocktype), ('block', g.blocklist, g.block),
                           ('connection', g.connectionlist, g.connection)):
        ids = [id(o) for o in lst]
        if len(set(ids)) != len(ids):
            bad.append('P1:%s-list-repeats-object' % kind)
        vals = [id(o) for o in dct.values()]
        if set(ids) != set(vals):
            bad.append('P1:%s-list-and-lookup-differ' % kind)
        if len(vals) != len(set(vals)):
            bad.append('P1:%s-two-keys-one-object' % kind)
        if kind != 'connection':
            names = [o.name for o in lst]
            if len(set(names)) != len(names):
                bad.append('P1:%s-names-not-unique' % kind)
            if any(o.name != key for key, o in dct.items()):
                bad.append('P1:%s-key-is-not-current-name' % kind)
    inlist = set(id(b) for b in g.blocklist)
    for c in g.connectionlist:
        if len(c.block) != 2:
            bad.append('P2:connection-not-two-blocks')
            continue
        for b in c.block:
            if not ((id(b) in inlist) if strong else (b.name in g.block)):
                bad.append('P2:connection-block-not-in-grid')
                break
        if g.connection.get(tuple(b.name for b in c.block)) is not c:
            bad.append('P2:connection-not-under-current-names')
    keys = [(c, tuple(x.name for x in c.block)) for c in g.connectionlist]
    for b in g.blocklist:
        if strong:
            want = set(k for c, k in keys if any(x is b for x in c.block))
        else:
            want = set(k for c, k in keys if b.name in k)
        if set(b.connection_name) != want:
            bad.append('P3:block-connection-record')
            break
    regs = set(id(r) for r in g.rocktypelist)
    for b in g.blocklist:
        if not ((id(b.rocktype) in regs) if strong else (b.rocktype.name in g.rocktype)):
            bad.append('P4:rocktype-not-registered')
            break
    return sorted(set(bad))


def model_inv_expected(g):
    """what Model.Grid.checkInv should say about this state: the identity reading of the property plus
    the strengthening used for the induction (a connection joins two *different* blocks)"""
    if oracle(g, True):
        return False
    return all(len(c.block) == 2 and c.block[0] is not c.block[1] for c in g.connectionlist)


def check_runs(g):
    """t2grid.check() is one of the property's observation points: on a consistent grid it must run"""
    try:
        with contextlib.redirect_stdout(io.StringIO()):
            g.check(fix=False, silent=True)
        return None
    except Exception as e:
        return type(e).__name__


def rename_oracle(g_before_names, g_before_ids, g, op):
    """'loses no block': names map through the (one-to-one) map in place, the lookup has exactly the
    new names and still reaches the same objects"""
    m = dict((a, b) for a, b in op[1])
    want = [m.get(n, n) for n in g_before_names]
    got = [b.name for b in g.blocklist]
    if got != want:
        return 'block names after renaming are %r, expected %r' % (got[:8], want[:8])
    if [id(b) for b in g.blocklist] != g_before_ids:
        return 'rename changed the block objects / their order'
    if set(g.block.keys()) != set(want):
        return 'lookup keys %r differ from the new names (lost: %r)' % (sorted(g.block)[:8], sorted(set(want) - set(g.block))[:4])
    if any(g.block[b.name] is not b for b in g.blocklist):
        return 'lookup does not reach the renamed block'
    return None


def fixing_changes(pairs):
    try:
        return any(fix_name(a) != a or fix_name(b) != b for a, b in pairs)
    except IndexError:
        return True


# ------------------------------------------------------------------ running a history on both sides


class History:
    """one edit history: optional start grid (from a geometry recipe) + operations"""
    def __init__(self, ops, start=None, dump_from=0):
        self.ops, self.start, self.dump_from = ops, start, dump_from


def grid_as_ops(g):
    """the public state of a freshly built grid as a sequence of add_* operations (how the model is
    brought to the state that the real fromgeo() produced)"""
    ops = []
    for r in g.rocktypelist:
        ops.append(['add_rocktype', r.name, int(r.density)])
    for b in g.blocklist:
        ops.append(['add_block', b.name, b.rocktype.name, float(b.volume),
                    None if b.centre is None else [float(v) for v in b.centre]])
    for c in g.connectionlist:
        ops.append(['add_connection', c.block[0].name, c.block[1].name,
                    [int(c.direction), float(c.distance[0]), float(c.distance[1]), float(c.area),
                     None if c.dircos is None else float(c.dircos), c.nad1, c.nad2]])
    return ops


def make_geo(recipe):
    """geometry from a JSON recipe: rectangular (optionally with perturbed nodes, refined columns and
    a sloping surface, which makes it irregular), any atmosphere type"""
    import numpy as np
    import mulgrids
    with contextlib.redirect_stdout(io.StringIO()):
        geo = mulgrids.mulgrid().rectangular(recipe['dx'], recipe['dy'], recipe['dz'], convention=recipe.get('convention', 0),
                                             atmos_type=recipe['atmos'], chars=recipe.get('chars', 'abcdefghijklmnopqrstuvwxyz'))
        if recipe.get('refine'):
            geo.refine([geo.columnlist[i] for i in recipe['refine'] if i < geo.num_columns])
        if recipe.get('surface'):
            for col, s in zip(geo.columnlist, itertools.cycle(recipe['surface'])):
                col.surface = s
                geo.set_column_num_layers(col)
            geo.setup_block_name_index()
            geo.setup_block_connection_name_index()
    return geo


def start_grid(start):
    if start is None:
        return T().t2grid()
    if 'spec' in start:
        return build_spec(start['spec'])
    geo = make_geo(start['geo'])
    with contextlib.redirect_stdout(io.StringIO()):
        return T().t2grid().fromgeo(geo)


class Step:
    __slots__ = ('op', 'cls', 'applied', 'dump', 'head', 'weak', 'strong', 'inexact', 'inv_expected', 'check_exc', 'rename_msg')


def model_line(start_ops, steps, dump_from=0):
    toks = ['seq']
    for op in start_ops:
        toks += ['q'] + op_tokens(op)
    for i, st in enumerate(steps):
        toks += ['d' if i >= dump_from else 'q'] + op_tokens(st.op, st.applied.aux)
    return ' '.join(toks)


def parse_reply(line):
    if not line.startswith('ok'):
        raise RuntimeError('driver: ' + line[:200])
    body = line[3:]
    return body.split('|') if body else []
