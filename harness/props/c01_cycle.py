"""C01 support: the direct oracle — write / read / compare / write again, on the real code.

  A = build(spec)                      A.write(dir1)            -> F1   (optionally: section blocks of the main file permuted -> F1')
  B = t2data(F1')                      dump(B) ~ canon(spec)            (content, section list and order)
  B.write(dir2)                        -> F2 ;  F2 = F1' up to trailing blanks
  C = t2data(F2)                       dump(C) ~ canon(spec)
  C.write(dir3)                        -> F3 ;  F3 = F2 byte for byte
  D = t2data(F3); D.write(dir4)        -> F4 ;  F4 = F3 byte for byte
"""
import os, re, random
from pathlib import Path
from props import c01_objs as O

MAIN = 'model.dat'


def expected_sections(spec, cfg):
    """section keywords a from-scratch object must hold after write(), in order (independent presence rules)"""
    present = {
        'SIMUL': bool(spec.get('simulator')), 'ROCKS': bool(spec.get('rocks')), 'PARAM': True,
        'MOMOP': any(spec.get('more_option', [])), 'START': bool(spec.get('start')), 'NOVER': bool(spec.get('noversion')),
        'RPCAP': bool(spec.get('relative_permeability') or spec.get('capillarity')), 'LINEQ': bool(spec.get('lineq')),
        'SOLVR': bool(spec.get('solver')), 'MULTI': bool(spec.get('multi')), 'TIMES': bool(spec.get('output_times')),
        'SELEC': bool(spec.get('selection')), 'DIFFU': bool(spec.get('diffusion')), 'ELEME': True, 'CONNE': True,
        'MESHM': bool(spec.get('meshmaker')), 'GENER': bool(spec.get('generators')), 'SHORT': bool(spec.get('short_output')),
        'FOFT': bool(spec.get('history_block')), 'COFT': bool(spec.get('history_connection')),
        'GOFT': bool(spec.get('history_generator')), 'INCON': bool(spec.get('incon')), 'INDOM': bool(spec.get('indom'))}
    return [k for k in O.SECTIONS if present[k]]


def xp_list(cfg):
    xp = cfg.get('xp')
    if xp is True: return list(O.XP_SECTIONS)
    if not xp: return []
    return [xp] if isinstance(xp, str) else list(xp)


def main_file_sections(sections, spec, cfg):
    out = []
    hidden = set()
    if cfg['mesh'] != 'in': hidden |= {'ELEME', 'CONNE'}
    if spec.get('simulator') and not cfg.get('echo'):
        hidden |= set(xp_list(cfg))
    return [k for k in sections if k not in hidden]


def mesh_arg(cfg, d):
    if cfg['mesh'] == 'ascii': return str(d / 'MESH')
    if cfg['mesh'] == 'binary': return (str(d / 'MESHA'), str(d / 'MESHB'))
    return ''


def files_of(d):
    return dict((p.name, p.read_bytes()) for p in sorted(Path(d).iterdir()) if p.is_file())


def split_main(text, order):
    """[title line], {keyword: text block}, end line — by scanning for the known keyword sequence"""
    lines = text.split('\n')
    assert lines[-1] == ''
    lines = lines[:-1]
    idx, pos = [], 1
    for k in order:
        while pos < len(lines) and lines[pos][0:5].strip() != k:
            pos += 1
        if pos >= len(lines):
            raise RuntimeError('section %s not found in the written file' % k)
        idx.append(pos)
        pos += 1
    end = len(lines) - 1
    blocks = {}
    for j, k in enumerate(order):
        blocks[k] = lines[idx[j]:(idx[j + 1] if j + 1 < len(order) else end)]
    head = lines[:idx[0]] if idx else lines[:end]
    return head, blocks, lines[end]


def legal_order(order, cfg):
    pos = dict((k, i) for i, k in enumerate(order))
    def before(a, b):
        return a not in pos or b not in pos or pos[a] < pos[b]
    if 'SIMUL' in pos and pos['SIMUL'] != 0: return False
    for a, b in (('ROCKS', 'ELEME'), ('ELEME', 'CONNE'), ('ELEME', 'SHORT'), ('CONNE', 'SHORT'), ('GENER', 'SHORT'),
                 ('MULTI', 'DIFFU'), ('CONNE', 'COFT'), ('ELEME', 'COFT')):
        if not before(a, b): return False
    return True


def permuted(order, cfg, seed):
    r = random.Random(seed)
    for _ in range(60):
        o = list(order)
        r.shuffle(o)
        if legal_order(o, cfg):
            return o
    return list(order)


def strip_trailing(b):
    return [l.rstrip(b' ') for l in b.split(b'\n')]


class RealFailure(Exception):
    def __init__(self, stage, exc):
        self.stage, self.exc = stage, exc


def call_real(stage, fn, *a, **k):
    try:
        with O.quiet():
            return fn(*a, **k)
    except Exception as e:                    # an exception of the code under test is an observation, not a harness fault
        raise RealFailure(stage, e)


def key_of(path):
    return re.sub(r'/\d+', '', path).strip('/')


def cycle(spec, cfg, tmp, ncycles=4, origin=None, read_function=None, record=False):
    """run the oracle on one case; returns (violations, info). `origin` = (path, meshfilename) of a shipped file
    replaces build(spec)."""
    import t2data as T
    viol = []
    info = {}
    tmp = Path(tmp)
    dirs = [tmp / ('w%d' % i) for i in range(1, ncycles + 1)]
    for d in dirs: d.mkdir(parents=True, exist_ok=True)
    case = {'spec': spec, 'cfg': cfg} if origin is None else {'file': origin[0], 'mesh': origin[1], 'cfg': cfg}

    def V(key, what):
        viol.append(dict(key=key, what=what, case=case))

    kw = {}
    if read_function is not None: kw['read_function'] = read_function
    try:
        if origin is None:
            A = call_real('build', O.build, spec)
            if cfg.get('edits'):
                # edited through the public API before writing; what must come back is the edited object
                call_real('edit', O.apply_edits, A, cfg['edits'])
                spec = O.dump(A)
            wkw = {}
            if spec.get('simulator') and cfg.get('xp') is not None:
                wkw = dict(extra_precision=cfg['xp'], echo_extra_precision=cfg.get('echo'))
        else:
            A = call_real('read-shipped', T.t2data, origin[0], origin[1], **kw)
            spec = O.dump(A)
            wkw = {}
            cfg = dict(cfg, xp=list(A.extra_precision), echo=A.echo_extra_precision)
        try:
            want = O.canon(spec, cfg)
        except OverflowError as e:
            if origin is None:
                raise                      # a generated value that does not fit its field is a generator fault
            # the object the real reader made of a corpus file holds a value that does not fit its own field
            V('misread:' + type(e).__name__, 'the object read from %s cannot be written back: %s' % (origin[0], e))
            return viol, info
        events = info.setdefault('events', [])
        before = O.dump(A) if record else None
        call_real('write1', A.write, str(dirs[0] / MAIN), mesh_arg(cfg, dirs[0]), **wkw)
        F = [files_of(dirs[0])]
        if record:
            events.append(dict(op='write', obj=before, wkw=wkw, mesh=cfg['mesh'], files=dict(F[0]),
                               after=(list(A._sections), list(A.extra_precision), bool(A.echo_extra_precision))))
        if origin is None:
            sec_all = expected_sections(spec, cfg)
            sec_main = main_file_sections(sec_all, spec, cfg)
        else:
            sec_all = list(A._sections)
            sec_main = main_file_sections(sec_all, spec, cfg)
        info['sections'] = sec_main
        if (cfg.get('permute') or cfg.get('order')) and origin is None and len(sec_main) > 2:
            if cfg.get('order'):
                order = [k for k in cfg['order'] if k in sec_main] + [k for k in sec_main if k not in cfg['order']]
            else:
                order = permuted(sec_main, cfg, cfg.get('pseed', 0))
            text = F[0][MAIN].decode('latin-1')
            try:
                head, blocks, end = split_main(text, sec_main)
            except RuntimeError:
                # the written file does not hold the expected sections in the expected order: leave it as it is
                # (what is wrong with it shows in the comparisons below)
                info['unsplittable'] = True
                order = None
            if order is not None:
                new = '\n'.join(head + sum((blocks[k] for k in order), []) + [end]) + '\n'
                (dirs[0] / MAIN).write_bytes(new.encode('latin-1'))
                F[0][MAIN] = new.encode('latin-1')
                sec_main = order
                info['permuted'] = order != info['sections']
        # expected section list of the object read back: keywords of the main file, then the ASCII mesh file's
        want_sections = list(sec_main) + (['ELEME', 'CONNE'] if cfg['mesh'] == 'ascii' else [])
        prev = A
        for i in range(1, ncycles):
            B = call_real('read%d' % i, T.t2data, str(dirs[i - 1] / MAIN), mesh_arg(cfg, dirs[i - 1]), **kw)
            dB = O.dump(B) if (record or i <= 2) else None
            if record and i <= 2:
                events.append(dict(op='read', dir=str(dirs[i - 1]), mesh=cfg['mesh'], obj=dB, fortran=read_function is not None))
            if i <= 2:
                got = O.normalise_dump(dB)
                for path, w, g in O.diff(want, got)[:6]:
                    V('content:' + key_of(path), 'after %d write/read cycle(s) %s is %r, written %r' % (i, path, g, w))
                d = dB
                if not all(d['registry'].values()):
                    V('registry', 'lookup dictionaries of the re-read object do not match its lists: %r' % d['registry'])
                if list(B._sections) != want_sections:
                    V('sections', 'sections of the re-read object are %r, the file holds %r' % (list(B._sections), want_sections))
            call_real('write%d' % (i + 1), B.write, str(dirs[i] / MAIN), mesh_arg(cfg, dirs[i]), **wkw)
            F.append(files_of(dirs[i]))
            if record and i <= 2:
                events.append(dict(op='write', obj=dB, wkw=wkw, mesh=cfg['mesh'], files=F[i],
                                   after=(list(B._sections), list(B.extra_precision), bool(B.echo_extra_precision))))
            a, b = F[i - 1], F[i]
            if sorted(a) != sorted(b):
                V('files', 'cycle %d wrote files %s, the previous one %s' % (i + 1, sorted(b), sorted(a)))
            for name in sorted(set(a) & set(b)):
                if i == 1 and name not in ('MESHA', 'MESHB'):
                    sa, sb = strip_trailing(a[name]), strip_trailing(b[name])
                    if sa != sb:
                        k = next((j for j in range(min(len(sa), len(sb))) if sa[j] != sb[j]), min(len(sa), len(sb)))
                        V('rewrite-differs:' + name.split('.')[-1],
                          'second write of %s differs from the first beyond trailing blanks at line %d: %r vs %r'
                          % (name, k + 1, (sb[k] if k < len(sb) else None), (sa[k] if k < len(sa) else None)))
                elif a[name] != b[name]:
                    la, lb = a[name].split(b'\n'), b[name].split(b'\n')
                    k = next((j for j in range(min(len(la), len(lb))) if la[j] != lb[j]), min(len(la), len(lb)))
                    V('not-fixpoint:' + name.split('.')[-1],
                      'write %d of %s is not byte-identical to write %d (line %d: %r vs %r)'
                      % (i + 1, name, i, k + 1, (lb[k] if k < len(lb) else None)[:90] if k < len(lb) else None,
                         (la[k] if k < len(la) else None)[:90] if k < len(la) else None))
            prev = B
        info['bytes'] = sum(len(v) for v in F[0].values())
        info['files'] = F
    except RealFailure as e:
        V('raises:%s:%s' % (re.sub(r'\d', '', e.stage), type(e.exc).__name__),
          '%s raises %s: %s' % (e.stage, type(e.exc).__name__, str(e.exc)[:200]))
    return viol, info
