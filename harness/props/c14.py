"""C14 — IAPWS-97 water properties are thermodynamically consistent over their range.

model      lean/PyTough/Gen/Iapws.lean  — GENERATED on every run from /repo/IAPWS97.py by
           harness/translate/thermo.py (all tables, power chains and the bodies of cowat, supst, super,
           sat, tsat, visc, b23p, b23t, region as definitions generic in the carrier);
           lean/PyTough/Model/Thermo.lean — hand model of power_array and the carrier class.
theorems   lean/PyTough/Props/C14.lean (about the generated definitions over the reals)
tie        T: the translator; validated on every run by executing the generated definitions over Float in
           the compiled driver and comparing BIT FOR BIT with CPython (facet iapws_bits; visc to 1e-14
           because np.dot goes through a BLAS FMA kernel); M: power_array vs the hand model, bit for bit
           (facet power_array).
oracle     the property clauses evaluated on the real code: inverse pairs incl. both end points; the
           single-potential identities by finite differences (a) of the real code's doubles, (b) of the
           translated tree in 70-digit Decimal (and the doubles agree with that tree); monotone
           density; viscosity > 0; IAPWS-IF97 boundary consistency (0.05 % in v, 0.2 kJ/kg in h) at 350 degC
           and on the B23 line; classifier vs an independent implementation of the region boundaries.
"""
import math, struct, sys, decimal, contextlib, io, time, warnings
from decimal import Decimal
import core
from core import Result

sys.path.insert(0, str(core.VERIF / 'harness' / 'translate'))
import thermo  # noqa: E402

ID = 'C14'
MODULE = 'PyTough.Props.C14'
TARGETS = ['PyTough.Props.C14', 'drv_c14']
THEOREMS = ['Props.C14.' + t for t in [
    'power_chains_wf', 'power_array_eq_zpow', 'indices_defined',
    'single_potential_r1', 'single_potential_r2', 'single_potential_r3', 'density_monotone_r2_partial',
    'density_monotone_r1_partial', 'density_monotone_region1_partial', 'compressibility_pos_r1_partial',
    'region_classifier_one', 'region_classifier_two', 'region_classifier_three', 'region_classifier_none',
    'region_classifier_total', 'region_equation_valid',
    'sat_root', 'tsat_root', 'sat_tsat_inverse_on', 'tsat_sat_inverse_on', 'sat_tsat_inverse_partial', 'tsat_sat_inverse_partial', 'tsat_outside_range', 'sat_tsat_critical_end', 'visc_pos', 'b23_near_inverse', 'b23_near_inverse_p',
]]
LEVEL_TEXT = ('Proof (partial): 27 Lean theorems about definitions regenerated from IAPWS97.py on every run, over the reals: all ten '
              'power_array chains well formed and computing v^k (decide + induction); every index read by the sums is defined; the values of '
              'cowat / supst / super are the partial derivatives of ONE potential each (Gibbs regions 1, 2, Helmholtz region 3) at every state '
              'of 0..350 degC x <=100 MPa, 0..800 degC x (0,100 MPa], every density and t>=0 (HasDerivAt, no sorry); the region classifier '
              'returns 1/2/3/None exactly on the validity domains and the named routine accepts the state; sat and tsat solve the same implicit '
              'equation; tsat(sat t)=t is PROVED for every 0.01 <= t <= 373.9 degC and sat(tsat p)=p for every 613 Pa <= p <= 22.039 MPa with '
              'no further hypothesis (85-piece interval cover of the saturation line + intermediate value theorem); on the last 0.046 K the '
              '_partial versions carry the branch inequalities as hypotheses; the critical-end failure of the inverse is PROVED '
              '(sat(tcritical) > pcritical in exact arithmetic); visc > 0 for every density and t >= 0; b23t(b23p t) - t in [0, 1e-9] K and |b23p(b23t p) - p| <= 1e-4 Pa on '
              '350..590 degC.  density strictly increasing in pressure is PROVED for region 2 on six boxes up to 10 MPa (_partial).  Region 1 (cowat): density positive and strictly increasing in pressure is PROVED on sixteen boxes (density_monotone_r1_partial): every pressure 0..100 MPa for 0 <= t <= 230 degC; for five slabs between 230 and 250 degC from a limit (2.0, 2.5, 3.0, 3.0, 3.3 MPa) PROVED to lie below the saturation pressure on the whole slab (interval enclosure of sat) up to 100 MPa (pressure intervals chained); and for each 10-degree slab from 250 to 350 degC from a stated lower pressure (14.5 MPa at 250-260 ... 50 MPa at 340-350 degC) up to 100 MPa (termwise corner bounds of gamma_pi and of its difference quotient over the generated 34-row table, norm_num).  Hence for any two states the classifier puts in region 1 at t <= 250 degC the density is strictly larger at the higher pressure, with no box hypothesis (density_monotone_region1_partial; non-vacuity shown on concrete classified states at 100 and 248 degC).  In the conventional derivative form, the isothermal compressibility (1/rho)(d rho/d p)_T of the density cowat returns is PROVED positive (HasDerivAt) on fourteen region-1 boxes: 0..230 degC x 0..100 MPa, 230-240 from 4 MPa, 240-250 from 9.5 MPa and the same ten hot slabs (compressibility_pos_r1_partial).  NOT proved, sampled by the oracle only: density monotone in pressure in region 1 above 250 degC between the saturation pressure and the stated lower limits (the terms I=29..32 cancel there and termwise bounds fail even on tiny boxes), in the rest of region 2 and in region 3; agreement across region boundaries '
              'within the IAPWS-IF97 tolerances.  Tie: AST translator + bit-for-bit Float validation '
              '(16k requests / seed, 0 disagreements) + power_array vs hand model.')
LEVEL_NOTE = ('Trusted: Lean kernel (+propext, Classical.choice, Quot.sound); the translator for the step Float tree -> real tree (the same '
              'generated definition at two carriers; the Float one is compared bit for bit with CPython every run, visc to 1e-14 because of '
              'BLAS FMA in np.dot); IEEE rounding of the real code is not verified (theorems are over the reals; the oracle checks the '
              'doubles against the same tree in 70-digit arithmetic to 1e-10).  p = 0 and t < 0.01 degC are outside the property and not '
              'examined by the oracle.  Known finding: sat-tsat-inverse:critical-end.')
TECHNIQUE = ('Lean 4 proof over definitions generated from the Python source (AST translator) + bit-for-bit validation of the '
             'generated definitions over Float against CPython + finite-difference / boundary oracles on the real code')
ASSUMPTIONS = [
    'p = 0 exactly is outside the property (a vacuum is not a state of the formulation; supst divides by p): the oracle probes the '
    'smallest positive pressures instead; p = 0 stays in the bit-for-bit correspondence (ZeroDivisionError <-> non-finite model value)',
    'temperatures below 0.01 degC are outside the property: tsat(sat(t)) is None for 0 <= t < 7.3e-6 degC (sat accepts t >= 0) - recorded '
    'as an observation, not a violation',
    'IEEE-754 rounding of the real code is not verified: the theorems are about the same expression trees over the reals; '
    'the Float instance of those trees is compared bit for bit with CPython on every run',
    'np.dot (visc) goes through a BLAS kernel; its order on this platform (a chain of fused multiply-adds) is modelled with an exact '
    'integer-arithmetic FMA and visc is bit-identical here; a different BLAS build may sum differently, so 1e-14 relative is accepted',
]
TRUSTED_EXTRA = ['harness/translate/thermo.py for the step "Float tree -> real tree" (same generated definition, different carrier)',
                 'Lean Float.exp/sqrt/pow and CPython math call the same libm (checked by the bit-for-bit facet itself)']

TOL_INV = 1e-9          # inverse pairs, relative (temperatures relative to kelvin)
TOL_ID_DEC = 1e-10      # potential identity on the translated tree in Decimal
TOL_ID_FD = 1e-5        # potential identity by finite differences of the real code's doubles
TOL_TREE = 1e-10        # real doubles vs the translated tree in Decimal
TOL_V, TOL_H = 5e-4, 200.0   # IAPWS-IF97 consistency at region boundaries: 0.05 % in v, 0.2 kJ/kg in h
BAND = 1e-9             # states closer than this (relative) to a boundary curve are not classified
EVIDENCE_EXTRA = {'measured_reach': 'quick run under coverage (pinned tree): every statement and branch of IAPWS97.py power_array, cowat, supst, super, sat, tsat, visc, b23p, b23t, region executed (unexecuted: the two matplotlib plot helpers, outside the property)',
                  'tolerances': {'inverse_pairs_rel': TOL_INV, 'identity_decimal_rel': TOL_ID_DEC, 'identity_fd_rel': TOL_ID_FD,
                                 'double_vs_tree_rel': TOL_TREE, 'boundary_v_rel': TOL_V, 'boundary_h_J_per_kg': TOL_H,
                                 'classifier_exclusion_band_rel': BAND, 'visc_model_vs_impl_rel': 1e-14}}


# ------------------------------------------------------------------ helpers shared with C15

def bits(x):
    return struct.pack('>d', float(x)).hex()


def unbits(h):
    return struct.unpack('>d', bytes.fromhex(h))[0]


def canon(r):
    """canonical form of a value returned by the real code"""
    import numpy as np
    if r is None: return 'none'
    if isinstance(r, tuple):
        if len(r) == 2 and r[0] is None and r[1] is None: return 'nonepair'
        if len(r) == 2 and all(isinstance(x, (float, np.floating)) for x in r):
            return 'pair %s %s' % (bits(r[0]), bits(r[1]))
        if any(isinstance(x, complex) for x in r): return 'exc complex'
        return 'other ' + repr(r)
    if isinstance(r, (bool, np.bool_)): return 'true' if r else 'false'
    if isinstance(r, (int, np.integer)): return 'int %d' % r
    if isinstance(r, (float, np.floating)): return 'num ' + bits(r)
    if isinstance(r, complex): return 'exc complex'
    return 'other ' + repr(r)


def call(f, *a):
    try:
        with warnings.catch_warnings():
            warnings.simplefilter('ignore')
            return canon(f(*a))
    except (ZeroDivisionError, OverflowError, ValueError, TypeError) as e:
        return 'exc ' + type(e).__name__


def floats_of(c):
    w = c.split()
    if w[0] in ('num', 'pair'): return [unbits(x) for x in w[1:]]
    return []


def nonfinite(c):
    return any(not math.isfinite(x) for x in floats_of(c))


def same(impl, model, rel=0.0):
    """impl vs model canonical strings. An exception of the real code (ZeroDivisionError, math domain error,
    OverflowError, complex power) corresponds to a non-finite number in the Float model."""
    if impl == model: return True
    if impl.startswith('exc '): return nonfinite(model)
    if impl.split()[0] == model.split()[0]:
        a, b = floats_of(impl), floats_of(model)
        # the sign/payload of a NaN carries no meaning: any NaN equals any NaN
        return len(a) == len(b) and len(a) > 0 and all(
            (x != x and y != y) or (bits(x) == bits(y)) or (rel and abs(x - y) <= rel * abs(x)) for x, y in zip(a, b))
    return False


def nextafter(x, up):
    return math.nextafter(x, math.inf if up else -math.inf)


def load_real(name):
    """import the real module from core.REPO freshly (a mutated tree may be selected by PYTOUGH_REPO)"""
    import importlib
    if name in sys.modules:
        m = sys.modules[name]
        if getattr(m, '__file__', '') and str(core.REPO) in str(m.__file__):
            return importlib.reload(m)
        del sys.modules[name]
    return importlib.import_module(name)


# ------------------------------------------------------------------ independent reference boundaries (IAPWS-IF97 release)

_N4 = [0.11670521452767e4, -0.72421316703206e6, -0.17073846940092e2, 0.12020824702470e5, -0.32325550322333e7,
       0.14915108613530e2, -0.48232657361591e4, 0.40511340542057e6, -0.23855557567849, 0.65017534844798e3]
_N23 = [0.34805185628969e3, -0.11671859879975e1, 0.10192970039326e-2, 0.57254459862746e3, 0.13918839778870e2]
T0 = 273.15
TC_K, PC = 647.096, 22.064e6


def ref_psat(t):
    """IAPWS-IF97 eq. 30 (Pa; t in degC)"""
    T = t + T0
    th = T + _N4[8] / (T - _N4[9])
    A = th * th + _N4[0] * th + _N4[1]
    B = _N4[2] * th * th + _N4[3] * th + _N4[4]
    C = _N4[5] * th * th + _N4[6] * th + _N4[7]
    return 1e6 * (2 * C / (-B + math.sqrt(B * B - 4 * A * C))) ** 4


def ref_b23p(t):
    T = t + T0
    return 1e6 * (_N23[0] + _N23[1] * T + _N23[2] * T * T)


def ref_region(t, p):
    """region by the published validity domains; 'band' when within BAND of a boundary curve; None outside the box"""
    if not (0.01 <= t <= 800.0 and 0.0 <= p <= 100e6):
        return None
    if t <= 350.0:
        ps = ref_psat(t)
        if abs(p - ps) <= BAND * ps: return 'band'
        return 1 if p > ps else 2
    if t <= 590.0:
        pb = ref_b23p(t)
        if abs(p - pb) <= BAND * pb: return 'band'
        return 3 if p > pb else 2
    return 2


def ref_tsat(p):
    """temperature (degC) with ref_psat(t) = p, by bisection on the independent reference"""
    lo, hi = 0.0, TC_K - T0
    for _ in range(200):
        m = 0.5 * (lo + hi)
        if not (lo < m < hi): break
        if ref_psat(m) < p: lo = m
        else: hi = m
    return 0.5 * (lo + hi)


def ref_b23t(p):
    return _N23[3] + math.sqrt((p / 1e6 - _N23[4]) / _N23[2]) - T0


def neighbours(x):
    """x itself, 1, 2 and 4 ulps, and 1e-12, 1e-9, 1e-6 (relative) on both sides"""
    out = [x]
    for up in (True, False):
        y = x
        for k in range(4):
            y = nextafter(y, up)
            if k in (0, 1, 3): out.append(y)
    for r in (1e-12, 1e-9, 1e-6):
        out += [x * (1 + r), x * (1 - r)] if x != 0 else [r, -r]
    return out


# ------------------------------------------------------------------ density solvers on the real region-3 function

def solve_d(I, t, p, branch):
    """a density with super(d, t)[0] = p on the liquid-like ('l': scanning from 850 kg/m3 downwards) or vapour-like
    ('v': from 1 kg/m3 upwards) single-phase branch, by bracketing + bisection on the real code; None if the pressure
    stops being monotone along the scan before p is reached (spinodal) or p is not reached at all"""
    f = lambda d: float(need(I, 'super', d, t)[0]) - p
    if branch == 'l':
        cur, step, stop = 850.0, 0.985, 100.0
    else:
        cur, step, stop = 1.0, 1.015, 900.0
    fc = f(cur)
    if (fc < 0) == (branch == 'l'):            # liquid scan must start above p, vapour scan below
        return None
    while True:
        nxt = cur * step
        if (nxt < stop) if branch == 'l' else (nxt > stop): return None
        fn = f(nxt)
        if (fn <= 0) if branch == 'l' else (fn >= 0):
            break
        if (fn > fc) if branch == 'l' else (fn < fc): return None
        cur, fc = nxt, fn
    lo, hi = (nxt, cur) if branch == 'l' else (cur, nxt)
    for _ in range(70):
        mid = 0.5 * (lo + hi)
        if f(mid) > 0: hi = mid
        else: lo = mid
    return 0.5 * (lo + hi)


def sat_densities(I, t):
    """(rho_vapour, rho_liquid) at 350 <= t < tcritical from the real super/sat"""
    ps = float(need(I, 'sat', t))
    return solve_d(I, t, ps, 'v'), solve_d(I, t, ps, 'l')


# ------------------------------------------------------------------ the oracle: one function per clause, on one case

class NoValue(Exception):
    """a routine of the real code returned None / raised at a state where the clause needs its value"""
    def __init__(self, fn, args, why):
        Exception.__init__(self, '%s%r: %s' % (fn, tuple(args), why))
        self.fn, self.args_, self.why = fn, tuple(args), why


def need(mod, fn, *args):
    """the value of a routine of the real code; NoValue (-> a violation, not a crash) when it has none"""
    try:
        with warnings.catch_warnings():
            warnings.simplefilter('ignore')
            r = getattr(mod, fn)(*args)
    except (ZeroDivisionError, ValueError, OverflowError, TypeError) as e:
        raise NoValue(fn, args, 'raises ' + type(e).__name__)
    if r is None or (isinstance(r, tuple) and any(x is None for x in r)):
        raise NoValue(fn, args, 'returns %r' % (r,))
    if isinstance(r, tuple) and any(isinstance(x, complex) for x in r):
        raise NoValue(fn, args, 'returns a complex number')
    return r


def V(key, what, case):
    return dict(key=key, what=what, case=case)


def o_sat_tsat(I, c):
    """tsat(sat(t)) = t on the closed saturation interval [0.01, tcritical]"""
    t = c['t']
    where = ('critical-end' if I.tcritical - t < 1e-6 else 'triple-end' if t - 0.01 < 1e-6 else 'interior')
    p = I.sat(t)
    if p is None:
        return [V('sat-none:' + where, 'sat(%r) returns None inside the saturation interval' % t, c)]
    tt = I.tsat(p)
    if tt is None:
        return [V('sat-tsat-inverse:' + where, 'tsat(sat(%r)) is None: sat gives %r, outside tsat\'s accepted range' % (t, float(p)), c)]
    if not abs(tt - t) <= TOL_INV * (t + T0):
        return [V('sat-tsat-mismatch:' + where, 'tsat(sat(%r)) = %r' % (t, float(tt)), c)]
    return []


def o_tsat_sat(I, c):
    """sat(tsat(p)) = p for sat(0.01) <= p <= pcritical"""
    p = c['p']
    where = ('critical-end' if I.pcritical - p < 1.0 else 'triple-end' if p < 611.7 else 'interior')
    t = I.tsat(p)
    if t is None:
        return [V('tsat-none:' + where, 'tsat(%r) returns None inside the saturation interval' % p, c)]
    pp = I.sat(t)
    if pp is None:
        return [V('tsat-sat-inverse:' + where, 'sat(tsat(%r)) is None: tsat gives %r' % (p, float(t)), c)]
    if not abs(pp - p) <= TOL_INV * p:
        return [V('tsat-sat-mismatch:' + where, 'sat(tsat(%r)) = %r' % (p, float(pp)), c)]
    return []


def o_b23(I, c):
    out = []
    if 't' in c:
        t = c['t']
        tt = need(I, 'b23t', need(I, 'b23p', t))
        if not abs(tt - t) <= TOL_INV * (t + T0):
            out.append(V('b23-inverse:t', 'b23t(b23p(%r)) = %r' % (t, float(tt)), c))
    else:
        p = c['p']
        pp = need(I, 'b23p', need(I, 'b23t', p))
        if not abs(pp - p) <= TOL_INV * p:
            out.append(V('b23-inverse:p', 'b23p(b23t(%r)) = %r' % (p, float(pp)), c))
    return out


def _vh(I, fn, t, p):
    d, u = need(I, fn, t, p)
    v = 1 / d
    return v, u + p * v


def o_potential_fd(I, c):
    """(dh/dp)_T = v - T (dv/dT)_p  (regions 1, 2: Gibbs)  /  (du/drho)_T = (p - T (dp/dT)_rho) / rho^2  (region 3:
    Helmholtz) by central differences of the values the real code returns"""
    r = c['region']
    if r in (1, 2):
        f = 'cowat' if r == 1 else 'supst'
        t, p = c['t'], c['p']
        dp, dt = max(p * 1e-4, 1e-3), 0.01
        v, h = _vh(I, f, t, p)
        hp = (_vh(I, f, t, p + dp)[1] - _vh(I, f, t, p - dp)[1]) / (2 * dp)
        vT = (_vh(I, f, t + dt, p)[0] - _vh(I, f, t - dt, p)[0]) / (2 * dt)
        T = t + T0
        res = abs(hp - (v - T * vT)) / (abs(v) + abs(T * vT))
        what = '(dh/dp)_T = %r but v - T (dv/dT)_p = %r' % (float(hp), float(v - T * vT))
    else:
        d, t = c['d'], c['t']
        dd, dt = d * 1e-4, 0.01
        p, u = need(I, 'super', d, t)
        ud = (need(I, 'super', d + dd, t)[1] - need(I, 'super', d - dd, t)[1]) / (2 * dd)
        pT = (need(I, 'super', d, t + dt)[0] - need(I, 'super', d, t - dt)[0]) / (2 * dt)
        T = t + T0
        rhs = (p - T * pT) / (d * d)
        res = abs(ud - rhs) / ((abs(p) + abs(T * pT)) / (d * d))
        what = '(du/drho)_T = %r but (p - T (dp/dT)_rho)/rho^2 = %r' % (float(ud), float(rhs))
    if not res <= TOL_ID_FD:
        return [V('potential-identity:r%d' % r, 'region %d at %s: %s (relative residual %.3g)' % (
            r, {k: c[k] for k in c if k in 'tpd'}, what, res), c)]
    return []


def o_potential_tree(I, CD, c):
    """the same identities on the translated expression tree evaluated with 70 digits (differences with h = 1e-20),
    and agreement of the real code's doubles with that tree"""
    out = []
    r = c['region']
    with decimal.localcontext() as ctx:
        ctx.prec = 70
        TK = Decimal(float(I.tc_k))
        if r in (1, 2):
            fn = 'cowat' if r == 1 else 'supst'
            t, p = Decimal(c['t']), Decimal(c['p'])

            def vh(t, p):
                rr = CD(fn, t, p)
                if rr[0] != 'pair': raise NoValue(fn, (float(t), float(p)), 'has no value (translated tree)')
                v = 1 / rr[1]
                return v, rr[2] + p * v, rr
            dp, dt = p * Decimal('1e-20'), Decimal('1e-18')
            t, p = t - 2 * dt, p - 2 * dp            # stay inside the routine's guard at the range limits
            v, h, rr = vh(t, p)
            hp = (vh(t, p + dp)[1] - vh(t, p - dp)[1]) / (2 * dp)
            vT = (vh(t + dt, p)[0] - vh(t - dt, p)[0]) / (2 * dt)
            T = t + TK
            res = abs(hp - (v - T * vT)) / (abs(v) + abs(T * vT))
            real = need(I, 'cowat' if r == 1 else 'supst', c['t'], c['p'])
            scale_u = abs(rr[2]) + Decimal(461.526) * T
        else:
            d, t = Decimal(c['d']), Decimal(c['t'])

            def pu(d, t):
                rr = CD('super', d, t)
                return rr[1], rr[2], rr
            dd, dt = d * Decimal('1e-20'), Decimal('1e-18')
            p, u, rr = pu(d, t)
            ud = (pu(d + dd, t)[1] - pu(d - dd, t)[1]) / (2 * dd)
            pT = (pu(d, t + dt)[0] - pu(d, t - dt)[0]) / (2 * dt)
            T = t + TK
            res = abs(ud - (p - T * pT) / (d * d)) / ((abs(p) + abs(T * pT)) / (d * d))
            real = need(I, 'super', c['d'], c['t'])
            scale_u = abs(rr[2]) + Decimal(461.526) * T
        if not res <= Decimal(TOL_ID_DEC):
            out.append(V('potential-identity-exact:r%d' % r, 'region %d at %s: the two derivative sums are not the partial derivatives '
                         'of one potential (relative residual %.3g in 70-digit arithmetic)' % (r, {k: c[k] for k in c if k in 'tpd'}, res), c))
        e1 = abs(Decimal(float(real[0])) - rr[1]) / abs(rr[1])
        e2 = abs(Decimal(float(real[1])) - rr[2]) / scale_u
        if not (e1 <= Decimal(TOL_TREE) and e2 <= Decimal(TOL_TREE)):
            out.append(V('double-vs-exact:r%d' % r, 'region %d at %s: the doubles returned differ from the exact value of the same '
                         'expressions by %.3g / %.3g relative' % (r, {k: c[k] for k in c if k in 'tpd'}, e1, e2), c))
    return out


def o_monotone(I, c):
    r = c['region']
    if r in (1, 2):
        f = 'cowat' if r == 1 else 'supst'
        d1, d2 = need(I, f, c['t'], c['p1'])[0], need(I, f, c['t'], c['p2'])[0]
        if not d2 > d1:
            return [V('density-not-monotone:r%d' % r, 'region %d, t=%r: density %r at p=%r but %r at the higher p=%r' % (
                r, c['t'], float(d1), c['p1'], float(d2), c['p2']), c)]
    else:
        p1, p2 = need(I, 'super', c['d1'], c['t'])[0], need(I, 'super', c['d2'], c['t'])[0]
        if not p2 > p1:
            return [V('density-not-monotone:r3', 'region 3, t=%r: pressure %r at density %r but %r at the higher density %r' % (
                c['t'], float(p1), c['d1'], float(p2), c['d2']), c)]
    return []


def o_visc(I, c):
    try:
        mu = need(I, 'visc', c['d'], c['t'])
    except NoValue as e:
        where = ':critical-density' if c['d'] == float(I.dcritical) else ''
        return [V('viscosity-raises' + where, 'visc(%r, %r) %s' % (c['d'], c['t'], e.why), c)]
    if not (mu > 0 and math.isfinite(mu)):
        return [V('viscosity-not-positive', 'visc(%r, %r) = %r' % (c['d'], c['t'], float(mu)), c)]
    return []


def o_boundary(I, c):
    """agreement of (v, h) across the 1/3 boundary (350 degC) and the 2/3 boundary (B23 line)"""
    t, p = c['t'], c['p']
    if c['which'] == '13':
        a = need(I, 'cowat', t, p)
        d3 = solve_d(I, t, p, 'l')
    else:
        a = need(I, 'supst', t, p)
        d3 = solve_d(I, t, p, 'v')
    if d3 is None:
        return [V('boundary-no-density:' + c['which'], 'no region-3 density reproduces p=%r at t=%r' % (p, t), c)]
    u3 = need(I, 'super', d3, t)[1]
    va, ha = 1 / a[0], a[1] + p / a[0]
    v3, h3 = 1 / d3, u3 + p / d3
    if not (abs(va - v3) <= TOL_V * va and abs(ha - h3) <= TOL_H):
        return [V('boundary-consistency:' + c['which'], 'at t=%r p=%r the two regions give v = %r / %r, h = %r / %r' % (
            t, p, float(va), v3, float(ha), float(h3)), c)]
    return []


def o_region(I, c):
    t, p = c['t'], c['p']
    want = ref_region(t, p)
    if want == 'band':
        return 'band'
    got = I.region(t, p)
    if got != want:
        return [V('classifier:%s-for-%s' % (got, want), 'region(%r, %r) = %r, the state lies in %s' % (
            t, p, got, 'no region (outside 0.01..800 degC, 0..100 MPa)' if want is None else 'region %d' % want), c)]
    # the equation of the named region must be valid (return a finite value) there
    try:
        if got == 1:
            r = I.cowat(t, p)
        elif got == 2:
            r = I.supst(t, p)
        else:
            r = (1.0, 1.0)
    except ZeroDivisionError as e:
        if p == 0: return []          # p = 0 is outside the property
        return [V('classifier-equation-raises:r%s' % got, 'region(%r, %r) = %r but that region\'s routine raises '
                  'ZeroDivisionError' % (t, p, got), c)]
    if r is None or not all(math.isfinite(x) for x in r) or not r[0] > 0:
        return [V('classifier-equation-invalid:r%s' % got, 'region(%r, %r) = %r but that region\'s routine returns %r' % (t, p, got, r), c)]
    return []


def o_continuity(I, c):
    """inside a region a routine is continuous: the change of every returned value across [x(1-d), x(1+d)] must be
    comparable with its change over the two neighbouring intervals of the same width (d = 1e-9 relative)"""
    fn, args, k = c['fn'], list(c['args']), c['var']
    x, d = args[k], c.get('rel', 1e-9)
    vals = []
    for f in (1 - 3 * d, 1 - d, 1 + d, 1 + 3 * d):
        a = list(args); a[k] = x * f
        r = need(I, fn, *a)
        vals.append([float(v) for v in r] if isinstance(r, tuple) else [float(r)])
    out = []
    for j in range(len(vals[0])):
        v = [vals[i][j] for i in range(4)]
        if not all(math.isfinite(z) for z in v):
            out.append(V('discontinuity:%s' % fn, '%s%r: value %d is not finite next to %r' % (fn, tuple(args), j, x), c)); continue
        jump, smooth = abs(v[2] - v[1]), max(abs(v[1] - v[0]), abs(v[3] - v[2]))
        scale = max(abs(z) for z in v)
        if jump > 20 * smooth + 1e-10 * scale:
            out.append(V('discontinuity:%s' % fn, '%s jumps at argument %d = %r (other arguments %r): value %d goes %r -> %r across +-%g relative, '
                         'but changes by only %.3g over the neighbouring intervals' % (fn, k, x, [a for i, a in enumerate(args) if i != k], j, v[1], v[2], d, smooth), c))
    return out


CLAUSES = {'continuity': o_continuity, 'sat_tsat': o_sat_tsat, 'tsat_sat': o_tsat_sat, 'b23': o_b23, 'potential_fd': o_potential_fd,
           'monotone': o_monotone, 'visc': o_visc, 'boundary': o_boundary, 'region': o_region}


# ------------------------------------------------------------------ generators

VERIF_STATES = {  # the published verification states (region, args)
    'cowat': [(300 - T0, 3e6), (300 - T0, 80e6), (500 - T0, 3e6)],
    'supst': [(300 - T0, 0.0035e6), (700 - T0, 0.0035e6), (700 - T0, 30e6)],
    'super': [(500., 650 - T0), (200., 650 - T0), (500., 750 - T0)],
    'sat': [(300 - T0,), (500 - T0,), (600 - T0,)],
    'tsat': [(0.1e6,), (1e6,), (10e6,)],
    'visc': [(998., 298.15 - T0), (1200., 298.15 - T0), (1000., 373.15 - T0), (600., 873.15 - T0), (100., 1173.15 - T0),
             # exactly the critical density / temperature: bases of two power arrays are exactly zero (fixed defect 7cb2fd9)
             (322., 0.01), (322., 100.), (322., 373.946), (322., 800.), (500., 373.946), (322., 647.096 - T0)],
}


def grid(a, b, n):
    return [a + (b - a) * k / (n - 1) for k in range(n)]


def edge_values(x):
    return [nextafter(nextafter(x, False), False), nextafter(x, False), x, nextafter(x, True), nextafter(nextafter(x, True), True)]


def gen_correspondence(I, rng, n):
    """requests for the bit-for-bit facet: (function, args)"""
    out = []
    for fn, lst in VERIF_STATES.items():
        out += [(fn, a) for a in lst]
    tedges = [0.0, 0.01, 350.0, 590.0, 800.0, 1000.0, float(I.tcritical), -T0]
    pedges = [0.0, 611.213, float(I.pcritical), 100e6, 16.53e6 * 7.1, 1e6 * 13.91883977887]
    tvals = [v for e in tedges for v in edge_values(e)]
    pvals = [v for e in pedges for v in edge_values(e)]
    for t in tvals:
        for p in [1e5, 20e6, 100e6] + [rng.choice(pvals)]:
            out += [('cowat', (t, p)), ('supst', (t, p)), ('region', (t, p)), ('sat', (t,)), ('b23p', (t,)), ('visc', (500., t)),
                    ('super', (400., t))]
    for p in pvals:
        for t in [20., 350., 373., 600.] + [rng.choice(tvals)]:
            out += [('cowat', (t, p)), ('supst', (t, p)), ('region', (t, p)), ('tsat', (p,)), ('b23t', (p,))]
    # straddling the boundary curves
    for t in grid(0.01, 350., 25):
        ps = ref_psat(t)
        for p in edge_values(ps) + [ps * (1 - 1e-6), ps * (1 + 1e-6)]:
            out += [('region', (t, p)), ('cowat', (t, p)), ('supst', (t, p))]
    for t in grid(350., 590., 25):
        pb = ref_b23p(t)
        for p in edge_values(pb) + [pb * (1 - 1e-6), pb * (1 + 1e-6)]:
            out += [('region', (t, p)), ('supst', (t, p))]
    for _ in range(n):
        m = rng.random()
        if m < 0.7:
            t = rng.uniform(-5., 1010.)
        else:
            t = rng.choice([rng.uniform(340, 380), rng.uniform(0, 1), rng.uniform(585, 595), rng.uniform(795, 805)])
        m = rng.random()
        if m < 0.45: p = rng.uniform(0., 101e6)
        elif m < 0.9: p = 10 ** rng.uniform(0, 8.01)
        else: p = rng.uniform(-1e6, 120e6)
        d = rng.choice([rng.uniform(0.01, 1100.), 10 ** rng.uniform(-3, 3.05), rng.uniform(-10, 10)])
        out += [('cowat', (t, p)), ('supst', (t, p)), ('super', (d, t)), ('sat', (t,)), ('tsat', (p,)), ('visc', (d, t)),
                ('b23p', (t,)), ('b23t', (p,)), ('region', (t, p))]
    return out


def random_chain(rng):
    """a power chain for power_array: mostly well formed, sometimes reading undefined entries or aliasing its target"""
    npos, nneg = rng.randint(1, 12), rng.randint(1, 12)
    defined = [0, 1, -1]
    ch = []
    sloppy = rng.random() < 0.3
    for _ in range(rng.randint(1, 14)):
        nops = rng.choice([2, 2, 2, 3, 1])
        if sloppy and rng.random() < 0.3:
            ops = [rng.randint(-nneg, npos) for _ in range(nops)]
            tgt = rng.randint(-nneg, npos)
        else:
            sign = rng.choice([1, -1])
            pool = [x for x in defined if x * sign > 0] or [sign]
            ops = [rng.choice(pool) for _ in range(nops)]
            tgt = sum(ops)
            if not (-nneg <= tgt <= npos) or tgt in defined: continue
        ch.append((tgt, tuple(ops)))
        if tgt not in defined: defined.append(tgt)
    if not any(c[0] > 0 for c in ch):
        ch.append((2, (1, 1)))
    # Python raises IndexError for an index outside the array, whose size follows from the targets: keep all indices inside
    hi, lo = max(c[0] for c in ch), min([c[0] for c in ch] + [-1])
    ch = [(t, tuple(o for o in ops if lo <= o <= hi) or (1,)) for t, ops in ch]
    return tuple(ch)


def chain_text(ch):
    return ';'.join('%d:%s' % (t, ','.join(str(o) for o in ops)) for t, ops in ch)


def region3_state(I, rng, satd):
    """a single-phase state (d, t) of region 3: 350 < t <= 590, b23p(t) < p <= 100 MPa, outside the saturation dome"""
    for _ in range(200):
        t = rng.choice([rng.uniform(350.0, 590.0), rng.uniform(350.0, 380.0), rng.uniform(350.0, float(I.tcritical))])
        d = rng.uniform(90.0, 770.0)
        p = float(need(I, 'super', d, t)[0])
        if not (float(need(I, 'b23p', t)) < p <= 100e6): continue
        if t < I.tcritical:
            key = math.floor(t * 10) / 10        # the dome at a lower temperature contains the dome at t
            tl = min(key, float(I.tcritical) - 1e-3)
            if key not in satd:
                satd[key] = sat_densities(I, max(tl, 350.0))
            dv, dl = satd[key]
            if dv is None or dl is None: continue
            # the dome at the (slightly lower) tabulated temperature contains the dome at t
            if dv * 0.97 < d < dl * 1.03: continue
        return d, t
    return None


# ------------------------------------------------------------------ translate + run

def translate(ctx):
    """regenerate the Lean definitions from the current source; raises TranslateError on anything outside the subset"""
    changed = thermo.generate(core.REPO, core.LEAN, which=('iapws',))
    if changed:
        ctx.notes.append('regenerated ' + ', '.join(changed))



def run(ctx, scale=1.0, oracle_only=False):
    I = load_real('IAPWS97')
    res = Result()
    res.rule = ('bit-for-bit facet: distinct (function, argument) requests on which the real routine returns a value (inside its '
                'guard); states = verification states of the release + every range limit and boundary curve +-2 ulp and +-1e-6 + '
                'uniform/log-uniform states over -5..1010 degC x -1..120 MPa; oracle cases are counted per clause in input_distribution')
    rng = ctx.rng('iapws')
    # ---------------- correspondence (translator validation) ----------------
    if not oracle_only:
        reqs = gen_correspondence(I, rng, int(ctx.n(1500, 40000) * scale))
        f1 = res.facet('iapws_bits')
        impl = []
        for fn, args in reqs:
            c = call(getattr(I, fn), *args)
            impl.append(c)
            res.evaluations += 1
            res.count('call:%s:%s' % (fn, c.split()[0] if not c.startswith('exc') else c.replace(' ', '-')))
            if c.split()[0] in ('num', 'pair', 'int'):
                res.distinct.add((fn,) + tuple(args))
        chains = []
        for nm in dir(I):
            v = getattr(I, nm)
            if isinstance(v, tuple) and v and all(isinstance(x, tuple) and len(x) == 2 and isinstance(x[1], tuple) for x in v):
                chains.append((nm, v))
        preqs = []
        for nm, ch in chains:
            for v in [0.5, 2.0, -1.5, 1.0, 7.1 - 3e6 / 16.53e6, 1e-3, 3.0, 0.0, -0.0, rng.uniform(0.1, 5), -rng.uniform(0.1, 5)]:
                preqs.append((nm, ch, v))
        for k in range(int(ctx.n(300, 5000) * scale)):
            preqs.append(('random', random_chain(rng), rng.choice([rng.uniform(-3, 3), 10 ** rng.uniform(-2, 2), 1.0, -1.0])))
        pimpl = []
        for nm, ch, v in preqs:
            try:
                with warnings.catch_warnings():
                    warnings.simplefilter('ignore')
                    pimpl.append(' '.join(bits(x) for x in I.power_array(v, ch)))
            except (ZeroDivisionError, IndexError, ValueError) as e:
                pimpl.append('exc ' + type(e).__name__)
            res.evaluations += 1
        if ctx.model_ok:
            lines = ['%s %s' % (fn, ' '.join(bits(a) for a in args)) for fn, args in reqs]
            lines += ['parr %s %s' % (bits(v), chain_text(ch)) for nm, ch, v in preqs]
            lines += ['chainwf %s' % chain_text(ch) for nm, ch, v in preqs]
            out = core.run_driver('drv_c14', lines)
            nb = 0
            nv = [0, 0]
            for k, ((fn, args), a, b) in enumerate(zip(reqs, impl, out)):
                f1['cases'] += 1
                # visc: np.dot is modelled by the fused multiply-add chain of the BLAS kernel found on this platform and
                # is normally bit-identical too; another BLAS build may sum differently, so 1e-14 is still accepted
                ok = same(a, b, rel=1e-14 if fn == 'visc' else 0.0)
                if fn == 'visc' and a.startswith('num'):
                    nv[1] += 1; nv[0] += (a == b)
                if a == b: nb += 1
                if not ok:
                    f1['disagreements'] += 1
                    res.disagreements.append(dict(facet='iapws_bits', case={'fn': fn, 'args': [repr(float(x)) for x in args]}, model=b, impl=a))
                if k % 2003 == 0:
                    res.sample({'fn': fn, 'args': [float(x) for x in args], 'impl': a, 'model': b})
            f1['bit_identical'] = nb
            f1['visc_bit_identical'] = '%d of %d' % tuple(nv)
            # the exact fused multiply-add of the Float instance vs correctly rounded rational arithmetic
            from fractions import Fraction
            f4 = res.facet('fma_exact')
            fr = ctx.rng('fma')
            tri = []
            for _ in range(ctx.n(3000, 60000)):
                m = fr.random()
                g = lambda: (fr.uniform(-10, 10) if m < 0.5 else fr.uniform(-1, 1) * 10 ** fr.uniform(-300, 290) if m < 0.8 else unbits('%016x' % fr.getrandbits(64)))
                a_, b_, c_ = g(), g(), g()
                if fr.random() < 0.3: c_ = -(a_ * b_) * (1 + fr.choice([0, 1e-16, -2e-16, 1e-10]))
                if all(math.isfinite(z) for z in (a_, b_, c_)): tri.append((a_, b_, c_))
            fo = core.run_driver('drv_c14', ['fma %s %s %s' % (bits(a_), bits(b_), bits(c_)) for a_, b_, c_ in tri])
            for (a_, b_, c_), o in zip(tri, fo):
                ex = Fraction(a_) * Fraction(b_) + Fraction(c_)
                try:
                    w = float(ex) if ex != 0 else a_ * b_ + c_
                except OverflowError:
                    w = math.inf if ex > 0 else -math.inf
                f4['cases'] += 1
                if bits(w) != o:
                    f4['disagreements'] += 1
                    res.disagreements.append(dict(facet='fma_exact', case={'a': repr(a_), 'b': repr(b_), 'c': repr(c_)}, model=o, impl=bits(w)))
            f2 = res.facet('power_array')
            po = out[len(reqs):len(reqs) + len(preqs)]
            wf = out[len(reqs) + len(preqs):]
            nwf = 0
            for (nm, ch, v), a, b, w in zip(preqs, pimpl, po, wf):
                f2['cases'] += 1
                if w == 'true': nwf += 1
                if a.startswith('exc'):
                    okk = False          # power_array raises on no input of this stream (a zero base gives p[-1] = inf)
                else:
                    okk = same('pair ' + a, 'pair ' + b)
                if not okk:
                    f2['disagreements'] += 1
                    res.disagreements.append(dict(facet='power_array', case={'chain': chain_text(ch), 'value': repr(v)}, model=b, impl=a))
                if nm != 'random' and w != 'true':
                    f2['disagreements'] += 1
                    res.disagreements.append(dict(facet='power_array', case={'chain': nm}, model='chainWF false', impl='module chain'))
            res.hyp['chainWF (hypothesis of power_array_eq_zpow) on the chains fed to power_array'] = [nwf, len(preqs)]
            # concrete Float witness of the critical-end failure of the inverse (known finding), model and real code
            f3 = res.facet('critical_end_witness')
            tcv = float(I.tcritical)
            w1 = call(I.sat, tcv)
            wl = ['sat ' + bits(tcv)]
            if w1.startswith('num'):
                wl.append('tsat ' + w1.split()[1])
            wo = core.run_driver('drv_c14', wl)
            wi = [w1] + ([call(I.tsat, unbits(w1.split()[1]))] if len(wl) > 1 else [])
            for a, b in zip(wi, wo):
                f3['cases'] += 1
                if not same(a, b):
                    f3['disagreements'] += 1
                    res.disagreements.append(dict(facet='critical_end_witness', case={'t': tcv}, model=b, impl=a))
            if len(wo) > 1:
                res.sample({'witness': 'critical end', 't': tcv, 'model sat(tcritical)': unbits(wo[0].split()[1]) if wo[0].startswith('num') else wo[0],
                            'pcritical': float(I.pcritical), 'model tsat(sat(tcritical))': wo[1], 'impl tsat(sat(tcritical))': wi[1]}, cap=12)
    # ---------------- oracle ----------------
    oracle(ctx, I, res, rng, scale)
    return res


def oracle(ctx, I, res, rng, scale=1.0):
    n = lambda q, t: max(3, int(ctx.n(q, t) * scale))
    tc = float(I.tcritical)

    def apply(name, c, fn=None):
        c = dict(c, clause=name)
        try:
            r = (fn or CLAUSES[name])(I, c)
        except NoValue as e:
            r = [V('no-value:%s:%s' % (name, e.fn), '%s %s at a state where clause %s needs its value (%s)' % (
                '%s%r' % (e.fn, e.args_), e.why, name, {k: v for k, v in c.items() if k != 'clause'}), c)]
        res.evaluations += 1
        res.count('oracle:' + name)
        if r == 'band':
            res.unstable += 1
            return
        res.violations += r

    # inverse pairs, both end points included
    ts = grid(0.01, tc, n(400, 20000)) + [0.01, tc, nextafter(tc, False), nextafter(0.01, True)] + \
        [rng.uniform(0.01, tc) for _ in range(n(200, 5000))] + [tc - 10 ** -k for k in range(1, 10)]
    hyp_branch, hyp_guard = [0, 0], [0, 0]
    for t in ts:
        apply('sat_tsat', {'t': t})
        # hypotheses of sat_tsat_inverse_partial evaluated (in double arithmetic) on this t
        try:
            n4 = [float(x) for x in I.nr4]
            T = t + float(I.tc_k)
            th = T + n4[8] / (T - n4[9])
            A = th * th + n4[0] * th + n4[1]
            B = n4[2] * th * th + n4[3] * th + n4[4]
            C = n4[5] * th * th + n4[6] * th + n4[7]
            disc = B * B - 4 * A * C
            den = -B + math.sqrt(disc) if disc >= 0 else float('nan')
            beta = 2 * C / den if den else float('nan')
            E = beta * beta + n4[2] * beta + n4[5]
            F = n4[0] * beta * beta + n4[3] * beta + n4[6]
            okb = disc >= 0 and den != 0 and beta >= 0 and 2 * E * th + F >= 0 and E * th + F != 0
            pv = float(I.pstar4) * beta ** 4
            okg = 611.213 <= pv <= float(I.pcritical)
        except Exception:
            okb = okg = False
        hyp_branch[1] += 1; hyp_guard[1] += 1
        hyp_branch[0] += bool(okb); hyp_guard[0] += bool(okg)
    res.hyp['sat_tsat_inverse_partial: branch conditions hΔ hD hβ hbr hne (saturation temperatures explored)'] = hyp_branch
    res.hyp['sat_tsat_inverse_partial: hg, tsat accepts sat(t) (false only at the critical end: the known finding)'] = hyp_guard
    plo, phi = ref_psat(0.01) * (1 + 1e-12), float(I.pcritical)
    ps = [plo * (phi / plo) ** (k / (n(400, 20000) - 1)) for k in range(n(400, 20000))]
    ps = [min(max(p, plo), phi) for p in ps] + [plo, phi, nextafter(phi, False)] + [rng.uniform(plo, phi) for _ in range(n(200, 5000))]
    for p in ps:
        apply('tsat_sat', {'p': p})
    # probe below the property's temperature range (not an oracle clause): sat accepts 0 <= t
    try:
        lowp = I.sat(0.0)
        low_none = lowp is not None and I.tsat(lowp) is None
    except Exception:
        low_none = False
    if low_none:
        res.count('observation: tsat(sat(0.0)) is None (t = 0.0 is accepted by sat but below the 0.01 degC of the property)')
    for t in grid(350., 590., n(300, 10000)) + [rng.uniform(350., 590.) for _ in range(n(100, 3000))]:
        apply('b23', {'t': t})
    p0, p1 = ref_b23p(350.), ref_b23p(590.)
    for p in grid(p0, p1, n(300, 10000)) + [rng.uniform(p0, p1) for _ in range(n(100, 3000))]:
        apply('b23', {'p': p})

    # states of the three regions, up to their boundaries
    CD = None
    try:
        MI, _ = thermo.modules(core.REPO)
        CD = thermo.Compiled(MI, thermo.DecimalBackend())
    except Exception as e:
        ctx.notes.append('Decimal reference tree unavailable (translator failed): %s' % (str(e)[:200],))
    satd = {}
    states = []
    N = n(250, 6000)
    for k in range(N):
        # region 1
        t = rng.choice([rng.uniform(0.01, 350.), rng.uniform(300., 350.), 350., 0.01]) if k % 10 else rng.uniform(0.01, 350.)
        psat = ref_psat(t) * (1 + 1e-9)
        p = rng.choice([rng.uniform(psat, 100e6), psat, 100e6, psat * (1 + 10 ** rng.uniform(-6, 0))])
        p = min(p, 100e6)
        states.append({'region': 1, 't': t, 'p': p})
        # region 2
        t = rng.choice([rng.uniform(0.01, 800.), rng.uniform(340., 600.), 800., 0.01, 350., 590.])
        pmax = ref_psat(t) * (1 - 1e-9) if t <= 350. else (ref_b23p(t) * (1 - 1e-9) if t <= 590. else 100e6)
        pmax = min(pmax, 100e6)
        p = rng.choice([rng.uniform(0, 1) * pmax, 10 ** rng.uniform(0, math.log10(pmax)), pmax, pmax * (1 - 10 ** rng.uniform(-6, 0))])
        p = max(p, 1.0)
        states.append({'region': 2, 't': t, 'p': p})
        # region 3
        try:
            s = region3_state(I, rng, satd)
        except NoValue as e:
            s = None
            res.violations.append(V('no-value:region3-state:%s' % e.fn, '%s%r %s while looking for a single-phase state of region 3' % (
                e.fn, e.args_, e.why), {'clause': 'need', 'fn': e.fn, 'args': list(e.args_)}))
        if s: states.append({'region': 3, 'd': s[0], 't': s[1]})
    for c in states:
        res.count('state:region%d' % c['region'])
        r = c['region']
        # finite differences of the real code need room on both sides: keep a small margin from the range limits
        if r == 1:
            inner = c['t'] + 0.011 <= 350. and c['t'] - 0.011 >= 0. and c['p'] * (1 + 1.1e-4) <= 100e6
        elif r == 2:
            inner = c['t'] + 0.011 <= 800. and c['p'] * (1 + 1.1e-4) <= 100e6
        else:
            inner = True
        if inner:
            apply('potential_fd', c)
        if CD is not None:
            apply('potential_tree', c, lambda I_, cc: o_potential_tree(I_, CD, cc))
        # viscosity at this state
        if r == 3:
            d = c['d']
        else:
            try:
                d = float(need(I, 'cowat' if r == 1 else 'supst', c['t'], c['p'])[0])
            except NoValue:
                d = None          # already reported by the potential clauses
        if d is not None: apply('visc', {'d': d, 't': c['t']})
        # monotone density: a second state of the same region at the same temperature
        if r == 1:
            psat = ref_psat(c['t']) * (1 + 1e-9)
            p2 = rng.uniform(psat, 100e6)
            lo, hi = sorted([c['p'], p2])
            if hi - lo > 1e-6 * hi: apply('monotone', {'region': 1, 't': c['t'], 'p1': lo, 'p2': hi})
        elif r == 2:
            t = c['t']
            pmax = ref_psat(t) * (1 - 1e-9) if t <= 350. else (ref_b23p(t) * (1 - 1e-9) if t <= 590. else 100e6)
            p2 = max(rng.uniform(0, 1) * min(pmax, 100e6), 1.0)
            lo, hi = sorted([c['p'], p2])
            if hi - lo > 1e-6 * hi: apply('monotone', {'region': 2, 't': t, 'p1': lo, 'p2': hi})
        else:
            t, d = c['t'], c['d']
            d2 = d * (1 + rng.choice([1, -1]) * 10 ** rng.uniform(-4, -1.5))
            lo, hi = sorted([d, d2])
            # both in the single-phase part: the second one must pass the same test as the first
            try:
                ok = float(need(I, 'b23p', t)) < float(need(I, 'super', d2, t)[0]) <= 100e6
            except NoValue:
                ok = False
            if ok and t < tc:
                dv, dl = satd[math.floor(t * 10) / 10]
                ok = not (dv * 0.97 < d2 < dl * 1.03) and ((d2 > dl) == (d > dl))
            if ok: apply('monotone', {'region': 3, 't': t, 'd1': lo, 'd2': hi})
    # viscosity over the whole (d, t) rectangle as well, and exactly on the critical isochore / isotherm
    for t in [0.01, 100., 373.946, float(I.tcritical), 500., 800.] + [rng.uniform(0.01, 800.) for _ in range(4)]:
        apply('visc', {'d': float(I.dcritical), 't': t})
    for d in [1e-3, 1., 322., 1000.]:
        apply('visc', {'d': d, 't': float(I.tcriticalk) - float(I.tc_k)})
    for _ in range(n(500, 20000)):
        apply('visc', {'d': rng.choice([rng.uniform(1e-3, 1100.), 10 ** rng.uniform(-4, 3.04)]), 't': rng.uniform(0.01, 800.)})
    # boundary consistency
    ps350 = ref_psat(350.) * (1 + 1e-9)
    for p in grid(ps350, 100e6, n(40, 1500)) + [rng.uniform(ps350, 100e6) for _ in range(n(20, 500))]:
        apply('boundary', {'which': '13', 't': 350., 'p': p})
    for t in grid(350., 590., n(40, 1500)) + [rng.uniform(350., 590.) for _ in range(n(20, 500))]:
        p = min(float(ref_b23p(t)), 100e6)
        apply('boundary', {'which': '23', 't': t, 'p': p})
    # classifier: grid + random + straddling every boundary
    cases = []
    for t in grid(0.01, 800., n(40, 400)):
        for p in grid(1.0, 100e6, n(25, 250)):
            cases.append((t, p))
    for _ in range(n(1500, 60000)):
        cases.append((rng.uniform(-2., 805.), rng.choice([rng.uniform(1., 101e6), 10 ** rng.uniform(0, 8.01)])))
    tedge = [v for e in (0.01, 350., 590., 800.) for v in edge_values(e)]
    # p = 0 itself is outside the property (a vacuum is not a state of the formulation): small positive values (down to 1e-9 Pa) instead
    pedge = edge_values(100e6) + [1.0, 1e-3, 1e-9, -1.0, -1e-9]
    for t in tedge:
        for p in pedge + [1e5, 17e6, 30e6, 99e6] + [rng.uniform(1., 100e6) for _ in range(5)]:
            cases.append((t, p))
    for p in pedge:
        for t in [5., 200., 349., 351., 400., 589., 591., 700.] + [rng.uniform(0.01, 800.) for _ in range(5)]:
            cases.append((t, p))
    for t in grid(0.01, 350., n(60, 2000)) + edge_values(350.)[:3]:
        if t < 0.01: continue
        ps_ = ref_psat(t)
        for f in (1 - 1e-3, 1 - 1e-6, 1 - 3e-9, 1 - 1e-12, 1 + 1e-12, 1 + 3e-9, 1 + 1e-6, 1 + 1e-3):
            cases.append((t, ps_ * f))
    for t in grid(350., 590., n(60, 2000))[1:]:
        pb = ref_b23p(t)
        for f in (1 - 1e-3, 1 - 1e-6, 1 - 3e-9, 1 - 1e-12, 1 + 1e-12, 1 + 3e-9, 1 + 1e-6, 1 + 1e-3):
            cases.append((t, pb * f))
    for t, p in cases:
        apply('region', {'t': t, 'p': p})
    res.hyp['single_potential_r1/r2/r3: bases of the power arrays non-zero (oracle states of the three regions)'] = [len(states), len(states)]
    singular_stage(ctx, I, res, rng, apply, CD, n)


FNS14 = ['cowat', 'supst', 'super', 'sat', 'tsat', 'visc', 'b23p', 'b23t', 'region']


def singular_stage(ctx, I, res, rng, apply, CD, n):
    """singularity-directed search.  Every denominator, square-root argument, power_array base and comparison of the
    translated routines (or, when the source can no longer be translated, every comparison against a numeric constant
    found in the real functions' AST and evaluated in the running frame) is followed along lines through the routine's
    domain; at every root (sign change / zero / isolated near-zero) the property clauses are evaluated at the root, a
    few ulps and 1e-12, 1e-9, 1e-6 relative around it, at the pre-image through the partner function for the inverse
    pairs, and the routine is tested for a jump across the root."""
    try:
        MI, _ = thermo.modules(core.REPO)
        P, mode = thermo.Prober(MI), 'translated-tree'
    except Exception as e:
        P, mode = thermo.TraceProber(I, core.REPO / 'IAPWS97.py', FNS14), 'real-code-comparisons'
        ctx.notes.append('singularity stage falls back to comparisons traced in the real code (translator failed)')
    tc = float(TC_K - T0)
    N = n(160, 500) if mode == 'translated-tree' else n(60, 200)
    plo = ref_psat(0.01) * (1 + 1e-12)
    lines = [('sat', lambda x: (x,), 0, 0.01, tc, False), ('tsat', lambda x: (x,), 0, plo, PC, True),
             ('b23p', lambda x: (x,), 0, 350., 590., False), ('b23t', lambda x: (x,), 0, ref_b23p(350.), 100e6, False)]
    tl = [0.01, 60., 150., 250., 330., 350.] + [rng.uniform(0.01, 350.) for _ in range(2)]
    for t in tl:
        lines.append(('cowat', (lambda t_: lambda x: (t_, x))(t), 1, ref_psat(t) * (1 + 1e-9), 100e6, True))
    for p in [1e5, 1e6, 1e7, 5e7, 100e6] + [10 ** rng.uniform(5, 8)]:
        thi = 350. if p >= ref_psat(350.) else ref_tsat(p) * (1 - 1e-9)
        if thi > 0.02: lines.append(('cowat', (lambda p_: lambda x: (x, p_))(p), 0, 0.01, thi, False))
    for t in [0.01, 100., 300., 350., 450., 590., 700., 800.] + [rng.uniform(0.01, 800.) for _ in range(2)]:
        pmax = ref_psat(t) * (1 - 1e-9) if t <= 350. else (min(ref_b23p(t) * (1 - 1e-9), 100e6) if t <= 590. else 100e6)
        lines.append(('supst', (lambda t_: lambda x: (t_, x))(t), 1, 1.0, pmax, True))
    for p in [1.0, 1e3, 1e5, 1e6, 1e7, 5e7, 100e6] + [10 ** rng.uniform(0, 8)]:
        tlo = ref_tsat(p) * (1 + 1e-9) if p < ref_psat(350.) else (ref_b23t(p) * (1 + 1e-9) if p < ref_b23p(590.) else 590.0001)
        lines.append(('supst', (lambda p_: lambda x: (x, p_))(p), 0, max(tlo, 0.01), 800., False))
    for t in [375., 400., 500., 590.] + [rng.uniform(374., 590.)]:
        lines.append(('super', (lambda t_: lambda x: (x, t_))(t), 0, 50., 800., False))
    for d in [150., 322., 500., 700.] + [rng.uniform(100., 750.)]:
        lines.append(('super', (lambda d_: lambda x: (d_, x))(d), 1, 374., 590., False))
    for d in [1e-3, 1., 322., 1000.]:
        lines.append(('visc', (lambda d_: lambda x: (d_, x))(d), 1, 0.01, 800., False))
    for t in [0.01, 373.946, 800.]:
        lines.append(('visc', (lambda t_: lambda x: (x, t_))(t), 0, 1e-3, 1100., True))
    for t in [0.01, 100., 349., 351., 500., 600., 800.]:
        lines.append(('region', (lambda t_: lambda x: (t_, x))(t), 1, 1e-3, 101e6, True))
    for p in [1.0, 1e5, 1e7, 2e7, 5e7, 100e6]:
        lines.append(('region', (lambda p_: lambda x: (x, p_))(p), 0, 0.001, 801., False))

    def single_phase3(d, t):
        try:
            p = float(need(I, 'super', d, t)[0])
        except NoValue:
            return False
        return t >= tc + 0.01 and t <= 590. and ref_b23p(t) * (1 + 1e-9) < p <= 100e6

    def inside(fn, a):
        """is the state inside the region of this routine (independent reference)?"""
        if fn == 'cowat': return a[1] > 0 and ref_region(a[0], a[1]) == 1
        if fn == 'supst': return a[1] > 0 and ref_region(a[0], a[1]) == 2
        if fn == 'super': return a[0] > 0 and single_phase3(a[0], a[1])
        if fn == 'visc': return 0.01 <= a[1] <= 800. and 0 < a[0] <= 1100.
        if fn == 'sat': return 0.01 <= a[0] <= tc
        if fn == 'tsat': return plo <= a[0] <= PC
        if fn == 'b23p': return 350. <= a[0] <= 590.
        if fn == 'b23t': return ref_b23p(350.) <= a[0] <= ref_b23p(590.)
        return True

    def at_point(fn, a):
        if fn == 'region':
            apply('region', {'t': a[0], 'p': a[1]}); return
        if not inside(fn, a): return
        if fn == 'sat':
            apply('sat_tsat', {'t': a[0]})
        elif fn == 'tsat':
            apply('tsat_sat', {'p': a[0]})
        elif fn in ('b23p', 'b23t'):
            apply('b23', {'t': a[0]} if fn == 'b23p' else {'p': a[0]})
        elif fn in ('cowat', 'supst'):
            c = {'region': 1 if fn == 'cowat' else 2, 't': a[0], 'p': a[1]}
            if CD is not None: apply('potential_tree', c, lambda I_, cc: o_potential_tree(I_, CD, cc))
            else: apply('finite', {'fn': fn, 'args': list(a)}, o_finite)
            apply('region', {'t': a[0], 'p': a[1]})
        elif fn == 'super':
            c = {'region': 3, 'd': a[0], 't': a[1]}
            if CD is not None: apply('potential_tree', c, lambda I_, cc: o_potential_tree(I_, CD, cc))
            else: apply('finite', {'fn': fn, 'args': list(a)}, o_finite)
        elif fn == 'visc':
            apply('visc', {'d': a[0], 't': a[1]})

    seen = set()
    for fn, mk, var, lo, hi, log in lines:
        if not lo < hi: continue
        for key, x, kind in thermo.find_roots(P, fn, mk, lo, hi, n=N, log=log):
            tag = (fn, key, repr(x))
            if tag in seen: continue
            seen.add(tag)
            res.count('singular-point:%s:%s:%s' % (mode, key.split('#')[0].split('@')[0], kind))
            res.sample({'singular point': P.describe(key), 'at': list(mk(x)), 'kind': kind}, cap=14)
            for xn in neighbours(x):
                at_point(fn, mk(xn))
            # the pre-image through the partner function, for the inverse pairs
            if fn == 'tsat' and plo <= x <= PC:
                for tn in neighbours(ref_tsat(x)): at_point('sat', (tn,))
            if fn == 'sat' and 0.01 <= x <= tc:
                for pn in neighbours(ref_psat(x)): at_point('tsat', (pn,))
            if fn == 'b23t' and ref_b23p(350.) <= x <= ref_b23p(590.):
                for tn in neighbours(ref_b23t(x)): at_point('b23p', (tn,))
            if fn == 'b23p' and 350. <= x <= 590.:
                for pn in neighbours(ref_b23p(x)): at_point('b23t', (pn,))
            # a jump across the root (only where all four evaluation points lie inside the routine's region)
            if fn != 'region' and x != 0:
                a0 = list(mk(x))
                pts = []
                for f in (1 - 3e-9, 1 - 1e-9, 1 + 1e-9, 1 + 3e-9):
                    b = list(a0); b[var] = x * f; pts.append(b)
                if all(inside(fn, b) for b in pts):
                    apply('continuity', {'fn': fn, 'args': a0, 'var': var})


def o_finite(I, c):
    r = need(I, c['fn'], *c['args'])
    vals = r if isinstance(r, tuple) else (r,)
    if not all(math.isfinite(float(v)) for v in vals):
        return [V('not-finite:%s' % c['fn'], '%s%r = %r' % (c['fn'], tuple(c['args']), r), c)]
    return []


def search(ctx, seconds, res):
    found = list(res.violations)
    t0 = time.time()
    k = 0
    while not found and time.time() - t0 < seconds:
        k += 1
        c2 = core.Ctx(ctx.prop, ctx.tier, ctx.seed + 1000 * k)
        c2.model_ok = False
        try:
            r = run(c2, scale=1.0, oracle_only=True)
        finally:
            c2.cleanup()
        found = r.violations
    return found


def replay(ctx, payload):
    I = load_real('IAPWS97')
    c = payload.get('case') or {}
    name = c.get('clause')
    if not name:
        return False, 'replay file names what no longer checks: %s' % payload.get('broken')
    try:
        if name == 'finite':
            r = o_finite(I, c)
        elif name == 'need':
            need(I, c['fn'], *c['args']); r = []
        elif name == 'potential_tree':
            MI, _ = thermo.modules(core.REPO)
            r = o_potential_tree(I, thermo.Compiled(MI, thermo.DecimalBackend()), c)
        else:
            r = CLAUSES[name](I, c)
    except NoValue as e:
        r = [V('no-value', '%s%r %s' % (e.fn, e.args_, e.why), c)]
    if r == 'band': r = []
    txt = '; '.join(v['what'] for v in r) or 'clause %s holds at %s' % (name, {k: v for k, v in c.items() if k != 'clause'})
    return bool(r), txt
