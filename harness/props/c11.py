"""C11 — Refining or decomposing columns conserves area and volume and tiles the domain.

model      lean/PyTough/Model/Refine.lean (one parent column with symbolic vertices: transition_type, table lookup,
           vertex resolution, subdivide / triangulate / decompose / split) over Gen/RefineTables.lean
theorems   lean/PyTough/Props/C11.lean
tie        translator harness/translate/refine_tables.py (tables + tabulated transition_type, re-checked by `decide`
           on every run); correspondence facet `refine_column`: for every refined column of every real refine() /
           decompose_columns() / split_column() call, the sub-columns the real code built (as cyclic lists of
           parent-corner / mid-side / centre vertices) against the model's `subdivision` / `decompose` / split
oracle     exact-arithmetic evaluation of the statement around every refining operation (props/geolib.C11Observer):
           total area (attribute and polygons), total rock volume (block_volume sum and first principles), every new
           column inside the old column that contains it with the same surface, per-parent area, point sampling
           (exactly one new column), no hanging node, shared side <=> connection
"""
import json, time, itertools
import core
from core import Result
from props import geolib as G
from props import c10

ID = 'C11'
MODULE = 'PyTough.Props.C11'
TARGETS = ['PyTough.Props.C11', 'drv_c11']
THEOREMS = ['Props.C11.' + t for t in [
    'transition_type_matches_source', 'transition_table_covers_domain', 'centre_condition_matches_source',
    'transition_type_total', 'transition_type_empty', 'subdivision_uses_existing_nodes',
    'subdivision_boundary_identity', 'area_additive_over_chain', 'refine_column_conserves_area',
    'decompose_cases_boundary_identity', 'decompose_cases_conserve_area', 'triangulate_conserves_area',
    'decompose_conserves_area', 'split_column_boundary_identity', 'split_column_conserves_area',
    'refine_layers_piece_sum', 'refine_layers_conserves_thickness', 'triangle_subcolumns_positive',
    'subdivision_conforming', 'subdivision_edge_multiset', 'subcolumns_share_full_edges',
    'boundary_edge_in_exactly_one_subcolumn', 'decompose_cases_conforming', 'decompose_subcolumns_share_full_edges',
    'split_column_conforming']]
LEVEL_TEXT = ('Partial proof. Proved in Lean 4 (no sorry), over the subdivision tables regenerated from mulgrids.py on every run: the model of '
              'transition_type equals the source function on its whole domain; every non-empty set of refined sides of a 3- or 4-sided column '
              'has a table entry that uses only existing nodes; for every entry and rotation the sub-columns\' directed edges cancel to the '
              'parent boundary with exactly the refined sides split (decide over the whole table), and therefore - for ALL corner coordinates '
              'and ANY centre-node position - the signed areas of the new columns add up to the old column\'s (refine, split_column, the 5 '
              'special cases of decompose_column for every start node, triangulate_column for every number of sides, decompose_column '
              'whichever branch fires); CONFORMITY of every transition_column entry (every rotation), every decompose_column special case (every start '
              'node) and split_column, by decide over the whole generated tables: no directed edge is used twice, every sub-column edge is either '
              'an edge of the refined parent boundary (never used reversed) or an interior edge whose reverse belongs to exactly one other '
              'sub-column, every refined-boundary edge belongs to exactly one sub-column, the edge multiset is boundary + I + reverse(I), and '
              'no refined side is used unsplit by a sub-column - hence sub-columns share full edges and no mid-side node hangs inside a '
              'sub-column edge (within one parent); refine_layers keeps the total thickness of the layer stack for every selection and factor. every sub-column of a refined TRIANGLE is a fixed positive fraction (1/2, 1/4, 3/4) of it for all coordinates. NOT proved: positivity of the sub-columns of quadrilaterals (needs convexity) / point-wise tiling (winding numbers), conformity of the '
              'whole refined mesh, conservation of totals for the whole geometry (sum over all columns / blocks) - these are evaluated in exact arithmetic by the '
              'oracle on every explored history and the whole-geometry model is tied to the code by the C10 correspondence.')
LEVEL_NOTE = ('Trusted: Lean kernel (+propext, Classical.choice, Quot.sound); the translator harness/translate/refine_tables.py (tables are '
              'ast.literal_eval of the source; transition_type is compiled from its own AST and tabulated); Model/Refine.lean tied by the '
              'refine_column facet (every column refined by the real code, 1800+ per quick run); IEEE rounding of mid-side / centre positions '
              '(tolerances scaled by coordinate magnitude; exact equality demanded on dyadic inputs).')
TECHNIQUE = 'Lean 4 proof over generated subdivision tables (decide over the whole table + algebraic lifting to all coordinates) + differential correspondence + exact-arithmetic oracle'
ASSUMPTIONS = []
TRUSTED_EXTRA = []

H = G.hx
_known = None


def KNOWN():
    global _known
    if _known is None:
        _known = set(core.known_keys(ID)) | set(core.known_keys('C10'))
    return _known


def translate(ctx):
    from translate import refine_tables
    refine_tables.run()


# ----------------------------------------------------------------------------- generators

def polygon_recipe(rng, n, ns):
    """one column with n sides of which ns nodes are straight (exactly collinear with their neighbours):
    a convex (n - ns)-gon on an integer lattice with ns nodes inserted at mid-sides"""
    import math
    k = n - ns
    base = {3: [(0, 0), (32, 0), (8, 24)], 4: [(0, 0), (32, 0), (40, 24), (-8, 32)],
            5: [(0, 0), (32, 0), (48, 24), (16, 48), (-16, 24)],
            6: [(0, 0), (32, 0), (48, 24), (32, 48), (0, 48), (-16, 24)],
            7: [(0, 0), (32, 0), (48, 16), (48, 40), (24, 56), (-8, 40), (-16, 16)],
            8: [(0, 0), (24, 0), (40, 16), (40, 40), (24, 56), (0, 56), (-16, 40), (-16, 16)],
            9: [(0, 0), (24, 0), (40, 8), (48, 32), (40, 48), (16, 64), (-8, 56), (-16, 40), (-16, 16)]}[k]
    sides = list(range(k))
    chosen = sorted(rng.sample(sides, ns)) if ns <= k else sorted([rng.randrange(k) for _ in range(ns)])
    if rng.random() < 0.4 and ns >= 2 and ns <= k:
        s0 = rng.randrange(k)                     # consecutive sides (adjacent straight nodes at index distance 2)
        chosen = sorted({(s0 + i) % k for i in range(ns)})
        while len(chosen) < ns:
            chosen = sorted(set(chosen) | {rng.randrange(k)})
    pts = []
    for i in range(k):
        pts.append(base[i])
        m = chosen.count(i)
        for q in range(m):
            a, b = base[i], base[(i + 1) % k]
            t = [[0.5], [0.25, 0.75], [0.25, 0.5, 0.75], [0.125, 0.375, 0.625, 0.875]][m - 1][q]
            pts.append((a[0] + t * (b[0] - a[0]), a[1] + t * (b[1] - a[1])))
    pts = pts[:n] if len(pts) >= n else pts
    rot = rng.randrange(len(pts))
    pts = pts[rot:] + pts[:rot]
    names = ['%3s' % c for c in 'abcdefghijklmnop'[:len(pts)]]
    return {'kind': 'mixed', 'atmos': rng.choice([0, 1, 2]),
            'nodes': [[names[i], pts[i][0], pts[i][1]] for i in range(len(pts))],
            'columns': [['  a', names]], 'dz': [2., 4.]}


def region_subsets(g, rng, how_many):
    """column selections: singles, strips, L-shapes, boundary-touching blocks, regions with holes, all"""
    cols = sorted(g.columnlist, key=G.ckey)
    xs = sorted({round(float(c.centre[0]), 9) for c in cols})
    ys = sorted({round(float(c.centre[1]), 9) for c in cols})
    out = []
    for _ in range(how_many):
        m = rng.random()
        if m < 0.2:
            out.append([rng.choice(cols)])
        elif m < 0.35 and len(xs) > 1:
            x = rng.choice(xs)
            out.append([c for c in cols if round(float(c.centre[0]), 9) == x])
        elif m < 0.5 and len(ys) > 1:
            y = rng.choice(ys)
            out.append([c for c in cols if round(float(c.centre[1]), 9) == y])
        elif m < 0.65 and len(xs) > 1 and len(ys) > 1:
            x, y = rng.choice(xs), rng.choice(ys)        # L / cross shape
            out.append([c for c in cols if round(float(c.centre[0]), 9) == x or round(float(c.centre[1]), 9) == y])
        elif m < 0.8 and len(xs) > 2 and len(ys) > 2:
            # a block with a hole
            x0, x1 = sorted(rng.sample(range(len(xs)), 2))
            y0, y1 = sorted(rng.sample(range(len(ys)), 2))
            blk = [c for c in cols if xs[x0] <= round(float(c.centre[0]), 9) <= xs[x1] and ys[y0] <= round(float(c.centre[1]), 9) <= ys[y1]]
            if len(blk) > 4:
                hole = rng.choice(blk)
                blk = [c for c in blk if c is not hole]
            out.append(blk)
        elif m < 0.9:
            k = rng.randint(1, max(1, len(cols) // 2))
            out.append(rng.sample(cols, k))
        else:
            out.append(cols)
    return [s for s in out if s] or [cols]


def refine_ops_for(g, rng, how_many):
    ops = []
    for sel in region_subsets(g, rng, how_many):
        a = {'cols': [G.col_loc(c) for c in sel], 'bisect': rng.choice([False, False, True, 'x', 'y'])}
        if rng.random() < 0.3:
            ids = {id(c) for c in sel}
            nb = sorted({id(k): k for c in sel for k in c.neighbour if id(k) not in ids}.values(), key=G.ckey)
            if nb:
                a['edge'] = [G.col_loc(c) for c in rng.sample(nb, min(len(nb), rng.randint(1, 3)))]
        ops.append(['refine', a])
    return ops


def start_recipes(mg, rng, n):
    out = []
    for _ in range(n):
        m = rng.random()
        if m < 0.55:
            nx, ny = rng.randint(1, 7), rng.randint(1, 7)
            r = {'kind': 'rect', 'dx': [rng.choice([1., 2., 3., 4., 6.5, 8., 16.]) * 4 for _ in range(nx)],
                 'dy': [rng.choice([1., 2., 3., 5., 8.]) * 4 for _ in range(ny)],
                 'dz': [rng.choice([1., 2., 4., 0.5]) for _ in range(rng.randint(1, 4))],
                 'atmos': rng.choice([0, 1, 2]),
                 'origin': [rng.randint(-4, 4) * 8., rng.randint(-4, 4) * 8., rng.randint(-8, 8) * 0.5]}
            out.append(('rect', c10.with_surfaces(mg, r, rng) if rng.random() < 0.6 else r))
        elif m < 0.75:
            f = rng.choice(['g2', 'g4', 'g5', 'g6', 'g7'])        # shipped geometries of 3-/4-sided columns
            out.append((f, {'kind': 'file', 'path': 'tests/mulgrid/%s.dat' % f,
                            'patch': [rng.random(), rng.random(), rng.randint(6, 60)]}))
        elif m < 0.85:
            label, r = rng.choice(c10.small_recipes())
            out.append((label, r))
        else:
            n_ = rng.randint(5, 9)
            ns = rng.randint(0, min(4, n_ - 3))
            out.append(('poly%d_%d' % (n_, ns), polygon_recipe(rng, n_, ns)))
    return out


def sequence_for(mg, recipe, rng):
    """a short history ending in refining operations: [earlier refinement], then refine / split / decompose /
    triangulate / refine_layers, [file round trip], [again]"""
    patch = recipe.pop('patch', None)
    g = G.build(mg, recipe)
    ops = []
    if patch is not None:
        b = g.bounds
        op = G.patch_op(g, float(b[0][0] + patch[0] * (b[1][0] - b[0][0])), float(b[0][1] + patch[1] * (b[1][1] - b[0][1])), patch[2])
        ops.append(op)
        g, exc = G.apply_op(mg, g, op)
        if exc is not None:
            return ops
    for round_ in range(rng.randint(1, 3)):
        cols = sorted(g.columnlist, key=G.ckey)
        if len(cols) > 300:
            break
        big = [c for c in cols if c.num_nodes > 4]
        r = rng.random()
        if big and r < 0.7:
            if rng.random() < 0.3:
                op = ['triangulate_column', {'col': G.col_loc(rng.choice(big))}]
            else:
                op = ['decompose_columns', {'cols': [G.col_loc(c) for c in rng.sample(big, rng.randint(1, len(big)))]} if rng.random() < 0.6 else {}]
        elif r < 0.12:
            quads = [c for c in cols if c.num_nodes == 4]
            if not quads:
                continue
            c = rng.choice(quads)
            op = ['split_column', {'col': G.col_loc(c), 'node': G.node_loc(rng.choice(c.node))}]
        elif r < 0.27 and len(g.layerlist) > 1 and len(g.layerlist) < 20:
            lays = [l.name for l in g.layerlist[1:]]
            op = ['refine_layers', {'layers': rng.sample(lays, rng.randint(1, len(lays))) if rng.random() < 0.8 else [],
                                    'factor': rng.choice([2, 3, 4])}]
        elif r < 0.32 and G.roundtrip_safe(g):
            op = ['roundtrip']
        elif r < 0.37:
            op = rng.choice([['rotate', {'angle': H(rng.choice([90., 30., 37.6, -45.]))}],
                             ['translate', {'shift': [H(rng.randint(-8, 8) * 4.), H(rng.randint(-8, 8) * 4.), H(rng.randint(-4, 4) * 0.5)]}]])
        else:
            op = refine_ops_for(g, rng, 1)[0]
        ops.append(op)
        g, exc = G.apply_op(mg, g, op, None if op[0] != 'roundtrip' else _tmp[0])
        if exc is not None:
            break
    return ops


_tmp = [None]


def opsig(op):
    return c10.opsig(op)


def run(ctx, scale=1.0, model=True):
    mg = G.load()
    _tmp[0] = ctx.tmp
    res = Result()
    res.rule = ('histories of 1..3 operations ending in refine (full / x / y / longest-side bisection, with and without bisected edge '
                'columns; selections = singles, strips, L-shapes, blocks with a hole, random subsets, all), split_column, '
                'triangulate_column, decompose_columns (polygons of 5..9 sides with 0..4 straight nodes) and refine_layers (subsets, '
                'factors 2..4), on rectangular grids with arbitrary spacings and surfaces, patches of the shipped geometries and earlier '
                'refinements; distinct = distinct (start geometry, operation list); non-trivial = the last operation changed the geometry')
    rng = ctx.rng('refine')
    n = int(ctx.n(260, 5000) * scale)
    t0 = time.time()
    deadline = t0 + ctx.n(55, 1000) * scale
    fac = res.facet('refine_column')
    done = 0
    model_cases = []
    for label, recipe in start_recipes(mg, rng, n):
        if time.time() > deadline:
            break
        ops = sequence_for(mg, recipe, rng)
        if not ops:
            continue
        obs = G.C11Observer(rng=ctx.rng('pts%d' % done))
        tie = RefineTie(mg) if (model and ctx.model_ok) else None
        chain = Chain([o for o in (obs, tie) if o is not None])
        v10, trace, g = G.run_sequence(mg, recipe, ops, ctx.tmp, KNOWN(), observer=chain)
        res.evaluations += 1
        done += 1
        for o in ops[:len(trace)]:
            res.count('op:' + opsig(o))
        res.count('start:' + label.rstrip('0123456789_'))
        for t in trace:
            if t['exc']:
                res.count('exc:%s@%s' % (t['exc'], t['op']))
        for v in obs.violations:
            res.violations.append(dict(key=v['key'], what='%s: %s' % (label, v['what']),
                                       case={'recipe': recipe, 'ops': ops[:v['step'] + 1]}))
        if not trace and not obs.checked:
            res.count('start-inconsistent')
        if obs.checked:
            res.distinct.add(json.dumps([recipe, ops], sort_keys=True))
        for k, c in obs.stats.items():
            res.count('checked:' + k, c)
        if tie is not None:
            model_cases += [(label, recipe, ops, c) for c in tie.cases]
        if done % 40 == 1:
            res.sample({'start': label, 'ops': [opsig(o) for o in ops], 'checked_steps': obs.checked,
                        'violations': sorted({x['key'] for x in obs.violations})})
    if model_cases:
        compare_with_model(res, fac, model_cases)
    return res


class Chain:
    def __init__(self, obs):
        self.obs = obs

    def before(self, step, op, g):
        return [o.before(step, op, g) for o in self.obs]

    def after(self, step, op, g, exc, snap, prev, cur, info=None):
        for o, s in zip(self.obs, snap):
            o.after(step, op, g, exc, s, prev, cur, info)


# ----------------------------------------------------------------------------- correspondence with Model/Refine.lean

class RefineTie:
    """records, for every old column that a real refining operation replaced, how the real code subdivided
    it, in the model's vocabulary: parent corner index / mid-side node of a parent side / centre node"""

    def __init__(self, mg):
        self.cases = []

    def before(self, step, op, g):
        if op[0] not in ('refine', 'decompose_columns', 'triangulate_column', 'split_column'):
            return None
        return {'cols': [(c.name, [(float(n.pos[0]), float(n.pos[1])) for n in c.node], id(c),
                          tuple(id(n) for n in c.node), self.straight(c) if c.num_nodes > 4 else None) for c in g.columnlist],
                'nodes': {id(n) for n in g.nodelist}}

    @staticmethod
    def straight(c):
        """local indices of straight nodes as decompose_column sees them (interior angle > pi - 1e-3), and whether
        that classification is numerically safe (exactly collinear, or more than 1e-2 away from pi)"""
        import numpy as np
        ang = c.interior_angles
        st = [i for i, a in enumerate(ang) if a > np.pi - 1e-3]
        safe = all(abs(a - np.pi) < 1e-9 or abs(a - np.pi) > 1e-2 for a in ang)
        return (st, safe)

    def after(self, step, op, g, exc, snap, prev, cur, info=None):
        if snap is None or exc is not None:
            return
        name = op[0]
        old = snap['cols']
        alive = {id(c) for c in g.columnlist}
        # new columns: objects that did not exist before, or (split_column) the shortened old column
        oldids = {o[2]: o for o in old}
        newcols = [c for c in g.columnlist if id(c) not in oldids or tuple(id(n) for n in c.node) != oldids[id(c)][3]]
        if not newcols:
            return
        # group the new columns by the old column containing their exact centroid
        groups = {}
        polys = [[(G.Fr(x), G.Fr(y)) for x, y in o[1]] for o in old]
        for c in newcols:
            ctr = G.centroid_exact(G.colpoly(c))
            for k, p in enumerate(polys):
                if G.locate(ctr, p) == 'in':
                    groups.setdefault(k, []).append(c)
                    break
        for k, ch in groups.items():
            o = old[k]
            nn = len(o[1])
            corner = {nid: i for i, nid in enumerate(o[3])}
            pos = o[1]
            mids = {}
            for i in range(nn):
                j = (i + 1) % nn
                mids[((pos[i][0] + pos[j][0]) / 2, (pos[i][1] + pos[j][1]) / 2)] = (min(i, j), max(i, j))
            subs, sides, ok = [], set(), True
            for c in ch:
                poly = []
                for nd in c.node:
                    if id(nd) in corner:
                        poly.append('c%d' % corner[id(nd)])
                    else:
                        m = mids.get((float(nd.pos[0]), float(nd.pos[1])))
                        if m is not None and id(nd) not in snap['nodes'] or (m is not None and name == 'refine'):
                            poly.append('m%d_%d' % m)
                            sides.add(m[0] if m != (0, nn - 1) else nn - 1)
                        elif id(nd) not in snap['nodes']:
                            poly.append('x')
                        else:
                            ok = False
                subs.append(poly)
            if not ok:
                continue
            self.cases.append({'op': name, 'nn': nn, 'sides': sorted(sides), 'subs': subs, 'straight': o[4],
                               'step': step})


def canon_subs(subs):
    """sub-columns as a sorted list of vertex cycles, each rotated to start at its smallest vertex"""
    out = []
    for p in subs:
        k = min(range(len(p)), key=lambda i: p[i:] + p[:i])
        out.append(' '.join(p[k:] + p[:k]))
    return sorted(out)


def compare_with_model(res, fac, model_cases):
    lines = []
    for label, recipe, ops, c in model_cases:
        if c['op'] == 'refine':
            lines.append('refine %d %s' % (c['nn'], ','.join(map(str, c['sides'])) or '-'))
        elif c['op'] == 'split_column':
            lines.append('split %d' % c['nn'])
        elif c['op'] == 'triangulate_column':
            lines.append('triangulate %d' % c['nn'])
        else:
            st, safe = c['straight'] if c['straight'] else ([], True)
            lines.append('decompose %d %s' % (c['nn'], ','.join(map(str, st)) or '-'))
    out = core.run_driver('drv_c11', lines)
    for (label, recipe, ops, c), req, rep in zip(model_cases, lines, out):
        if c['op'] == 'decompose_columns' and c['straight'] and not c['straight'][1]:
            res.unstable += 1
            continue
        fac['cases'] += 1
        res.count('model:' + c['op'])
        if c['op'] == 'refine':
            h = res.hyp.setdefault('refine_column_conserves_area: nn in {3,4}, sides a non-empty ascending sub-list of range(nn)', [0, 0])
            h[1] += 1
            h[0] += c['nn'] in (3, 4) and len(c['sides']) > 0 and c['sides'] == sorted(set(c['sides'])) and all(0 <= x < c['nn'] for x in c['sides'])
        elif c['op'] == 'decompose_columns':
            h = res.hyp.setdefault('decompose_conserves_area: straight node indices < nn', [0, 0])
            h[1] += 1
            h[0] += all(0 <= x < c['nn'] for x in (c['straight'][0] if c['straight'] else []))
        impl = canon_subs(c['subs'])
        if c['op'] == 'split_column':
            # the model answers with one line per possible split node; the real split must be one of them
            options = [canon_subs([p.split() for p in o.split('|')]) for o in rep.split(' ; ')] if rep.startswith('c') else [[rep]]
            good = impl in options
            model = rep
        else:
            model = canon_subs([p.split() for p in rep.split('|')]) if not rep.startswith('none') and not rep.startswith('exc') else [rep]
            good = impl == model
        if not good:
            fac['disagreements'] += 1
            res.disagreements.append(dict(facet='refine_column', case={'recipe': recipe, 'ops': ops[:c['step'] + 1], 'request': req},
                                          model=model, impl=impl))


def search(ctx, seconds, res):
    out = list(res.violations)
    t0 = time.time()
    k = 0
    while not out and time.time() - t0 < seconds:
        k += 1
        c2 = core.Ctx(ctx.prop, ctx.tier, ctx.seed + 7919 * k)
        r = run(c2, scale=min(1.0, max(0.1, (seconds - (time.time() - t0)) / 60.0)), model=False)
        c2.cleanup()
        out = r.violations
    return out


def replay(ctx, payload):
    mg = G.load()
    _tmp[0] = ctx.tmp
    c = payload.get('case') or {}
    if 'ops' not in c:
        return False, 'replay file names what no longer checks: %s' % payload.get('broken')
    obs = G.C11Observer(rng=ctx.rng('replay'))
    v10, trace, g = G.run_sequence(mg, c['recipe'], c['ops'], ctx.tmp, KNOWN(), observer=Chain([obs]))
    lines = ['%d operations applied: %s' % (len(trace), ', '.join('%s%s' % (x['op'], '!' + x['exc'] if x['exc'] else '') for x in trace))]
    for x in obs.violations:
        lines.append('  %s: %s' % (x['key'], x['what']))
    known = core.known_keys(ID)
    want = payload.get('key')
    bad = [x for x in obs.violations if x['key'] not in known and (want is None or x['key'] == want)]
    return bool(bad), '\n'.join(lines)
