"""C07 — what a listing shows at a given time does not depend on how you navigated there.

model      lean/PyTough/Model/ListingNav.lean (state machine over an abstract `readAt`)
theorems   lean/PyTough/Props/C07.lean
tie        correspondence facet `listing_nav` (same operation sequences on the real reader and on the model:
           index reached, value returned by next/prev, exception class)
oracle     after every action the reported index/time/step and every table are compared with a freshly opened
           reader positioned directly at that index; next/prev report whether they moved; time/step setters pick
           a nearest result (decided in exact arithmetic)
"""
import json, time, random, itertools
from fractions import Fraction
from pathlib import Path
from collections import Counter
import core
from core import Result
from props import c05 as L
from props import c06 as H

ID = 'C07'
MODULE = 'PyTough.Props.C07'
TARGETS = ['PyTough.Props.C07', 'drv_c05']
THEOREMS = ['Props.C07.' + t for t in ['nav_view_eq_fresh', 'index_in_range', 'stale_cells_witness', 'next_bounds', 'prev_bounds',
                                    'negative_index_normalised', 'index_out_of_range', 'set_time_nearest', 'set_step_nearest',
                                    'history_preserves_view', 'file_load_sets_index', 'file_load_ignores_cursor_time_step',
                                    'file_index_in_range', 'nav_view_eq_fresh_on', 'file_nav_view_eq_fresh_on', 'file_nav_view_eq_fresh_orbit',
                                    'file_action_is_set_index', 'file_next_prev_at_ends']]
LEVEL_TEXT = ('Proof: 18 Lean theorems about the navigation machine of the reader (first/last/next/prev, index/time/step setters, history), '
              'for every reader satisfying two stated hypotheses: after any sequence of successful actions the view equals that of a reader '
              'positioned directly at that index (nav_view_eq_fresh, with a counterexample showing the Covers hypothesis is needed); the index '
              'stays in range; next/prev report whether they moved and stop at the ends; negative indices count from the end, out-of-range ones '
              'are an IndexError that changes nothing; time/step setters select a nearest result (exact arithmetic). No sorry. Tied to /repo by '
              'running the same action sequences on the real t2listing and on the executable whole-file Lean model of the reader '
              '(index, moved flag, IndexError, view = fresh view) for every shipped listing, truncated copies and perturbed copies; the oracle '
              'compares the real reader after every action with a freshly opened reader at that index. '
              'file_load_sets_index: for the whole-file model of every simulator family, set_index j leaves _index = j (read_tables and everything below it never assigns _index), '
              'so LoadSetsIndex is now a theorem, not a per-file check. '
              'file_load_ignores_cursor_time_step: what set_index j leaves does not depend on the previous file position, index, time or step, so Covers can fail only through table cells that are not overwritten. '
              'file_index_in_range: for every file, with no per-file hypothesis, the index stays in range after any action sequence. '
              'Covers as used by nav_view_eq_fresh quantifies over all states and is not satisfiable by a real file (it remains a theorem about abstract readers); '
              'nav_view_eq_fresh_on / file_nav_view_eq_fresh_on restate it with the hypothesis asked only of states satisfying an invariant P preserved by re-reading (CoversOn, PreservedBy), '
              'for the whole-file model with LoadSetsIndex proved and view = index, time, step and every table cell; '
              'file_nav_view_eq_fresh_orbit: with P = membership in a finite set of reader states both hypotheses are one decidable per-file check (orbitOk), discharged by kernel evaluation on a concrete two-result file in Props/C07.lean. '
              'file_action_is_set_index: for the whole-file model (every simulator, exact times and steps), from any state with an index in range, a successful first/last/next/prev/index=j/time=t/step=x '
              'either is next at the last or prev at the first index (reports False, reader unchanged), or a returning history (reader unchanged), or leaves exactly the reader state - hence the view - that index = k leaves, '
              'with the reported index k, for the k the action computes: 0, n-1, i+1, i-1, j (j+n when negative), and for time/step the nearest-selection index spelled out (0 below the first value, n-1 above the last, '
              'otherwise the first index at minimal distance: none strictly nearer, every earlier one strictly farther). '
              'file_next_prev_at_ends: next at the last and prev at the first index return False and change nothing, for every file and state. '
              'Still not proved: that orbitOk / CoversOn holds for a given shipped file (re-reading overwrites every cell of every table) - it depends on the rows printed at each result time of the file and is evaluated per file by the sentinel test of the harness.')
LEVEL_NOTE = ('Trusted: Lean kernel (+propext, Classical.choice, Quot.sound); the hand-written whole-file model of t2listing (compared with the real reader '
              'cell for cell on every run, C05); Covers is a hypothesis of nav_view_eq_fresh (LoadSetsIndex is proved for the whole-file model): Covers is evaluated on the model of every '
              'shipped file by a sentinel test and reported in the evidence, not proved for the whole-file model; nearest-selection is proved over exact '
              'numbers (Rat/Int), the code computes |t_i - t| in doubles.')
TECHNIQUE = L.TECHNIQUE
ASSUMPTIONS = list(L.ASSUMPTIONS)
TRUSTED_EXTRA = list(L.TRUSTED_EXTRA)

NAV_TIMEOUT = 60.0


def nearest_set(values, x):
    """indices of the values nearest to x, decided exactly"""
    fx = Fraction(x)
    ds = [abs(Fraction(v) - fx) for v in values]
    m = min(ds)
    return {i for i, d in enumerate(ds) if d == m}


def gen_op(rng, n, times, steps, tables, allow_history=True):
    kinds = ['first', 'last', 'next', 'next', 'prev', 'prev', 'index', 'index', 'index', 'time', 'time', 'step']
    if allow_history:
        kinds.append('history')
    k = rng.choice(kinds)
    if k in ('first', 'last', 'next', 'prev'):
        return [k]
    if k == 'index':
        return ['index', rng.randrange(-n, n)]
    if k == 'time':
        how = rng.choice(['exact', 'between', 'before', 'after', 'near'])
        j = rng.randrange(n)
        if how == 'exact': t = times[j]
        elif how == 'between' and n > 1:
            j = rng.randrange(n - 1)
            t = (times[j] + times[j + 1]) / 2 if rng.random() < 0.5 else times[j] + (times[j + 1] - times[j]) * rng.choice([0.25, 0.75, 0.49, 0.51])
        elif how == 'before': t = times[0] - abs(times[0]) * 0.5 - 1.0
        elif how == 'after': t = times[-1] * 2 + 1.0
        else: t = times[j] * (1 + rng.choice([-1e-9, 1e-9]))
        return ['time', float(t)]
    if k == 'step':
        how = rng.choice(['exact', 'between', 'before', 'after'])
        j = rng.randrange(n)
        if how == 'exact': s = steps[j]
        elif how == 'between' and n > 1:
            j = rng.randrange(n - 1)
            s = (steps[j] + steps[j + 1]) // 2 + rng.choice([0, 0, 1])
        elif how == 'before': s = steps[0] - rng.randint(1, 5)
        else: s = steps[-1] + rng.randint(1, 50)
        return ['step', int(s)]
    if rng.random() < 0.35:
        s = H.make_invalid(rng, tables)          # a request that selects nothing: returns None, must change nothing
        return ['history', s['items'], s.get('form', 'list')]
    sel = [x for x in H.make_selections(rng, tables, 1, all_subsets=False) if not x.get('why', '').startswith('invalid')]
    s = rng.choice(sel)
    return ['history', s['items'], s.get('form', 'list')]


def apply_op(lst, op):
    """apply one action to the real reader; returns the value it returned (next/prev) or None"""
    k = op[0]
    if k == 'first': return lst.first()
    if k == 'last': return lst.last()
    if k == 'next': return lst.next()
    if k == 'prev': return lst.prev()
    if k == 'index': lst.index = op[1]; return None
    if k == 'time': lst.time = op[1]; return None
    if k == 'step': lst.step = op[1]; return None
    if k == 'history':
        sel = [(it[0], H.unjkey(it[1]), it[2]) for it in op[1]]
        arg = sel[0] if (len(op) > 2 and op[2] == 'tuple' and len(sel) == 1) else sel
        lst.history(arg)
        return None
    raise RuntimeError('unknown action %r' % (op,))


def expected_indices(op, idx, n, times, steps):
    """the set of indices the property allows after the action, and the value next/prev must report"""
    k = op[0]
    if k == 'first': return {0}, None
    if k == 'last': return {n - 1}, None
    if k == 'next':
        moved = idx < n - 1
        return {idx + 1 if moved else idx}, moved
    if k == 'prev':
        moved = idx > 0
        return {idx - 1 if moved else idx}, moved
    if k == 'index': return {op[1] % n}, None
    if k == 'time': return nearest_set(times, op[1]), None
    if k == 'step': return nearest_set(steps, op[1]), None
    return {idx}, None


def job_c07(job, progress):
    rel, family, vspec = job['rel'], job['family'], job['vspec']
    rng = random.Random(job['seed'])
    path, _ = L.variant_path(job['tmp'], rel, family, vspec)
    res = dict(rel=rel, family=family, vspec=vspec, violations=[], stats=Counter(), samples=[], traces=[])
    st = res['stats']

    def viol(key, what, **extra):
        c = dict(file=rel, variant=vspec)
        c.update(extra)
        res['violations'].append(dict(key=key, what='%s [%s]: %s' % (rel, vspec.get('kind', 'orig'), what), case=c))

    try:
        lst = L.open_listing(path)
    except Exception as e:
        if vspec.get('kind', 'orig') != 'orig':
            st['variant-rejected-by-reader'] += 1
            return res
        raise
    n = lst.num_fulltimes
    res['n'] = n
    res['path'] = str(path)
    times = [float(x) for x in lst.fulltimes]
    steps = [int(x) for x in lst.fullsteps]
    res['times'] = [L.bits(t) for t in times]
    res['steps'] = steps
    # the reference: a freshly opened reader positioned directly at each index
    fresh = []
    for i in range(n):
        progress({'phase': 'fresh', 'index': i})
        f = L.open_listing(path)
        f.index = i
        fresh.append(L.dump_view(f))
        f.close()
    tables = {name: (rows, cols) for name, (rows, cols, m) in fresh[0][3].items()}
    st['files-with-%s-results' % ('1' if n == 1 else '2+')] += 1
    seqs = job.get('sequences')
    if seqs is None:
        seqs = []
        for _ in range(job.get('n_fresh', 10)):
            seqs.append(dict(fresh=True, ops=[gen_op(rng, n, times, steps, tables) for _ in range(rng.randint(1, job.get('max_len', 4)))]))
        for _ in range(job.get('n_walks', 2)):
            seqs.append(dict(fresh=True, ops=[gen_op(rng, n, times, steps, tables) for _ in range(rng.randint(min(5, job.get('walk_len', 40)), job.get('walk_len', 40)))]))
    for sq in seqs:
        lst.close()
        lst = L.open_listing(path)
        done = []
        trace = []
        for op in sq['ops']:
            progress({'phase': 'op', 'ops': done + [op]})
            idx0 = lst.index
            st['op:' + op[0]] += 1
            st['actions'] += 1
            try:
                ret = apply_op(lst, op)
            except IndexError as e:
                ret = 'IndexError'
            except Exception as e:
                viol('action-raises:%s:%s:%s' % (family, op[0], type(e).__name__), 'after %r the action %r raises %s: %s' % (done, op, type(e).__name__, str(e)[:100]), ops=done + [op])
                break
            done.append(op)
            try:
                view = L.dump_view(lst)
            except Exception as e:
                viol('view-raises:%s:%s' % (family, type(e).__name__), 'after %r reading the tables raises %s' % (done, type(e).__name__), ops=list(done))
                break
            idx = view[0]
            trace.append([op, idx, ret if not isinstance(ret, bool) else bool(ret)])
            if not (isinstance(idx, (int,)) or hasattr(idx, '__index__')) or not (0 <= int(idx) < n):
                viol('index-out-of-range:%s:%s' % (family, op[0]), 'after %r the reader reports index %r (there are %d results)' % (done, idx, n), ops=list(done))
                break
            idx = int(idx)
            allowed, moved = expected_indices(op, idx0, n, times, steps)
            if ret == 'IndexError':
                st['index-errors'] += 1
            elif idx not in allowed:
                viol('wrong-index:%s:%s' % (family, op[0]), 'after %r (from index %d) the reader is at index %d, expected %s' % (done, idx0, idx, sorted(allowed)), ops=list(done))
                break
            if moved is not None and bool(ret) != moved:
                viol('moved-flag:%s:%s' % (family, op[0]), 'after %r (from index %d of %d) %s() returned %r' % (done, idx0, n, op[0], ret), ops=list(done))
                break
            d = L.views_equal(fresh[idx], view)
            st['views-compared'] += 1
            if d:
                viol('view-differs:%s:%s' % (family, op[0]), 'after %r the reader at index %d differs from a freshly opened reader set to that index: %s' % (done, idx, d), ops=list(done))
                break
        res['traces'].append(trace)
        if len(res['samples']) < 1 and done:
            res['samples'].append(dict(file=rel, variant=vspec.get('kind', 'orig'), ops=done[:6], indices=[t[1] for t in trace[:6]]))
    lst.close()
    return res


def job_c07_shared(job, progress):
    """several readers in ONE process, constructed with default arguments: readers opened first, then TOUGH2/11 stepped to its
    last result time (where a table absent at the first time appears), then the earlier readers are navigated and new ones are
    opened; after every action the view must be the one a fresh reader shows at that index in a process of its own"""
    rng = random.Random(job['seed'])
    base = {b['rel']: b for b in job['baseline']}
    out = dict(violations=[], stats=Counter())
    st = out['stats']

    def check(rel, lst, done, phase):
        st['shared-views-compared'] += 1
        i = lst.index
        nres = len(base[rel]['digests'])
        if not (0 <= i < nres):
            d = 'index %r' % (i,)
        else:
            b = base[rel]['digests'][i]
            g = L.digest_view(L.dump_view(lst))
            d = None
            if sorted(base[rel]['names']) != sorted(lst.table_names):
                d = 'exposes tables %r, a fresh reader alone in a process exposes %r' % (sorted(lst.table_names), sorted(base[rel]['names']))
            elif g['hdr'] != b['hdr']:
                d = 'index/time/step %s, fresh %s' % (g['hdr'], b['hdr'])
            else:
                bad = [t for t in b['tables'] if b['tables'][t] != g['tables'].get(t)]
                if bad:
                    d = 'table %s differs from a fresh reader at index %d' % (bad[0], i)
        if d:
            out['violations'].append(dict(key='view-differs-shared-process:%s' % rel.split('/')[0],
                                          what='%s (%s) after %r: %s' % (rel, phase, done, d),
                                          case=dict(file=rel, shared_process=True, ops=list(done), phase=phase)))
            return False
        return True

    victims = [rel for rel in job['victims'] if rel in base]
    progress({'phase': 1})
    early = [(rel, L.construct(L.listing_base() / rel, 'default')) for rel in victims]
    progress({'phase': 2})
    if L.STEPPED_FIRST in base:
        first = L.construct(L.listing_base() / L.STEPPED_FIRST, 'default')
        done = []
        while first.next():
            done.append(['next'])
            check(L.STEPPED_FIRST, first, done, 'default arguments')
    progress({'phase': 3})
    for phase, readers in [('opened before %s was stepped' % L.STEPPED_FIRST, early),
                           ('opened after %s was stepped' % L.STEPPED_FIRST, [(rel, L.construct(L.listing_base() / rel, 'default')) for rel in victims])]:
        for rel, lst in readers:
            n = lst.num_fulltimes
            times = [float(x) for x in lst.fulltimes]
            steps = [int(x) for x in lst.fullsteps]
            done = []
            if not check(rel, lst, done, phase):
                continue
            for _ in range(job.get('n_ops', 8)):
                op = gen_op(rng, n, times, steps, {}, allow_history=False)
                try:
                    apply_op(lst, op)
                except IndexError:
                    pass
                done.append(op)
                st['shared-actions'] += 1
                if not check(rel, lst, done, phase):
                    break
    return out


def shared_process_facet(ctx, res, rng):
    files = [rel for rel, fam in L.corpus()]
    baseline = [b for b in L.run_jobs('job_digest', [dict(rel=rel) for rel in files], timeout=ctx.n(120, 300), fresh=True)
                if not isinstance(b, L.Timeout)]
    victims = [b['rel'] for b in baseline if len(b['digests']) >= 2 and b['rel'] != L.STEPPED_FIRST]
    job = dict(baseline=baseline, victims=victims, seed=rng.randrange(1 << 30), n_ops=ctx.n(8, 40))
    r = L.run_jobs('job_c07_shared', [job], timeout=NAV_TIMEOUT, nworkers=1, module='props.c07', fresh=True)[0]
    f = res.facet('shared_process')
    if isinstance(r, L.Timeout):
        res.violations.append(dict(key='navigation-hangs:shared-process', what='readers sharing a process: no answer (%r)' % (r.info,),
                                   case=dict(shared_process=True)))
        return
    f['cases'] = r['stats'].get('shared-views-compared', 0)
    res.count('shared-views-compared', f['cases'])
    res.violations += r['violations']


def build_jobs(ctx, rng, n_fresh, n_walks, walk_len, n_trunc, p_perturb, ops_budget=120):
    jobs = []
    for rel, family in L.corpus():
        data = (L.listing_base() / rel).read_bytes()
        sc = L.Scan(data, family)
        n = len(sc.blocks)
        specs = [{'kind': 'orig'}]
        if n >= 2:
            ks = list(range(1, n))
            rng.shuffle(ks)
            for k in sorted(ks[:n_trunc]):
                specs.append({'kind': 'truncate', 'keep': k})
            if rng.random() < p_perturb:
                specs.append({'kind': 'perturb', 'seed': rng.randrange(1 << 30), 'frac': 0.3, 'modes': ['digits', 'neg', 'zero'], 'first_rows': False})
        for frel, fvs in L.FIXED_VARIANTS:
            if frel == rel:
                specs.append(fvs)
        # the cost of one action is one result block read (by the real reader and by the model): budget the number of
        # actions per job by the size of a block
        for vs in specs:
            nres = vs['keep'] if vs.get('kind') == 'truncate' else n
            block = max(1, len(data) // max(1, n))
            budget = int(max(6, min(ops_budget, ops_budget * 25000 // block)))
            nf = max(2, min(n_fresh, budget // 6))
            wl = max(4, min(walk_len, budget // 3))
            jobs.append(dict(rel=rel, family=family, vspec=vs, tmp=str(ctx.tmp), seed=rng.randrange(1 << 30),
                             n_fresh=nf, n_walks=n_walks if budget > 12 else 1, walk_len=wl, max_len=4))
    return jobs


def collect(res, results, jobs):
    for job, r in zip(jobs, results):
        res.evaluations += 1
        if isinstance(r, L.Timeout):
            info = r.info or {}
            res.violations.append(dict(key='navigation-hangs:%s' % job['family'],
                                       what='%s [%s]: no answer within %.0f s during %r' % (job['rel'], job['vspec'].get('kind'), NAV_TIMEOUT, info),
                                       case=dict(file=job['rel'], variant=job['vspec'], ops=info.get('ops'))))
            continue
        res.violations += r['violations']
        for k, v in r['stats'].items():
            res.count(k, v)
        res.count('files:' + r['family'])
        res.count('variant:' + r['vspec'].get('kind', 'orig'))
        for s in r['samples']:
            res.sample(s)
        for tr in r['traces']:
            res.distinct.add(json.dumps([r['rel'], r['vspec'], [t[0] for t in tr]], sort_keys=True))


def enc_op(op):
    k = op[0]
    if k in ('first', 'last', 'next', 'prev'): return 'nav ' + k
    if k == 'index': return 'nav idx %d' % op[1]
    if k == 'time': return 'nav time %d' % int(L.bits(op[1]), 16)
    if k == 'step': return 'nav step %d' % op[1]
    if k == 'history': return 'hist 1 ' + ' '.join(H.enc_item(it) for it in op[1])
    raise RuntimeError(op)


def model_nav(requests):
    """requests: [(path, n, [trace])] on one driver; per request: list (per sequence) of list of (reply, same)"""
    lines, plan = [], []
    for path, n, traces in requests:
        od = '1' if str(path).endswith('OUTPUT_DATA') else '0'
        op_open = 'open %s %s -' % (L.hexs(str(path)), od)
        lines.append(op_open); lines.append('info')
        for j in range(n):                   # fresh readers positioned at each index
            lines += [op_open, 'index %d' % j, 'snap %d' % j]
        for tr in traces:
            lines.append(op_open)
            lines.append('TIMES')            # placeholder, filled below when the model's own times are known
            for (op, idx, ret) in tr:
                lines.append(enc_op(op))
                lines.append('same %d' % idx)
    # two passes: the doubles of the result times come from the model's own `info` reply (decimal -> double by CPython)
    infos = core.run_driver('drv_c05', sum([['open %s %s -' % (L.hexs(str(p)), '1' if str(p).endswith('OUTPUT_DATA') else '0'), 'info'] for p, n, t in requests], []))
    times_of = {}
    for k, (p, n, t) in enumerate(requests):
        info = infos[2 * k + 1]
        m = [x for x in info.split(' ') if x.startswith('fulltimes=')]
        vals = m[0][len('fulltimes='):].split(',') if m and infos[2 * k].startswith('ok') else []
        times_of[str(p)] = ','.join(str(int(L.bits(float(v)), 16)) for v in vals if v)
    out_lines = []
    cur = None
    for l in lines:
        if l.startswith('open '):
            cur = bytes.fromhex(l.split(' ')[1]).decode('latin-1')
        out_lines.append('times %s' % times_of.get(cur, '') if l == 'TIMES' else l)
    out = core.run_driver('drv_c05', out_lines)
    k = 0
    res = []
    for path, n, traces in requests:
        opened = out[k].startswith('ok')
        k += 2 + 3 * n
        seqs = []
        for tr in traces:
            k += 2
            steps = []
            for (op, idx, ret) in tr:
                steps.append((out[k], out[k + 1]))
                k += 2
            seqs.append(steps)
        res.append(seqs if opened else None)
    return res


def correspond(ctx, res, jobs, results):
    """facet listing_nav: the same action sequences on the whole-file model: index reached, value returned by next/prev,
    IndexError, and whether the model's view equals the model's own fresh view at that index"""
    from concurrent.futures import ThreadPoolExecutor
    f = res.facet('listing_nav')
    reqs, owners = [], []
    for job, r in zip(jobs, results):
        if isinstance(r, L.Timeout) or not r.get('traces') or 'path' not in r:
            continue
        reqs.append((r['path'], r['n'], r['traces']))
        owners.append((job, r))
    if not reqs:
        return
    order = sorted(range(len(reqs)), key=lambda i: -sum(len(t) for t in reqs[i][2]) * (1 + len(open(reqs[i][0], 'rb').read()) // 100000))
    nth = min(8, len(reqs))
    buckets = [[] for _ in range(nth)]
    for k, i in enumerate(order):
        buckets[k % nth].append(i)
    outs = [None] * len(reqs)
    with ThreadPoolExecutor(max_workers=nth) as ex:
        futs = [ex.submit(model_nav, [reqs[i] for i in b]) for b in buckets]
        for b, fut in zip(buckets, futs):
            for i, o in zip(b, fut.result()):
                outs[i] = o
    # hypothesis Covers of nav_view_eq_fresh, evaluated on the model of every shipped file: re-reading any result
    # overwrites every cell of every table (cells are set to a sentinel first)
    hyp = res.hyp.setdefault('Covers: re-reading a result overwrites every cell of every table (whole-file model, sentinel test)', [0, 0])
    origs = [(job, r) for (job, r) in owners if job['vspec'].get('kind', 'orig') == 'orig']
    if origs:
        lines = []
        for job, r in origs:
            od = '1' if str(r['path']).endswith('OUTPUT_DATA') else '0'
            lines += ['open %s %s -' % (L.hexs(str(r['path'])), od), 'covers']
        cov = core.run_driver('drv_c05', lines)
        for k, (job, r) in enumerate(origs):
            rep = cov[2 * k + 1].split(' ')
            hyp[1] += 1
            ok = rep[0] == 'ok' and len(rep) > 1 and all(x == '1' for x in rep[1].split(','))
            hyp[0] += ok
            if not ok:
                res.count('covers-fails:' + job['rel'])
    for (job, r), (path, n, traces), o in zip(owners, reqs, outs):
        case0 = dict(file=job['rel'], variant=job['vspec'])
        if o is None:
            f['cases'] += 1; f['disagreements'] += 1
            res.disagreements.append(dict(facet='listing_nav', case=case0, model='open fails', impl='opens'))
            continue
        for tr, steps in zip(traces, o):
            done = []
            for (op, idx, ret), (rep, same) in zip(tr, steps):
                done.append(op)
                f['cases'] += 1
                w = rep.split(' ')
                d = None
                if ret == 'IndexError':
                    if not (w[0] == 'exc' and w[1] == 'IndexError'): d = (rep[:60], 'IndexError')
                elif op[0] == 'history':
                    if w[0] != 'ok': d = (rep[:60], 'history returns')
                elif w[0] != 'ok':
                    d = (rep[:60], 'index %d' % idx)
                else:
                    moved, midx = w[1] == '1', int(w[2])
                    if midx != idx: d = ('index %d' % midx, 'index %d' % idx)
                    elif op[0] in ('next', 'prev') and moved != bool(ret): d = ('returns %r' % moved, 'returns %r' % ret)
                if d is None and same != 'ok 1':
                    d = ('view differs from the model\'s fresh view at index %d (%s)' % (idx, same), 'equal to a fresh reader')
                if d:
                    f['disagreements'] += 1
                    res.disagreements.append(dict(facet='listing_nav', case=dict(case0, ops=list(done)), model=d[0], impl=d[1]))
                    break


def translate(ctx):
    """regenerate lean/PyTough/Gen/ListingBind.lean (per-simulator method binding) from the current /repo source"""
    from translate import listing_bind
    listing_bind.run()


def run(ctx):
    res = Result()
    res.rule = ('cases = action sequences on a freshly opened reader of a shipped listing, a truncated copy (1..N-1 result times) or a '
                'value-perturbed copy: short sequences (1-4 actions) and random walks (5-40 actions) over first/last/next/prev/index=i '
                '(negative included)/time=t (exact, between, before first, after last, 1e-9 off)/step=s/history(selection); after every action the '
                'view is compared with a fresh reader at that index; distinct non-trivial = distinct (file, variant, action sequence)')
    rng = ctx.rng('c07')
    jobs = build_jobs(ctx, rng, ctx.n(12, 300), ctx.n(2, 20), 40, ctx.n(2, 99), 1.0, ops_budget=ctx.n(120, 900))
    results = L.run_jobs('job_c07', jobs, timeout=NAV_TIMEOUT, module='props.c07')
    results = L.confirm_timeouts('job_c07', jobs, results, NAV_TIMEOUT, module='props.c07')
    collect(res, results, jobs)
    res.facet('oracle_navigation')['cases'] = res.stats.get('actions', 0)
    shared_process_facet(ctx, res, rng)
    if ctx.model_ok:
        correspond(ctx, res, jobs, results)
    return res


def search(ctx, seconds, res):
    found = list(res.violations)
    t0 = time.time()
    k = 0
    while not found and time.time() - t0 < seconds:
        k += 1
        c2 = core.Ctx(ctx.prop, ctx.tier, ctx.seed + 7919 * k)
        try:
            jobs = build_jobs(c2, c2.rng('c07-search'), 20, 4, 40, 3, 0.7)
            r2 = Result()
            collect(r2, L.run_jobs('job_c07', jobs, timeout=NAV_TIMEOUT, module='props.c07'), jobs)
            found = r2.violations
        finally:
            c2.cleanup()
    return found


def replay(ctx, payload):
    c = payload.get('case') or {}
    if c.get('shared_process'):
        r2 = Result()
        shared_process_facet(ctx, r2, ctx.rng('c07'))
        if r2.violations:
            return True, '\n'.join(v['what'] for v in r2.violations[:5])
        return False, 'readers sharing a process show what a fresh reader alone shows (%d views compared)' % r2.stats.get('shared-views-compared', 0)
    if 'file' not in c or not c.get('ops'):
        return False, 'replay file names what no longer checks: %s' % payload.get('broken')
    rel = c['file']
    job = dict(rel=rel, family=rel.split('/')[0], vspec=c.get('variant', {'kind': 'orig'}), tmp=str(ctx.tmp), seed=0,
               sequences=[dict(fresh=True, ops=c['ops'])])
    r = L.run_jobs('job_c07', [job], timeout=NAV_TIMEOUT, module='props.c07')[0]
    if isinstance(r, L.Timeout):
        return True, '%s: no answer within %.0f s during %r' % (rel, NAV_TIMEOUT, r.info)
    if r['violations']:
        return True, '\n'.join(v['what'] for v in r['violations'][:5])
    return False, '%s: after %r the reader shows what a fresh reader shows at index %s' % (rel, c['ops'], r['traces'][0][-1][1] if r['traces'] and r['traces'][0] else '?')
