"""C06 — time-history extraction equals stepping through the listing, and terminates.

model      lean/PyTough/Model/ListingHistory.lean (ordered_selection + the per-position loop over an abstract reader)
theorems   lean/PyTough/Props/C06.lean
tie        correspondence facet `listing_history` (model of history() vs the real call, same selections)
oracle     the property itself: step with index = i over every result time reading the cell, compare with
           history(); AUTOUGH2 short-output values are taken from the independent scanner of the printed short tables;
           the real call runs in a worker process under a timeout — a timeout is the `does not terminate' observation
"""
import json, time, random, itertools
from pathlib import Path
from collections import Counter
import core
from core import Result
from props import c05 as L

ID = 'C06'
MODULE = 'PyTough.Props.C06'
TARGETS = ['PyTough.Props.C06', 'drv_c05']
THEOREMS = ['Props.C06.' + t for t in ['scan_reads_selected_lines', 'history_table_eq_cells', 'reversed_key_negated',
                                    'history_leaves_reader_unchanged', 'history_preserves_view',
                                    'skip_to_nonblank_spins_iff', 'read_until_spins_iff', 'skipto_progresses',
                                    'history_cell_eq_stepping_cell_partial', 'history_table_eq_stepping_partial',
                                    'history_series_visits_every_time', 'series_one_value_per_time', 'history_one_table_is_one_scan',
                                    'ordered_selection_never_spins', 'history_spins_iff_some_position_spins', 'history_table_spins_iff',
                                    'skip_to_results_line_spins_iff',
                                    'history_table_eq_stepping_region_partial', 'history_table_eq_stepping_AUTOUGH2_partial',
                                    'history_scan_starts_at_first_data_line_AUTOUGH2']]
LEVEL_TEXT = ('Proof: 20 Lean theorems about the model of t2listing.history(): the one-pass read of the selected rows of a table returns for every '
              'entry (any number, any order, repeated rows) exactly the cell that the row reader gives for that row line, with the same exception '
              'when a cell cannot be read (scan_reads_selected_lines, history_table_eq_cells); a reversed connection name yields the negated value; '
              'a history() call that returns leaves index, time, step and every table of the reader unchanged (history_leaves_reader_unchanged, '
              'for the whole-file model, all simulators). No sorry. Termination is reduced, not proved outright: the model makes non-termination an explicit outcome, three lemmas '
              'characterise exactly when its line loops spin (only at end of file), '
              '(a skip loop that spins at end of file is `diverges`) and every run compares it with the real call under a 20 s timeout; '
              'the stepping oracle compares every series value by value. '
              'history_cell_eq_stepping_cell_partial: for the TOUGH2-family row reader (all simulators except the AUTOUGH2 row loop), the value history() picks '
              'from the k-th row line equals the cell of the table the stepping reader (read_table_TOUGH2) builds from the same lines, under the decidable '
              'per-file hypothesis that the line\'s key addresses that row and no later line overwrites it. '
              'history_table_eq_stepping_partial: hence the one-pass read of any selection of one table at one result time returns the stepping reader\'s cells. '
              'history_series_visits_every_time: a whole history() call that returns (any simulator) has visited every result position in turn, what it appends at a '
              'position depends on that position only, and each returned series is the concatenation in file order of the per-position values. '
              'series_one_value_per_time: when each position contributes one value for an item, its series has exactly one value per result time, in time order. '
              'history_one_table_is_one_scan: at one result position, once the file is at the table, what history() appends for it is exactly that one-pass read over the lines from the first results line on, with the table\'s own read_table_line and column index. '
              'Termination, whole call (every simulator): history_spins_iff_some_position_spins - the call fails to return iff the selection is non-empty and the read at ONE result position '
              '(which depends on that position alone) fails to return, all earlier positions having returned; ordered_selection_never_spins - converting the selection never spins; '
              'history_table_spins_iff - at one position, reading the selected lines of one table fails to return iff no remaining line is a results line of that table (exact); '
              'skip_to_results_line_spins_iff. Not proved: an exact condition for skip_to_table_* (for AUTOUGH2 only that it can spin nowhere but in skip_to_nonblank, Proofs/ListingSeriesTerm.lean), '
              'hence no closed well-formedness condition on a file that implies termination of the whole call. '
              'history_table_eq_stepping_region_partial: for the TOUGH2-family row reader, from the decidable region predicate of the table (Props.C05.TableRegionT: header lines, then one '
              'printed data line per recorded skiplines entry) alone - the stepping reader read_table_TOUGH2 succeeds on the region and the one-pass read of any selection returns the cells of the table it builds '
              '(row = the row named on the data line, printed once); rowInPlace and a successful row loop are no longer assumed, because the k-th row-line offset of the scan is proved to be the k-th data line of the region. '
              'history_table_eq_stepping_AUTOUGH2_partial: the same for the AUTOUGH2 row loop (read_table_AUTOUGH2 fills row j from the j-th data line up to the terminator; history() reads line j with the same '
              'read_table_line_AUTOUGH2), from the decidable region predicate Props.C05.TableRegionA, any selection of printed rows, reversed names negated. '
              'history_scan_starts_at_first_data_line_AUTOUGH2: from the column header of an AUTOUGH2 table region skip_to_results_line stops at the first printed data line (the lines that pass is about). '
              'Still not proved: that row_line[r] recorded by the loop of setup_table_TOUGH2 equals the row-line offset rowOffset(skiplines, k) of the data line naming row r (it is a hypothesis on the selected entries; '
              'the region theorem removes rowInPlace but not this), and that skip_to_table lands on the table (Aligned); both are evaluated per file by the correspondence.')
LEVEL_NOTE = ('Trusted: Lean kernel (+propext, Classical.choice, Quot.sound); the hand-written whole-file model (history() of the model vs the real call: same '
              'selections, series bit-equal, None/exception class equal, on every run); that the lines history() reaches by skip_to_table + '
              'skip_to_results_line are the lines read_tables reads (the Aligned hypothesis) is checked by the correspondence and the oracle on the '
              'explored selections, not proved.')
TECHNIQUE = L.TECHNIQUE
ASSUMPTIONS = list(L.ASSUMPTIONS)
TRUSTED_EXTRA = list(L.TRUSTED_EXTRA)

HISTORY_TIMEOUT = 20.0      # seconds without a sign of life from one history() call = it does not terminate

SPEC_OF = {'element': 'e', 'element1': 'e1', 'element2': 'e2', 'connection': 'c', 'generation': 'g', 'primary': 'p'}
FILE_ORDER = ['element', 'element1', 'connection', 'primary', 'element2', 'generation']


def jkey(k):
    return list(k) if isinstance(k, tuple) else k


def unjkey(k):
    return tuple(k) if isinstance(k, list) else k


PREFER = {}       # table name -> row indices that also occur in the AUTOUGH2 short output of the file at hand


def make_item(rng, name, rows, cols, allow_rev, how=None):
    """one (table spec, row key, column) item; rows by name, reversed name or integer index; first/last/interior"""
    nr = len(rows)
    pos = rng.choice(['first', 'last', 'interior'])
    r = 0 if pos == 'first' else nr - 1 if pos == 'last' else rng.randrange(nr)
    if PREFER.get(name) and rng.random() < 0.5:
        r = rng.choice(PREFER[name])
    how = how or rng.choice(['name', 'name', 'index'] + (['reversed', 'reversed'] if allow_rev else []))
    col = rng.choice(cols)
    if how == 'index':
        key = r
    elif how == 'reversed':
        key = rows[r][::-1]
        if key in rows:                       # both orientations are rows: the reversed name is simply another row
            how = 'name'
    else:
        key = rows[r]
    return [SPEC_OF[name] if rng.random() < 0.8 else SPEC_OF[name].upper(), jkey(key), col]


def make_selections(rng, tables, n_extra, all_subsets=True):
    """tables: {name: (rows, cols)}.  every non-empty subset of the tables (<= 31) in a random order with one item
    per table, plus richer selections (several rows and columns, repeated rows, single tuple form)"""
    names = [t for t in FILE_ORDER if t in tables and tables[t][0] and tables[t][1]]
    sels = []
    subsets = []
    for k in range(1, len(names) + 1):
        subsets += [list(c) for c in itertools.combinations(names, k)]
    if not all_subsets and len(subsets) > 8:
        rng.shuffle(subsets)
        subsets = subsets[:8]
    for sub in subsets:
        order = list(sub)
        rng.shuffle(order)
        items = [make_item(rng, t, tables[t][0], tables[t][1], t == 'connection') for t in order]
        sels.append(dict(items=items, form='list', why='subset'))
    for _ in range(n_extra):
        kind = rng.choice(['tuple', 'rich', 'columns', 'repeat'])
        t = rng.choice(names)
        rows, cols = tables[t]
        if kind == 'tuple':
            sels.append(dict(items=[make_item(rng, t, rows, cols, t == 'connection')], form='tuple', why='tuple'))
        elif kind == 'columns':       # every column of one row
            it = make_item(rng, t, rows, cols, t == 'connection')
            sels.append(dict(items=[[it[0], it[1], c] for c in cols], form='list', why='columns'))
        elif kind == 'repeat':        # the same row twice, by name and by index, and another row before it in the list
            r = rng.randrange(len(rows))
            r2 = rng.randrange(len(rows))
            c = rng.choice(cols)
            sels.append(dict(items=[[SPEC_OF[t], r2, rng.choice(cols)], [SPEC_OF[t], jkey(rows[r]), c], [SPEC_OF[t], r, c]],
                             form='list', why='repeat'))
        else:
            items = []
            for _ in range(rng.randint(2, 8)):
                t2 = rng.choice(names)
                items.append(make_item(rng, t2, tables[t2][0], tables[t2][1], t2 == 'connection'))
            sels.append(dict(items=items, form='list', why='rich'))
    for _ in range(max(3, n_extra // 2)):
        sels.append(make_invalid(rng, tables))
    return sels


def make_invalid(rng, tables):
    """a selection in which no entry names an existing cell: unknown row names, table types the file does not have,
    unknown type letters, the empty list, and mixtures of these"""
    present = set(tables)
    absent_specs = [sp for sp, nm in [('p', 'primary'), ('c', 'connection'), ('g', 'generation'), ('e1', 'element1'), ('e2', 'element2'),
                                      ('e7', 'element7'), ('P', 'primary'), ('G', 'generation')] if nm not in present]
    def one():
        kind = rng.choice(['row', 'row', 'table', 'letter'] if absent_specs else ['row', 'row', 'letter'])
        if kind == 'row':
            t = rng.choice(sorted(present))
            rows, cols = tables[t]
            key = ['zzzzz', 'yyyyy'] if (rows and isinstance(rows[0], tuple)) else 'zzzzz'
            if rng.random() < 0.3:
                key = 'zzzzz'                      # a single name, also on a two-name table
            return [SPEC_OF.get(t, 'e'), key, rng.choice(cols) if cols else 'x']
        if kind == 'table':
            return [rng.choice(absent_specs), rng.choice([0, 'zzzzz']), 'P']
        return [rng.choice(['x', 'q', 'z9']), 0, 'P']
    how = rng.choice(['empty', 'single', 'single', 'tuple', 'mixture', 'mixture'])
    if how == 'empty':
        return dict(items=[], form='list', why='invalid-empty')
    if how in ('single', 'tuple'):
        return dict(items=[one()], form='tuple' if how == 'tuple' else 'list', why='invalid-' + how)
    return dict(items=[one() for _ in range(rng.randint(2, 4))], form='list', why='invalid-mixture')


def table_name_of(spec):
    m = {'e': 'element', 'c': 'connection', 'g': 'generation', 'p': 'primary'}
    t0 = spec[0].lower()
    if t0 not in m:
        return None
    name = m[t0]
    if spec[-1] in '0123456789':
        name += spec[-1]
    return name


def expected_series(item, views, sc, family, short, outputs_with_short):
    """what the property demands for one item: (values, uses_short_times) or None when the item names nothing.
    Full result times: the cell read from the table shown at each index (stepping).  AUTOUGH2 short output:
    the number printed for that row and column in the short table of each short output."""
    spec, key, col = item
    key = unjkey(key)
    name = table_name_of(spec)
    tabs0 = views[0][3]
    if name not in tabs0:
        return None
    rows, cols, _ = tabs0[name]
    if col not in cols:
        return 'badcol'
    c = cols.index(col)
    sgn = 1.0
    if isinstance(key, int):
        if not (0 <= key < len(rows)):
            return 'badrow'
        r = key
    elif key in rows:
        r = max(i for i, k in enumerate(rows) if k == key)      # a repeated name addresses the last such row
    elif name == 'connection' and isinstance(key, tuple) and key[::-1] in rows:
        r = max(i for i, k in enumerate(rows) if k == key[::-1])
        sgn = -1.0
    else:
        return None
    full = [sgn * float(v[3][name][2][r, c]) for v in views]
    if not (short and outputs_with_short):
        return full, False
    # interleave with the printed short tables
    want_key = rows[r]
    vals = []
    fi = 0
    in_short = None
    for o in sc.outputs:
        if not o['short']:
            vals.append(full[fi]); fi += 1
            continue
        t = o['tabs'].get(name)
        if t is None:
            continue
        hit = None
        for (ln, keys, idx, toks) in t.rows:
            k = tuple(L.fix_name(x) for x in keys)
            k = k[0] if len(k) == 1 else k
            if k == want_key:
                hit = toks
        if hit is None:
            in_short = False if in_short is None else in_short
            continue
        in_short = True
        if c >= len(hit):
            vals.append(0.0)
        else:
            v = L.printed_value(hit[c][0])
            vals.append(sgn * v if v is not None else float('nan'))
    if not in_short:
        return full, False
    return vals, True


def H_unj(k):
    return tuple(k) if isinstance(k, list) else k


def vals_full_at(views, i, item, tables):
    """the negated cell of a reversed connection item in the table shown at index i"""
    rows, cols, m = views[i][3]['connection']
    key = H_unj(item[1])[::-1]
    r = max(k for k, x in enumerate(rows) if x == key)
    return -float(m[r, cols.index(item[2])])


def job_c06(job, progress):
    import numpy as np
    rel, family, vspec = job['rel'], job['family'], job['vspec']
    rng = random.Random(job['seed'])
    path, _ = L.variant_path(job['tmp'], rel, family, vspec)
    sc = L.Scan(Path(path).read_bytes(), family)
    res = dict(rel=rel, family=family, vspec=vspec, violations=[], stats=Counter(), samples=[], calls=[])
    st = res['stats']

    def viol(key, what, **extra):
        c = dict(file=rel, variant=vspec)
        c.update(extra)
        res['violations'].append(dict(key=key, what='%s [%s]: %s' % (rel, vspec.get('kind', 'orig'), what), case=c))

    try:
        lst = L.open_listing(path)
    except Exception as e:
        if vspec.get('kind', 'orig') != 'orig':
            st['variant-rejected-by-reader'] += 1
            return res
        raise
    n = lst.num_fulltimes
    views = []
    for i in range(n):
        lst.index = i
        views.append(L.dump_view(lst))
    tables = {name: (rows, cols) for name, (rows, cols, m) in views[0][3].items()}
    has_short = bool(getattr(lst, 'short_types', []))
    fulltimes = [float(x) for x in lst.fulltimes]
    alltimes = [float(x) for x in lst.times]
    res['tables'] = sorted(tables)
    res['fulltimes'] = [L.bits(x) for x in fulltimes]
    res['alltimes'] = [L.bits(x) for x in alltimes]
    res['path'] = str(path)
    PREFER.clear()
    for o in sc.outputs:
        if o['short']:
            for tname, t in o['tabs'].items():
                if tname in tables:
                    keys = set()
                    for (ln, ks, idx, toks) in t.rows:
                        k = tuple(L.fix_name(x) for x in ks)
                        keys.add(k[0] if len(k) == 1 else k)
                    PREFER[tname] = [i for i, k in enumerate(tables[tname][0]) if k in keys]
            break
    if job.get('selections') is not None:
        sels = job['selections']
    else:
        sels = make_selections(rng, tables, job.get('n_extra', 6), job.get('all_subsets', True))
        for s in sels:
            s['short'] = (rng.random() < 0.5) if has_short else (rng.random() < 0.85)
            s['start'] = rng.choice([0, n - 1, rng.randrange(n)])
    for s in sels:
        items = s['items']
        sel = [(it[0], unjkey(it[1]), it[2]) for it in items]
        arg = sel[0] if s.get('form') == 'tuple' and len(sel) == 1 else sel
        short = s.get('short', True)
        call = dict(selection=items, form=s.get('form', 'list'), short=short, start=s.get('start', 0))
        progress(call)
        st['history-calls'] += 1
        st['tables-in-selection:%d' % len({table_name_of(it[0]) for it in items})] += 1
        lst.index = call['start']
        before = L.dump_view(lst)
        try:
            out = lst.history(arg, short=short)
        except Exception as e:
            res['calls'].append(dict(call, out='exc:' + type(e).__name__))
            viol('history-raises:%s:%s' % (family, type(e).__name__), 'history(%r, short=%r) raises %s: %s' % (arg, short, type(e).__name__, str(e)[:100]), **call)
            try:
                lst.close()
            except Exception:
                pass
            lst = L.open_listing(path)
            continue
        after = L.dump_view(lst)
        try:
            if out is None:
                rec = None
            else:
                oo = [out] if len(items) == 1 else list(out)
                rec = [[[L.bits(x) for x in o[0]], [L.bits(x) for x in o[1]]] for o in oo]
        except Exception:
            rec = 'unreadable'
        res['calls'].append(dict(call, out=rec))
        res.setdefault('keys', []).append(json.dumps([rel, vspec, items, short, call['start']], sort_keys=True))
        if s.get('why', '').startswith('invalid'):
            st['selections-naming-nothing-generated'] += 1
        if s.get('why', '').startswith('invalid') or rng.random() < 0.1:
            # "the reader still shows the same current time": what next() and prev() do right after the call
            st['next-prev-after-history'] += 1
            try:
                i0 = before[0]
                m1 = bool(lst.next()); i1 = lst.index
                lst.index = i0
                m2 = bool(lst.prev()); i2 = lst.index
                lst.index = i0
                want = (i0 < n - 1, i0 + 1 if i0 < n - 1 else i0, i0 > 0, i0 - 1 if i0 > 0 else i0)
                if (m1, i1, m2, i2) != want:
                    viol('history-changes-navigation:%s' % family,
                         'right after history(%r) at index %d of %d: next() returned %r and went to index %r, prev() returned %r and went to %r'
                         % (arg, i0, n, m1, i1, m2, i2), **call)
            except Exception as e:
                viol('history-changes-navigation:%s' % family, 'right after history(%r): next()/prev() raise %s' % (arg, type(e).__name__), **call)
        d = L.views_equal(before, after)
        if d:
            viol('history-changes-view:%s' % family, 'after history(%r) the reader shows something else than before: %s' % (arg, d), **call)
        exp = [expected_series(it, views, sc, family, short, has_short) for it in items]
        valid = [k for k, e in enumerate(exp) if isinstance(e, tuple)]
        if any(e in ('badcol', 'badrow') for e in exp):
            st['selections-with-bad-row-or-column'] += 1
            continue
        if not valid:
            st['selections-naming-nothing'] += 1
            continue
        if out is None:
            viol('history-none:%s' % family, 'history(%r) returned None although %d item(s) name existing cells' % (arg, len(valid)), **call)
            continue
        outs = [out] if (len(items) == 1) else list(out)
        if len(outs) != len(items):
            viol('history-shape:%s' % family, 'history(%r) returned %d series for %d items' % (arg, len(outs), len(items)), **call)
            continue
        for k in valid:
            vals, uses_short = exp[k]
            tt = alltimes if uses_short else fulltimes
            try:
                got_t = [float(x) for x in outs[k][0]]
                got_v = [float(x) for x in outs[k][1]]
            except Exception as e:
                viol('history-shape:%s' % family, 'history(%r): item %d is not a (times, values) pair: %r' % (arg, k, outs[k]), **call)
                break
            st['series-compared'] += 1
            st['values-compared'] += len(vals)
            if uses_short: st['series-with-short-output'] += 1
            it = items[k]
            kind = 'reversed' if (table_name_of(it[0]) == 'connection' and isinstance(it[1], list) and tuple(it[1]) not in tables['connection'][0]) else \
                   'index' if isinstance(it[1], int) else 'name'
            st['row-by-' + kind] += 1
            if kind == 'reversed':
                # stepping reads the cell under the reversed name: table[(b, a)][col] must be the negated cell
                try:
                    rv = lst.connection[H_unj(it[1])]
                    got_cell = None if rv is None else float(rv[it[2]])
                except Exception as e:
                    got_cell = 'exc:' + type(e).__name__
                want_cell = vals_full_at(views, call['start'], it, tables)
                st['reversed-lookups'] += 1
                if got_cell is None or isinstance(got_cell, str) or not L.same_float(got_cell, want_cell):
                    viol('reversed-lookup:%s' % family, 'connection[%r][%r] is %r, the negated cell is %r' % (H_unj(it[1]), it[2], got_cell, want_cell), **call)
                    break
            if len(got_v) != len(vals) or any(not L.same_float(a, b) for a, b in zip(got_v, vals)):
                j = next((j for j, (a, b) in enumerate(zip(got_v, vals)) if not L.same_float(a, b)), min(len(got_v), len(vals)))
                viol('history-values:%s:%s:%s' % (family, table_name_of(it[0]).rstrip('0123456789'), kind),
                     'history(%r, short=%r) item %d %r: %d values, stepping gives %d; first difference at position %d: history %r, stepping %r'
                     % (arg, short, k, it, len(got_v), len(vals), j, got_v[j] if j < len(got_v) else None, vals[j] if j < len(vals) else None), **call)
                break
            if len(got_t) != len(tt) or any(a != b for a, b in zip(got_t, tt)):
                viol('history-times:%s' % family, 'history(%r, short=%r) item %d: the times paired with the values are not the %s result times (%d vs %d)'
                     % (arg, short, k, 'output' if uses_short else 'full', len(got_t), len(tt)), **call)
                break
        if len(res['samples']) < 1:
            res['samples'].append(dict(file=rel, selection=items, short=short, start=call['start'],
                                       first_series=[float(x) for x in outs[valid[0]][1][:4]]))
    lst.close()
    return res


def confirm_hangs(jobs, results):
    """a history() call that gave no answer is run once more, alone, with three times the time limit; only if it is silent
    again is it reported.  (The other selections of that file were lost with the worker: they are run again without it.)"""
    out = list(results)
    for k, (job, r) in enumerate(zip(jobs, results)):
        if isinstance(r, L.Timeout) and (r.info or {}).get('selection'):
            info = r.info
            sel = dict(items=info['selection'], form=info.get('form', 'list'), short=info.get('short', True), start=info.get('start', 0))
            r2 = L.run_jobs('job_c06', [dict(job, selections=[sel])], timeout=3 * HISTORY_TIMEOUT, nworkers=1, module='props.c06')[0]
            if not isinstance(r2, L.Timeout):
                # it was slowness, not a hang: run the whole job again with a generous limit
                out[k] = L.run_jobs('job_c06', [job], timeout=3 * HISTORY_TIMEOUT, nworkers=1, module='props.c06')[0]
    return out


def build_jobs(ctx, rng, n_extra, all_subsets, with_variants):
    jobs = []
    for rel, family in L.corpus():
        specs = [{'kind': 'orig'}]
        if with_variants and rng.random() < with_variants:
            specs.append({'kind': 'perturb', 'seed': rng.randrange(1 << 30), 'frac': 0.3, 'modes': ['digits', 'neg', 'zero'], 'first_rows': False})
        for vs in specs:
            jobs.append(dict(rel=rel, family=family, vspec=vs, tmp=str(ctx.tmp), seed=rng.randrange(1 << 30),
                             n_extra=n_extra, all_subsets=all_subsets))
    return jobs


def collect(res, results, jobs):
    for job, r in zip(jobs, results):
        res.evaluations += 1
        if isinstance(r, L.Timeout):
            info = r.info or {}
            res.violations.append(dict(key='history-hangs:%s' % job['family'],
                                       what='%s: history(%r, short=%r) did not return within %.0f s' % (job['rel'], info.get('selection'), info.get('short'), HISTORY_TIMEOUT),
                                       case=dict(file=job['rel'], variant=job['vspec'], **info)))
            # the rest of this file's selections: run them again one by one would be possible; the hang is the finding
            continue
        res.violations += r['violations']
        for k, v in r['stats'].items():
            res.count(k, v)
        res.count('files:' + r['family'])
        for s in r['samples']:
            res.sample(s)
        for k in r.get('keys', []):
            res.distinct.add(k)


def enc_item(it):
    spec, key, col = it
    hx = lambda t: L.hexs(t) if t else '-'
    if isinstance(key, int):
        k = 'i:%d' % key
    elif isinstance(key, (list, tuple)):
        k = 'n:' + ';'.join(hx(x) for x in key)
    else:
        k = 'n:' + hx(key)
    return '%s/%s/%s' % (hx(spec), k, hx(col))


def parse_hist(line):
    """driver reply -> None | 'exc:Class' | [(uses_full_times, [bits of values])]"""
    w = line.split(' ')
    if w[0] == 'exc':
        return 'exc:' + w[1]
    if w[0] != 'ok':
        raise RuntimeError('driver hist: %s' % line[:200])
    if w[1] == 'none':
        return None
    n = int(w[1])
    k = 2
    out = []
    for _ in range(n):
        assert w[k] == 'S'
        full, m = w[k + 1] == '1', int(w[k + 2])
        vals = [L.bits(float(x)) for x in w[k + 3:k + 3 + m]]
        k += 3 + m
        out.append((full, vals))
    return out


def model_history(requests):
    """requests: [(path, [call dicts])] on one driver; returns per request ('exc', cls) or list of parsed replies"""
    lines = []
    for path, calls in requests:
        od = '1' if str(path).endswith('OUTPUT_DATA') else '0'
        lines.append('open %s %s -' % (L.hexs(str(path)), od))
        for c in calls:
            lines.append('index %d' % c['start'])
            lines.append('hist %d %s' % (1 if c['short'] else 0, ' '.join(enc_item(it) for it in c['selection'])))
    out = core.run_driver('drv_c05', lines)
    k = 0
    res = []
    for path, calls in requests:
        o = out[k]; k += 1
        rep = []
        for c in calls:
            rep.append(parse_hist(out[k + 1]) if o.startswith('ok') else None)
            k += 2
        res.append(rep if o.startswith('ok') else ('exc', o))
    return res


def correspond(ctx, res, jobs, results):
    """facet listing_history: the model of history() (Lean) against the real call: same selections, same series bit for bit,
    same None / exception class; a call that did not return must be `diverges' in the model"""
    from concurrent.futures import ThreadPoolExecutor
    f = res.facet('listing_history')
    reqs, owners = [], []
    for job, r in zip(jobs, results):
        if isinstance(r, L.Timeout):
            info = r.info or {}
            if info.get('selection'):
                path, _ = L.variant_path(job['tmp'], job['rel'], job['family'], job['vspec'])
                reqs.append((str(path), [dict(selection=info['selection'], short=info.get('short', True), start=info.get('start', 0), out='hang')]))
                owners.append((job, None))
            continue
        if r.get('calls'):
            reqs.append((r['path'], r['calls']))
            owners.append((job, r))
    if not reqs:
        return
    nth = min(6, len(reqs))
    buckets = [reqs[i::nth] for i in range(nth)]
    idxs = [list(range(len(reqs)))[i::nth] for i in range(nth)]
    outs = [None] * len(reqs)
    with ThreadPoolExecutor(max_workers=nth) as ex:
        for ids, fut in zip(idxs, [ex.submit(model_history, b) for b in buckets]):
            for i, o in zip(ids, fut.result()):
                outs[i] = o
    for (job, r), (path, calls), o in zip(owners, reqs, outs):
        case0 = dict(file=job['rel'], variant=job['vspec'])
        if isinstance(o, tuple):
            f['cases'] += 1; f['disagreements'] += 1
            res.disagreements.append(dict(facet='listing_history', case=case0, model='open: ' + o[1][:80], impl='opens'))
            continue
        ft = r['fulltimes'] if r else None
        at = r['alltimes'] if r else None
        for c, m in zip(calls, o):
            f['cases'] += 1
            case = dict(case0, selection=c['selection'], short=c['short'], start=c['start'])
            real = c['out']
            if real == 'hang':
                res.count('model:hangs-compared')
                if m != 'exc:diverges':
                    f['disagreements'] += 1
                    res.disagreements.append(dict(facet='listing_history', case=case, model=str(m)[:100], impl='does not return'))
                continue
            d = None
            if isinstance(real, str) or isinstance(m, str):
                if real != m: d = (str(m)[:80], str(real)[:80])
            elif real is None or m is None:
                if not (real is None and m is None): d = ('None' if m is None else 'series', 'None' if real is None else 'series')
            elif len(real) != len(m):
                d = ('%d series' % len(m), '%d series' % len(real))
            else:
                for k, ((full, mv), (rt, rv)) in enumerate(zip(m, real)):
                    res.count('model:series-compared')
                    if mv != rv:
                        j = next((j for j, (a, b) in enumerate(zip(mv, rv)) if a != b), min(len(mv), len(rv)))
                        d = ('item %d: %d values, position %d differs' % (k, len(mv), j), 'item %d: %d values' % (k, len(rv)))
                        break
                    if rt != (ft if full else at):
                        d = ('item %d: paired with %s times' % (k, 'full' if full else 'all'), 'item %d: %d times' % (k, len(rt)))
                        break
            if d:
                f['disagreements'] += 1
                res.disagreements.append(dict(facet='listing_history', case=case, model=d[0], impl=d[1]))


def translate(ctx):
    """regenerate lean/PyTough/Gen/ListingBind.lean (per-simulator method binding) from the current /repo source"""
    from translate import listing_bind
    listing_bind.run()


def run(ctx):
    res = Result()
    res.rule = ('cases = history() calls: per shipped listing every non-empty subset of its tables in a random order (one item per table: '
                'row first/last/interior, by name / index / reversed connection name, random column) + richer selections (all columns of a '
                'row, repeated rows, single tuple), short on/off, from a random current index; distinct non-trivial = distinct '
                '(file, selection, short, start) whose series were compared value by value with stepping')
    rng = ctx.rng('c06')
    jobs = build_jobs(ctx, rng, ctx.n(6, 250), True, ctx.n(0.25, 1.0))
    results = L.run_jobs('job_c06', jobs, timeout=HISTORY_TIMEOUT, module='props.c06')
    results = confirm_hangs(jobs, results)
    collect(res, results, jobs)
    n = res.stats.get('history-calls', 0)
    res.facet('oracle_history')['cases'] = n
    n_items = sum(res.stats.get(k, 0) for k in ('row-by-index', 'row-by-name', 'row-by-reversed'))
    res.hyp['selected line indices are non-negative (hypothesis hnn of history_table_eq_cells): integer row keys are drawn from 0..nrows-1'] = [n_items, n_items]
    if ctx.model_ok:
        correspond(ctx, res, jobs, results)
    return res


def search(ctx, seconds, res):
    found = list(res.violations)
    t0 = time.time()
    k = 0
    while not found and time.time() - t0 < seconds:
        k += 1
        c2 = core.Ctx(ctx.prop, ctx.tier, ctx.seed + 7919 * k)
        try:
            jobs = build_jobs(c2, c2.rng('c06-search'), 10, True, 0.5)
            r2 = Result()
            collect(r2, L.run_jobs('job_c06', jobs, timeout=HISTORY_TIMEOUT, module='props.c06'), jobs)
            found = r2.violations
        finally:
            c2.cleanup()
    return found


def replay(ctx, payload):
    c = payload.get('case') or {}
    if 'file' not in c:
        return False, 'replay file names what no longer checks: %s' % payload.get('broken')
    rel = c['file']
    sel = dict(items=c.get('selection'), form=c.get('form', 'list'), short=c.get('short', True), start=c.get('start', 0))
    job = dict(rel=rel, family=rel.split('/')[0], vspec=c.get('variant', {'kind': 'orig'}), tmp=str(ctx.tmp), seed=0, selections=[sel])
    r = L.run_jobs('job_c06', [job], timeout=HISTORY_TIMEOUT, module='props.c06')[0]
    if isinstance(r, L.Timeout):
        return True, '%s: history(%r) did not return within %.0f s' % (rel, sel['items'], HISTORY_TIMEOUT)
    if r['violations']:
        return True, '\n'.join(v['what'] for v in r['violations'][:5])
    return False, '%s: history(%r) equals stepping and leaves the view unchanged' % (rel, sel['items'])
