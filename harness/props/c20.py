"""C20 — flavour conversion and Waiwera export keep the model, drop only what they say.

model      lean/PyTough/Model/Convert.lean, Model/Waiwera.lean (tables: Gen/ConvertTables.lean, regenerated
           from /repo/t2data.py by harness/translate/convert_tables.py on every run)
theorems   lean/PyTough/Props/C20.lean (proofs in Proofs/Convert*.lean)
tie        translator (tables + evaluated MOP behaviour, re-checked by `decide`), correspondence facets
           `convert` (real t2data object vs model after operation sequences; canonical dump of every attribute
           the conversion touches), `convert_file` (keyword order of the file written after conversion vs the
           model's update_sections), `history_lines` (FOFT/COFT/GOFT name lines written and re-read), `short_lines` (SHORT heading and sub-sections
           written and re-read),
           `waiwera_eos`, `waiwera_rocks`, `waiwera_sources`, `waiwera_boundary`, `waiwera_faces` (eos_json / rocks_json /
           generators_json / boundaries_json vs model)
oracle     the clauses of the property evaluated on the real converted object, on the file it writes and
           reads back, and on the dict returned by json()
"""
import io, os, copy, json, contextlib, itertools, time
from fractions import Fraction
import core
from core import Result

ID = 'C20'
MODULE = 'PyTough.Props.C20'
TARGETS = ['PyTough.Props.C20', 'drv_c20']

# ------------------------------------------------------------------ encoding (mirror of Drv/C20.lean)

def eS(s):
    return 's' + s.encode('latin-1').hex()


def eV(v):
    if v is None: return 'n'
    if isinstance(v, str): return eS(v)
    if isinstance(v, bool): raise TypeError('bool in a modelled dict')
    if isinstance(v, float):
        f = Fraction(v)
        return 'q%d/%d' % (f.numerator, f.denominator)
    if isinstance(v, Fraction):
        return 'q%d/%d' % (v.numerator, v.denominator)
    try:
        import numpy as np
        if isinstance(v, np.floating):
            f = Fraction(float(v)); return 'q%d/%d' % (f.numerator, f.denominator)
        if isinstance(v, np.integer): return 'i%d' % int(v)
    except ImportError:
        pass
    if isinstance(v, int): return 'i%d' % v
    raise TypeError('cannot encode %r' % (v,))


def eQ(x):
    f = Fraction(x)
    return 'q%d/%d' % (f.numerator, f.denominator)


def eL(f, xs):
    return ' '.join([str(len(xs))] + [f(x) for x in xs])


def eO(f, x):
    return '0' if x is None else '1 ' + f(x[0])


def eD(d):
    return eL(lambda kv: eS(kv[0]) + ' ' + eV(kv[1]), list(d))


def eItem(it):
    t = it[0]
    if t == 'B': return 'B ' + eS(it[1])
    if t == 'C': return 'C %s %s' % (eS(it[1]), eS(it[2]))
    if t == 'G': return 'G %d %s %s' % (it[1], eS(it[2]), eS(it[3]))
    if t == 'S': return 'S ' + eS(it[1])
    if t == 'T': return 'T %s %s' % (eS(it[1]), eS(it[2]))
    raise ValueError(it)


def eGen(g):
    return '%d %s %s %s %d' % (g[0], eS(g[1]), eS(g[2]), eS(g[3]), g[4])


def eRock(r):
    return '%s %s %s %d' % (eS(r[0]), eQ(r[1]), eQ(r[2]), r[3])


def eShort(sh):
    return ' '.join([eO(eV, sh['freq']), eO(lambda l: eL(eItem, l), sh['block']),
                     eO(lambda l: eL(eItem, l), sh['con']), eO(lambda l: eL(eItem, l), sh['gen'])])


def eT2(st):
    return ' '.join([eS(st['filename']), eS(st['simulator']), eL(eS, st['sections']), eD(st['multi']), eD(st['lineq']),
                     eD(st['solver']), eL(lambda i: 'i%d' % i, st['option']), eL(eRock, st['rocks']), eL(eGen, st['gens']),
                     eL(lambda e: '%s %s %d' % (eS(e[0]), eS(e[1]), e[2]), st['gendict']), eShort(st['short']),
                     eL(eItem, st['hb']), eL(eItem, st['hc']), eL(eItem, st['hg']), eL(eS, st['other']), eL(eS, st['blocks'])])


def eOp(op):
    n = op[0]
    if n in ('toT2', 'paramsA2T', 'paramsT2A'): return '%s %d' % (n, 1 if op[1] else 0)
    if n == 'toA2': return 'toA2 %d %s %s' % (1 if op[1] else 0, eS(op[2]), eS(op[3]))
    if n in ('setType', 'insSec', 'delSec'): return '%s %s' % (n, eS(op[1]))
    if n in ('gensA2T', 's2h', 'h2s', 'updSec'): return n
    if n == 'addGen': return 'addGen ' + eGen(op[1])
    if n == 'delGen': return 'delGen %s %s' % (eS(op[1]), eS(op[2]))
    raise ValueError(op)


# ------------------------------------------------------------------ decoding of a driver reply (for readable diffs)

class _Tok:
    def __init__(self, s): self.t = s.split(); self.i = 0
    def next(self):
        x = self.t[self.i]; self.i += 1; return x
    def nat(self): return int(self.next())
    def s(self):
        x = self.next(); assert x[0] == 's', x
        return bytes.fromhex(x[1:]).decode('latin-1')
    def v(self):
        x = self.next()
        if x == 'n': return None
        if x[0] == 'i': return int(x[1:])
        if x[0] == 'q':
            a, b = x[1:].split('/'); return Fraction(int(a), int(b))
        if x[0] == 's': return bytes.fromhex(x[1:]).decode('latin-1')
        raise ValueError(x)
    def lst(self, f): return [f() for _ in range(self.nat())]
    def opt(self, f): return None if self.nat() == 0 else (f(),)
    def item(self):
        t = self.next()
        if t == 'B': return ('B', self.s())
        if t == 'C': return ('C', self.s(), self.s())
        if t == 'G': return ('G', self.nat(), self.s(), self.s())
        if t == 'S': return ('S', self.s())
        if t == 'T': return ('T', self.s(), self.s())
        raise ValueError(t)
    def t2(self):
        st = {}
        st['filename'] = self.s(); st['simulator'] = self.s(); st['sections'] = self.lst(self.s)
        for k in ('multi', 'lineq', 'solver'):
            st[k] = self.lst(lambda: (self.s(), self.v()))
        st['option'] = self.lst(lambda: int(self.next()[1:]))
        st['rocks'] = self.lst(lambda: (self.s(), self.v(), self.v(), self.nat()))
        st['gens'] = self.lst(lambda: (self.nat(), self.s(), self.s(), self.s(), self.nat()))
        st['gendict'] = self.lst(lambda: (self.s(), self.s(), self.nat()))
        st['short'] = {'freq': self.opt(self.v), 'block': self.opt(lambda: self.lst(self.item)),
                       'con': self.opt(lambda: self.lst(self.item)), 'gen': self.opt(lambda: self.lst(self.item))}
        st['hb'] = self.lst(self.item); st['hc'] = self.lst(self.item); st['hg'] = self.lst(self.item)
        st['other'] = self.lst(self.s); st['blocks'] = self.lst(self.s)
        return st


def decode_reply(line):
    tk = _Tok(line)
    head = tk.next()
    if head == 'ok':
        return ('ok', None, tk.t2())
    if head == 'exc':
        name = tk.next(); idx = tk.nat()
        return ('exc', (name, idx), tk.t2())
    raise RuntimeError('driver reply not understood: %s' % line[:200])


def diff_states(a, b):
    out = []
    for k in a:
        if a[k] != b.get(k):
            out.append('%s: model=%r impl=%r' % (k, a[k], b.get(k)))
    return '; '.join(out)[:600]


# ------------------------------------------------------------------ building the real object from a case

OTHER_KW = ['MOMOP', 'START', 'NOVER', 'RPCAP', 'TIMES', 'INDOM']
EXC_NAMES = {'KeyError': 'KeyError', 'ValueError': 'ValueError', 'TypeError': 'TypeError', 'IndexError': 'IndexError',
             'Exception': 'Exception'}


def quiet(f, *a, **k):
    with contextlib.redirect_stdout(io.StringIO()):
        return f(*a, **k)


class Built:
    """a real t2data object + the identities of its generator objects"""
    def __init__(self):
        self.d = None; self.geo = None; self.genid = {}; self.keep = []; self.next_id = 1000

    def gid(self, g):
        k = id(g)
        if k not in self.genid:
            self.genid[k] = self.next_id; self.next_id += 1; self.keep.append(g)
        return self.genid[k]


def make_geo(g):
    import mulgrids
    kw = {}
    if g.get('order'): kw['block_order'] = g['order']
    return quiet(mulgrids.mulgrid().rectangular, g['dx'], g['dy'], g['dz'], atmos_type=g['atm'], **kw)


def mk_gen(T, spec):
    gid, block, name, typ, payload = spec
    return T.t2generator(name=name, block=block, type=typ, gx=float(payload), ex=1.0e5, hg=-1.0, fg=0.5)


def build(case):
    import t2data as T, t2grids
    b = Built()
    d = T.t2data()
    d.title = 'c20'
    if case.get('geo'):
        b.geo = make_geo(case['geo'])
        d.grid = quiet(t2grids.t2grid().fromgeo, b.geo)
        d.grid.rocktypelist = []; d.grid.rocktype = {}
    for i, (name, por, cond, payload) in enumerate(case['rocks']):
        rt = t2grids.rocktype(name=name, porosity=float(por), conductivity=float(cond), specific_heat=float(payload))
        d.grid.add_rocktype(rt)
    if d.grid.rocktypelist:
        for i, blk in enumerate(d.grid.blocklist):
            blk.rocktype = d.grid.rocktypelist[i % len(d.grid.rocktypelist)]
    d.filename = case['filename']
    d.simulator = case['simulator']
    d.multi = dict(case['multi']); d.lineq = dict(case['lineq']); d.solver = dict(case['solver'])
    for i, v in enumerate(case['option']): d.parameter['option'][i] = v
    objs = {}
    for spec in case['gens']:
        if spec[0] in objs:
            g = objs[spec[0]]                     # the same object listed once more
        else:
            g = mk_gen(T, spec)
            b.genid[id(g)] = spec[0]; b.keep.append(g); objs[spec[0]] = g
        d.add_generator(g)
    for spec in case.get('free_gens', []):        # generator objects referenced by lists but not in the model
        g = mk_gen(T, spec)
        b.genid[id(g)] = spec[0]; b.keep.append(g); objs[spec[0]] = g

    def item(it):
        t = it[0]
        if t == 'B': return d.grid.block[it[1]]
        if t == 'C': return d.grid.connection[(it[1], it[2])]
        if t == 'G': return objs[it[1]]
        if t == 'S': return it[1]
        if t == 'T': return (it[1], it[2])
        raise ValueError(it)
    sh = case['short']
    so = {}
    if sh.get('freq') is not None: so['frequency'] = sh['freq'][0]
    for key, pk in (('block', 'block'), ('con', 'connection'), ('gen', 'generator')):
        if sh.get(key) is not None: so[pk] = [item(x) for x in sh[key][0]]
    d.short_output = so
    d.history_block = [item(x) for x in case['hb']]
    d.history_connection = [item(x) for x in case['hc']]
    d.history_generator = [item(x) for x in case['hg']]
    for k in case['other']:
        if k == 'MOMOP': d.more_option[1] = 1
        elif k == 'START': d.start = True
        elif k == 'NOVER': d.noversion = True
        elif k == 'RPCAP':
            d.relative_permeability = {'type': 1, 'parameters': [0.25, 0., 0., 0., 0., 0., 0.]}
            d.capillarity = {'type': 1, 'parameters': [0., 0., 1., 0., 0., 0., 0.]}
        elif k == 'TIMES': d.output_times = {'num_times_specified': 2, 'time': [1., 2.]}
        elif k == 'INDOM':
            if d.grid.rocktypelist: d.indom = {d.grid.rocktypelist[0].name: [1.e5, 20.]}
            else: d.indom = {'rockx': [1.e5, 20.]}
        else: raise ValueError(k)
    d._sections = list(case['sections'])
    b.d = d
    return b


def extract(b):
    """the state of the real object in the vocabulary of the model (public attributes + `_sections`)"""
    import t2data as T, t2grids
    d = b.d

    def item(x):
        if isinstance(x, t2grids.t2block): return ('B', x.name)
        if isinstance(x, t2grids.t2connection): return ('C', x.block[0].name, x.block[1].name)
        if isinstance(x, T.t2generator): return ('G', b.gid(x), x.block, x.name)
        if isinstance(x, str): return ('S', x)
        if isinstance(x, tuple) and len(x) == 2: return ('T', x[0], x[1])
        raise RuntimeError('unexpected history item %r' % (x,))
    so = d.short_output
    other = []
    import numpy as np
    present = {'MOMOP': bool(np.any(d.more_option)), 'START': bool(d.start), 'NOVER': bool(d.noversion),
               'RPCAP': bool(d.relative_permeability or d.capillarity), 'TIMES': bool(d.output_times),
               'SELEC': bool(d.selection), 'DIFFU': bool(d.diffusion), 'MESHM': bool(d.meshmaker),
               'INCON': bool(d.incon), 'INDOM': bool(d.indom)}
    other = [k for k in present if present[k]]
    st = {
        'filename': d.filename, 'simulator': d.simulator, 'sections': list(d._sections),
        'multi': [(k, v) for k, v in d.multi.items()], 'lineq': [(k, v) for k, v in d.lineq.items()],
        'solver': [(k, v) for k, v in d.solver.items()],
        'option': [int(x) for x in d.parameter['option']],
        'rocks': [(rt.name, Fraction(float(rt.porosity)), Fraction(float(rt.conductivity)), int(rt.specific_heat))
                  for rt in d.grid.rocktypelist],
        'gens': [(b.gid(g), g.block, g.name, g.type, int(g.gx)) for g in d.generatorlist],
        'gendict': [(k[0], k[1], b.gid(g)) for k, g in d.generator.items()],
        'short': {'freq': (so['frequency'],) if 'frequency' in so else None,
                  'block': ([item(x) for x in so['block']],) if 'block' in so else None,
                  'con': ([item(x) for x in so['connection']],) if 'connection' in so else None,
                  'gen': ([item(x) for x in so['generator']],) if 'generator' in so else None},
        'hb': [item(x) for x in d.history_block], 'hc': [item(x) for x in d.history_connection],
        'hg': [item(x) for x in d.history_generator],
        'other': other, 'blocks': [blk.name for blk in d.grid.blocklist]}
    extra = set(so) - {'frequency', 'block', 'connection', 'generator'}
    if extra:
        raise RuntimeError('unexpected short_output keys %r' % (extra,))
    return st


def normalise(st):
    """values as the driver prints them (floats -> Fraction, numpy -> int)"""
    def nv(v):
        if isinstance(v, float): return Fraction(v)
        if v is None or isinstance(v, (str, Fraction)): return v
        return int(v)
    out = dict(st)
    for k in ('multi', 'lineq', 'solver'):
        out[k] = [(a, nv(v)) for a, v in st[k]]
    sh = dict(st['short'])
    if sh['freq'] is not None: sh['freq'] = (nv(sh['freq'][0]),)
    out['short'] = sh
    return out


def apply_op(b, op):
    """run one operation on the real object; returns None or the exception class name"""
    import t2data as T
    d = b.d
    n = op[0]
    try:
        if n == 'toT2': quiet(d.convert_to_TOUGH2, warn=op[2] if len(op) > 2 else True, MP=op[1])
        elif n == 'toA2': quiet(d.convert_to_AUTOUGH2, True, op[1], op[2], op[3])
        elif n == 'setType': quiet(setattr, d, 'type', op[1])
        elif n == 'paramsA2T': quiet(d.convert_AUTOUGH2_parameters_to_TOUGH2, True, op[1])
        elif n == 'paramsT2A': quiet(d.convert_TOUGH2_parameters_to_AUTOUGH2, True, op[1])
        elif n == 'gensA2T': quiet(d.convert_AUTOUGH2_generators_to_TOUGH2, True)
        elif n == 's2h': d.convert_short_to_history()
        elif n == 'h2s': d.convert_history_to_short()
        elif n == 'addGen':
            g = mk_gen(T, op[1]); b.genid[id(g)] = op[1][0]; b.keep.append(g)
            d.add_generator(g)
        elif n == 'delGen': d.delete_generator((op[1], op[2]))
        elif n == 'insSec': d.insert_section(op[1])
        elif n == 'delSec': d.delete_section(op[1])
        elif n == 'updSec': d.update_sections()
        else: raise RuntimeError('unknown op %r' % (op,))
    except RuntimeError:
        raise
    except Exception as e:
        return type(e).__name__
    return None


def run_real(case):
    """build, apply the operations; returns (Built, initial state, outcome, final state)"""
    b = build(case)
    st0 = extract(b)
    outcome = ('ok', None)
    for i, op in enumerate(case['ops']):
        e = apply_op(b, op)
        if e is not None:
            outcome = ('exc', (e, i)); break
    return b, st0, outcome, extract(b)


# ------------------------------------------------------------------ case generators (conversion)

T2_TYPES = ['HEAT', 'WATE', 'AIR ', 'MASS', 'DELV', 'COM1', 'COM2', 'COM3']
CONVERTIBLE = ['CO2 ']
AUT_ONLY = ['DELG', 'DELS', 'DELT', 'DELW', 'DMAK', 'DMAT', 'FEED', 'FINJ', 'HLOS', 'IMAK', 'MAKE', 'PINJ', 'POWR', 'RECH',
            'RINJ', 'TMAK', 'TOST', 'VOL.', 'WBRE', 'WFLO', 'XINJ', 'XIN2', 'MASD', 'TRAC', 'NACL']
ODD_TYPES = ['COMX', 'com1', 'mass', 'CO2X', 'COM ', 'AIRX', 'XCOM']
AUT_SIMS = ['AUTOUGH2.2EW', 'AUTOUGH2.2', 'AUTOUGH2', 'AUTOUGH2EW', 'MULKOM', 'MULKOMEW', 'AUTOUGH2.2EWC', 'AUTOUGH2.2EWAV',
            'TOUGH2', 'autough2', 'AUTOUGH2.2EWTD', 'X']
GEN_NAMES = ['wel 1', 'wel 2', 'inj 1', 'abc12', 'pro 7']
SECTION_ORDER = None      # filled from the real module


def tough2_type(t):
    """generator types TOUGH2 itself knows (independent of the code's tables): HEAT, WATE, AIR, MASS, DELV, COMn"""
    return t in ('HEAT', 'WATE', 'AIR ', 'MASS', 'DELV') or t.startswith('COM')


def rand_geo(rng, small=True):
    dy = [rng.choice([5., 10., 12.5]) for _ in range(rng.choice([1, 1, 2]))]
    dx = [rng.choice([5., 10., 20.]) for _ in range(rng.choice([1, 2, 3]))]
    dz = [rng.choice([2., 5., 7.5]) for _ in range(rng.choice([1, 2, 3]))]
    return {'dx': dx, 'dy': dy, 'dz': dz, 'atm': rng.choice([0, 1, 2]), 'order': rng.choice([None, None, 'layer_column', 'dmplex'])}


def geo_names(g):
    """block names and connection name pairs of the grid made from a rectangular geometry (through the real code)"""
    import t2grids
    key = json.dumps(g, sort_keys=True)
    if key not in _GEO_CACHE:
        geo = make_geo(g)
        grid = quiet(t2grids.t2grid().fromgeo, geo)
        _GEO_CACHE[key] = ([b.name for b in grid.blocklist], [tuple(b.name for b in c.block) for c in grid.connectionlist])
    return _GEO_CACHE[key]
_GEO_CACHE = {}


def rand_option(rng, hot=0.5):
    opt = [0] * 25
    for i in range(1, 25):
        p = hot if i in (10, 12, 14, 17, 20, 21, 22, 23, 24) else 0.2
        if rng.random() < p: opt[i] = rng.choice([1, 2, 2, 3, 5, 9, rng.randint(0, 9)])
    return opt


def rand_items(rng, kind, blocks, cons, gens, bare):
    """a history / short-output list; kind in block|con|gen_as_gen|gen_as_block"""
    out = []
    for _ in range(rng.choice([0, 1, 1, 2, 3])):
        if bare or not blocks:
            if kind == 'con': out.append(('T', rng.choice(blocks + ['zzz 1']), rng.choice(blocks + ['zzz 2'])) if blocks else ('T', 'aaa 1', 'aaa 2'))
            else: out.append(('S', rng.choice(blocks + ['zzz 1']) if blocks else rng.choice(['aaa 1', 'aaa 2'])))
        elif kind == 'block' or kind == 'gen_as_block':
            out.append(('B', rng.choice(blocks)))
        elif kind == 'con':
            if cons:
                c = rng.choice(cons); out.append(('C', c[0], c[1]))
        else:
            if gens:
                g = rng.choice(gens); out.append(('G', g[0], g[1], g[2]))
    return out


def rand_model(rng, flavour, wf=True):
    """a data object description of the given flavour ('A' = AUTOUGH2, 'T' = TOUGH2)"""
    geo = rand_geo(rng) if rng.random() < 0.75 else None
    blocks, cons = geo_names(geo) if geo else ([], [])
    case = {'geo': geo}
    case['filename'] = rng.choice(['', '', 'model.dat', 'MODEL.DAT', 'model', 'Model', 'run1.txt', 'x.DAT'])
    case['simulator'] = rng.choice(AUT_SIMS) if flavour == 'A' else ''
    multi = []
    if rng.random() < 0.6:
        multi = [('num_components', 1), ('num_equations', 2), ('num_phases', 2), ('num_secondary_parameters', 6)]
        if flavour == 'A' and rng.random() < 0.8: multi.append(('eos', rng.choice(['EW', 'EWC', 'EW'])))
        if flavour == 'T' and rng.random() < 0.5: multi.append(('num_inc', rng.choice([None, 2])))
        if rng.random() < 0.2: rng.shuffle(multi)
    case['multi'] = multi
    lineq, solver = [], []
    if (flavour == 'A' and rng.random() < 0.6) or (flavour == 'T' and rng.random() < 0.08):
        lineq = [('type', rng.choice([0, 1, 2, 3, 4, 5])), ('epsilon', rng.choice([None, 2. ** -20])), ('max_iterations', rng.choice([None, 50]))]
        if not wf:
            r = rng.random()
            if r < 0.4: lineq = lineq[1:]
            elif r < 0.7: lineq[0] = ('type', None)
            elif r < 0.85: lineq[0] = ('type', 1.5)
    if (flavour == 'T' and rng.random() < 0.6) or (flavour == 'A' and rng.random() < 0.08):
        solver = [('type', rng.choice([0, 1, 2, 3, 4, 5, 6, 7, 9, 3, 5])), ('z_precond', 'Z1'), ('o_precond', 'O0'),
                  ('relative_max_iterations', 0.125), ('closure', 2. ** -20)]
        if rng.random() < 0.25: solver = solver[1:]
        elif not wf:
            r = rng.random()
            if r < 0.5: solver[0] = ('type', None)
            elif r < 0.8: solver[0] = ('type', 2.0)
            else: solver[0] = ('type', -3)
    case['lineq'], case['solver'] = lineq, solver
    case['option'] = rand_option(rng)
    nr = rng.choice([1, 1, 2, 3]) if geo else rng.choice([0, 1, 2])
    case['rocks'] = [('rock%d' % i, Fraction(rng.randint(0, 15), 16), Fraction(rng.randint(0, 40), 4), 800 + rng.randint(0, 400))
                     for i in range(nr)]
    # generators
    pool_blocks = blocks[:6] if blocks else ['aaa 1', 'aaa 2', 'bbb 1']
    gens = []
    for k in range(rng.choice([0, 1, 2, 3, 4, 6, 8])):
        r = rng.random()
        if flavour == 'A':
            typ = rng.choice(T2_TYPES) if r < 0.35 else rng.choice(CONVERTIBLE) if r < 0.5 else rng.choice(AUT_ONLY) if r < 0.9 else rng.choice(ODD_TYPES)
        else:
            typ = rng.choice(T2_TYPES) if r < 0.85 else rng.choice(CONVERTIBLE + AUT_ONLY + ODD_TYPES)
        gens.append((k + 1, rng.choice(pool_blocks), rng.choice(GEN_NAMES), typ, 10 + k))
    if gens and rng.random() < 0.12:
        gens.insert(rng.randint(0, len(gens)), rng.choice(gens))      # one object listed twice
    case['gens'] = gens
    case['free_gens'] = [(900, rng.choice(pool_blocks), 'fre 1', rng.choice(T2_TYPES + AUT_ONLY), 5)] if rng.random() < 0.1 else []
    allg = gens + case['free_gens']
    short = {'freq': None, 'block': None, 'con': None, 'gen': None}
    hb, hc, hg = [], [], []
    if (flavour == 'A' and rng.random() < 0.7) or (flavour == 'T' and rng.random() < 0.05):
        if rng.random() < 0.5: short['freq'] = (rng.choice([None, 0, 2, 5, 7, 12, 99, 100, 123, -3]),)
        if rng.random() < 0.6: short['block'] = (rand_items(rng, 'block', blocks, cons, allg, rng.random() < 0.1),)
        if rng.random() < 0.5: short['con'] = (rand_items(rng, 'con', blocks, cons, allg, rng.random() < 0.1),)
        if rng.random() < 0.6: short['gen'] = (rand_items(rng, 'gen_as_gen', blocks, cons, allg, rng.random() < 0.1),)
    if (flavour == 'T' and rng.random() < 0.75) or (flavour == 'A' and rng.random() < 0.1):
        bare = (not blocks) or rng.random() < 0.15
        if rng.random() < 0.6: hb = rand_items(rng, 'block', blocks, cons, allg, bare)
        if rng.random() < 0.5: hc = rand_items(rng, 'con', blocks, cons, allg, bare)
        if rng.random() < 0.6: hg = rand_items(rng, rng.choice(['gen_as_block', 'gen_as_block', 'gen_as_gen']), blocks, cons, allg, bare)
        if rng.random() < 0.1 and blocks and hb: hb.append(('S', 'zzz 9'))       # objects and a bare name mixed
    case['short'], case['hb'], case['hc'], case['hg'] = short, hb, hc, hg
    case['other'] = [k for k in OTHER_KW if rng.random() < 0.25]
    case['sections'] = None
    case['wf'] = wf
    return case


def initial_sections(rng, case):
    """`_sections` of an object as a file read (or a previous write) would leave it: the present sections,
    usually in standard order, sometimes permuted, sometimes stale or empty"""
    b = build(dict(case, sections=[]))
    present = list(b.d.present_sections)
    r = rng.random()
    if r < 0.55: return present
    if r < 0.7: return []
    if r < 0.8:
        # standard order, some present sections not yet listed, some stale ones still listed
        return [k for k in SECTION_ORDER if (k in present and rng.random() < 0.8) or (k not in present and rng.random() < 0.1)]
    if r < 0.88:
        p = list(present); rng.shuffle(p); return p
    p = [k for k in present if rng.random() < 0.7]
    extra = [k for k in SECTION_ORDER if k not in present and rng.random() < 0.15]
    p += extra
    if rng.random() < 0.5: rng.shuffle(p)
    if p and rng.random() < 0.1: p.append(p[0])          # a keyword that occurred twice in the file
    return p


def rand_ops(rng, case, flavour):
    ops = []
    pool_blocks = geo_names(case['geo'])[0][:6] if case['geo'] else ['aaa 1', 'aaa 2', 'bbb 1']
    for k in range(rng.choice([1, 2, 3, 4, 5])):
        r = rng.random()
        if r < 0.12: ops.append(('toT2', rng.random() < 0.3))
        elif r < 0.24: ops.append(('toA2', rng.random() < 0.3, rng.choice(['AUTOUGH2.2', 'AUTOUGH2', 'MULKOM', 'AUTOUGH2.2EW', '']), rng.choice(['EW', 'EWC', 'W', ''])))
        elif r < 0.34: ops.append(('setType', rng.choice(['TOUGH2', 'AUTOUGH2', 'TOUGH2', 'AUTOUGH2', 'tough2', 'TOUGH3', ''])))
        elif r < 0.42: ops.append(('paramsA2T', rng.random() < 0.3))
        elif r < 0.50: ops.append(('paramsT2A', rng.random() < 0.3))
        elif r < 0.58: ops.append(('gensA2T',))
        elif r < 0.63: ops.append(('s2h',))
        elif r < 0.68: ops.append(('h2s',))
        elif r < 0.78:
            ops.append(('addGen', (2000 + k, rng.choice(pool_blocks), rng.choice(GEN_NAMES), rng.choice(T2_TYPES + AUT_ONLY + CONVERTIBLE), 50 + k)))
        elif r < 0.86: ops.append(('delGen', rng.choice(pool_blocks), rng.choice(GEN_NAMES)))
        elif r < 0.91: ops.append(('insSec', rng.choice(SECTION_ORDER + ['XXXXX'])))
        elif r < 0.95: ops.append(('delSec', rng.choice(SECTION_ORDER + ['XXXXX'])))
        else: ops.append(('updSec',))
    return ops


def conv_case(rng, mode):
    """mode: a2t | t2a | mixed"""
    if mode == 'a2t':
        case = rand_model(rng, 'A', wf=rng.random() < 0.95)
        case['ops'] = [('toT2', rng.random() < 0.35, rng.random() < 0.5)] if rng.random() < 0.8 else [('setType', 'TOUGH2')]
    elif mode == 't2a':
        case = rand_model(rng, 'T', wf=rng.random() < 0.95)
        if rng.random() < 0.8:
            case['ops'] = [('toA2', rng.random() < 0.35, rng.choice(['AUTOUGH2.2', 'AUTOUGH2.2', 'AUTOUGH2', 'MULKOM']), rng.choice(['EW', 'EW', 'EWC', 'EWAV']))]
        else:
            case['ops'] = [('setType', 'AUTOUGH2')]
    else:
        fl = rng.choice('AT')
        case = rand_model(rng, fl, wf=rng.random() < 0.85)
        case['ops'] = rand_ops(rng, case, fl)
    case['mode'] = mode
    case['sections'] = initial_sections(rng, case)
    return case


def mop_cases():
    """every digit 0..9 at every MOP position, both directions, MP off/on, on a minimal model (exhaustive)"""
    for direction in ('a2t', 't2a'):
        for mp in (False, True):
            for pos in range(1, 25):
                for dig in range(10):
                    opt = [0] * 25; opt[pos] = dig
                    case = {'geo': None, 'filename': '', 'simulator': 'AUTOUGH2.2EW' if direction == 'a2t' else '',
                            'multi': [], 'lineq': [], 'solver': [], 'option': opt,
                            'rocks': [('rock0', Fraction(1, 4), Fraction(5, 2), 900)], 'gens': [], 'free_gens': [],
                            'short': {'freq': None, 'block': None, 'con': None, 'gen': None}, 'hb': [], 'hc': [], 'hg': [],
                            'other': [], 'wf': True, 'mode': 'mop-' + direction,
                            'sections': ['SIMUL', 'ROCKS', 'PARAM', 'ELEME', 'CONNE'] if direction == 'a2t' else ['ROCKS', 'PARAM', 'ELEME', 'CONNE']}
                    case['ops'] = [('toT2', mp, False)] if direction == 'a2t' else [('toA2', mp, 'AUTOUGH2.2', 'EW')]
                    yield case


def case_json(case):
    """JSON-able copy (Fractions as [num, den])"""
    def conv(x):
        if isinstance(x, Fraction): return {'frac': [x.numerator, x.denominator]}
        if isinstance(x, (list, tuple)): return [conv(y) for y in x]
        if isinstance(x, dict): return {k: conv(v) for k, v in x.items()}
        return x
    return conv(case)


def case_unjson(j):
    def conv(x):
        if isinstance(x, dict):
            if set(x) == {'frac'}: return Fraction(x['frac'][0], x['frac'][1])
            return {k: conv(v) for k, v in x.items()}
        if isinstance(x, list): return tuple(conv(y) for y in x)
        return x
    c = conv(j)
    # lists that the builders index / extend must be lists again
    def L(x): return list(x) if x is not None else None
    for k in ('sections', 'option', 'rocks', 'gens', 'free_gens', 'hb', 'hc', 'hg', 'other', 'ops', 'multi', 'lineq', 'solver'):
        if k in c: c[k] = L(c[k])
    if c.get('geo'):
        for k in ('dx', 'dy', 'dz'): c['geo'][k] = list(c['geo'][k])
    sh = c.get('short')
    if sh:
        for k in ('freq', 'block', 'con', 'gen'):
            if sh.get(k) is not None:
                sh[k] = (sh[k][0],) if k == 'freq' else (list(sh[k][0]),)
    return c


# ------------------------------------------------------------------ direct oracle: conversion

def snap_grid(d):
    def arr(x):
        return None if x is None else [float(v) for v in x]
    blocks = [(b.name, float(b.volume), b.rocktype.name if b.rocktype is not None else None, arr(b.centre), b.atmosphere)
              for b in d.grid.blocklist]
    cons = [(tuple(b.name for b in c.block), [float(x) for x in c.distance], float(c.area), c.direction,
             None if c.dircos is None else float(c.dircos)) for c in d.grid.connectionlist]
    return blocks, cons, sorted(d.grid.block.keys()), sorted(d.grid.connection.keys())


def snap_rock(rt):
    out = {}
    for k, v in rt.__dict__.items():
        if hasattr(v, 'tolist'): v = v.tolist()
        out[k] = copy.deepcopy(v)
    return out


def snap_gen(g):
    return {k: copy.deepcopy(v) for k, v in g.__dict__.items()}


def request_names(items, kind):
    """what a list of requests refers to: block names / name pairs / (for generator requests) the block concerned"""
    import t2data as T, t2grids
    out = []
    for x in items:
        if kind == 'con':
            if isinstance(x, tuple): out.append(tuple(x))
            elif isinstance(x, t2grids.t2connection): out.append(tuple(b.name for b in x.block))
            else: out.append(('?', repr(x)))
        else:
            if isinstance(x, str): out.append(x)
            elif isinstance(x, t2grids.t2block): out.append(x.name)
            elif isinstance(x, T.t2generator): out.append(x.block)
            else: out.append('?' + repr(x))
    return out


def V(key, what, case):
    return dict(key=key, what=what, case=case_json(case))


def file_keywords(path, order):
    """section keywords of a data file in file order (the ELEME/CONNE/GENER sub-headings inside SHORT are skipped)"""
    kws = []
    with open(path) as f:
        lines = f.read().split('\n')
    in_short = False
    for ln in lines[1:]:
        if in_short:
            if not ln.strip(): in_short = False
            continue
        k = ln[0:5].rstrip()
        if k[0:5] == 'SHORT' and len(ln) <= 8:          # 'SHORT' + '%2d' % frequency
            k = 'SHORT'
        if k in order and (ln[5:].strip() == '' or k == 'SHORT'):
            kws.append(k)
            in_short = (k == 'SHORT')
    return kws


def file_like(sections, order):
    """could `_sections` have come from reading (or writing) a file that PyTOUGH itself can read back: keywords in
    the standard relative order, none twice (ROCKS before ELEME before CONNE, the grid before SHORT/FOFT/...)"""
    idx = [order.index(k) for k in sections if k in order]
    return len(idx) == len(sections) and all(a < b for a, b in zip(idx, idx[1:]))


def roundtrip(b, tmp, tag):
    """write the real object and read the file back with a fresh t2data"""
    import t2data as T
    path = os.path.join(str(tmp), 'c20_%s.dat' % tag)
    old = b.d.filename
    quiet(b.d.write, path)
    e = quiet(T.t2data, path)
    b.d.filename = old
    return path, e


def oracle_to_tough2(case, b, before, tmp, order):
    """clauses of the property for AUTOUGH2 -> TOUGH2, evaluated on the real converted object `b.d`"""
    import t2data as T
    d = b.d
    out = []
    if d.type != 'TOUGH2':
        out.append(V('to-tough2:type', 'after convert_to_TOUGH2 the model declares itself %r' % d.type, case))
    for what, val in (('simulator', d.simulator), ('lineq', d.lineq), ('short_output', d.short_output)):
        if val:
            out.append(V('to-tough2:autough2-data-left:' + what, 'after convert_to_TOUGH2 %s is still %r' % (what, val), case))
    if 'eos' in d.multi:
        out.append(V('to-tough2:autough2-data-left:eos', 'after convert_to_TOUGH2 MULTI still names the EOS %r' % (d.multi['eos'],), case))
    for k in ('SIMUL', 'LINEQ', 'SHORT'):
        if k in d.present_sections:
            out.append(V('to-tough2:section-left:' + k, 'after convert_to_TOUGH2 section %s is still present' % k, case))
    # generators
    kept = []
    listed = {id(g) for g in d.generatorlist}
    looked = {id(g) for g in d.generator.values()}
    for g, snap in before['gens']:
        t0 = snap['type']
        if tough2_type(t0):
            kept.append(g)
            if snap_gen(g) != snap:
                out.append(V('to-tough2:generator-changed', 'generator %s:%s of TOUGH2 type %r was modified' % (snap['block'], snap['name'], t0), case))
        elif t0 == 'CO2 ':
            kept.append(g)
            s2 = dict(snap); s2['type'] = 'COM2'
            if snap_gen(g) != s2:
                out.append(V('to-tough2:convertible-not-converted', 'CO2 generator %s:%s became %r' % (snap['block'], snap['name'], g.type), case))
        else:
            if id(g) in listed or id(g) in looked:
                where = ' and '.join(w for w, c in (('list', id(g) in listed), ('lookup', id(g) in looked)) if c)
                out.append(V('unsupported-generators-not-deleted',
                             'generator %s:%s of type %r (not a TOUGH2 type) is still in the %s after convert_to_TOUGH2' % (snap['block'], snap['name'], t0, where), case))
    if [id(g) for g in d.generatorlist if id(g) in {id(k) for k in kept}] != [id(g) for g in kept] or \
            any(id(g) not in {id(k) for k, _ in before['gens']} for g in d.generatorlist):
        out.append(V('to-tough2:generator-order', 'remaining generators are not the original ones in their order', case))
    for key, g in before['lookup']:
        if any(g is k for k in kept) and d.generator.get(key) is not g:
            out.append(V('to-tough2:lookup-changed', 'lookup entry %r of a remaining generator was lost' % (key,), case))
    for g in d.generatorlist:
        if not tough2_type(g.type):
            out.append(V('unsupported-generators-not-deleted', 'generator %s:%s has type %r after convert_to_TOUGH2' % (g.block, g.name, g.type), case))
    # grid
    if snap_grid(d) != before['grid']:
        out.append(V('to-tough2:grid-changed', 'grid changed by convert_to_TOUGH2', case))
    # rock types
    mop10, mop23 = before['option'][10], before['option'][23]
    if [id(r) for r in d.grid.rocktypelist] != [id(r) for r, _ in before['rocks']]:
        out.append(V('to-tough2:rock-changed', 'rock type list changed', case))
    else:
        for rt, snap in before['rocks']:
            now = snap_rock(rt)
            c0, por = snap['conductivity'], snap['porosity']
            allowed = [c0]
            if mop10 == 2 or mop23 > 0:
                allowed += [c0 * (1. - por), c0 * (1. - por) * (1. - por)]
            cond = now.pop('conductivity'); s2 = dict(snap); s2.pop('conductivity')
            if now != s2 or cond not in allowed:
                out.append(V('to-tough2:rock-changed', 'rock type %s changed beyond the documented conductivity rescaling (%r -> %r, porosity %r, MOP(10)=%d MOP(23)=%d)'
                             % (rt.name, c0, cond, por, mop10, mop23), case))
    # history requests = former short-output requests (or the former history list where SHORT had no such list)
    so = before['short']
    for key, pk, kind, now in (('block', 'block', 'block', d.history_block), ('connection', 'con', 'con', d.history_connection),
                               ('generator', 'gen', 'gen', d.history_generator)):
        want = so[key] if key in so else before['hist'][pk]
        if request_names(now, kind) != request_names(want, kind):
            out.append(V('to-tough2:history-changed', '%s history requests are %r, the short-output requests were %r'
                         % (key, request_names(now, kind), request_names(want, kind)), case))
    # file round trip
    if not out and file_like(case['sections'], order):
        out += oracle_roundtrip(case, b, tmp, order, 'T')
    return out


def gen_tuple(g):
    return (g.block, g.name, g.type, float(g.gx))


def oracle_roundtrip(case, b, tmp, order, flavour):
    """the converted model survives write() + read()"""
    import t2data as T
    d = b.d
    out = []
    try:
        path, e = roundtrip(b, tmp, 'rt')
    except Exception as ex:
        return [V('roundtrip:raises:' + type(ex).__name__, 'write/read of the converted model raises %s: %s' % (type(ex).__name__, ex), case)]
    if e.type != d.type:
        out.append(V('roundtrip:type', 'converted model is %s, the file reads back as %s' % (d.type, e.type), case))
    if flavour == 'A' and e.simulator.strip() != d.simulator.strip():
        out.append(V('roundtrip:simulator', 'simulator %r reads back as %r' % (d.simulator, e.simulator), case))
    kws = file_keywords(path, order)
    bad = [k for k in kws if k in (('SIMUL', 'LINEQ', 'SHORT') if flavour == 'T' else ('SOLVR', 'FOFT', 'COFT', 'GOFT'))]
    if bad:
        out.append(V('roundtrip:foreign-section:' + bad[0], 'the file written after conversion contains section %s' % bad[0], case))
    if list(e._sections) != list(d._sections):
        out.append(V('roundtrip:sections', 'sections written %r, read back %r' % (d._sections, e._sections), case))
    if [gen_tuple(g) for g in e.generatorlist] != [gen_tuple(g) for g in d.generatorlist]:
        out.append(V('roundtrip:generators', 'generators %r read back as %r' % ([gen_tuple(g) for g in d.generatorlist], [gen_tuple(g) for g in e.generatorlist]), case))
    if [int(x) for x in e.parameter['option']] != [int(x) for x in d.parameter['option']]:
        out.append(V('roundtrip:mop', 'MOP digits %r read back as %r' % (list(d.parameter['option']), list(e.parameter['option'])), case))
    ra = [(r.name, float(r.porosity), float(r.conductivity)) for r in d.grid.rocktypelist]
    rb = [(r.name, float(r.porosity), float(r.conductivity)) for r in e.grid.rocktypelist]
    if len(ra) != len(rb) or any(x[0] != y[0] or abs(x[1] - y[1]) > 1e-4 * max(1, abs(x[1])) or abs(x[2] - y[2]) > 1e-4 * max(1, abs(x[2])) for x, y in zip(ra, rb)):
        out.append(V('roundtrip:rocks', 'rock types %r read back as %r' % (ra, rb), case))
    if [blk.name for blk in e.grid.blocklist] != [blk.name for blk in d.grid.blocklist]:
        out.append(V('roundtrip:grid', 'grid blocks differ after the round trip', case))
    if flavour == 'T':
        have_grid = d.grid.num_blocks > 0
        for kind, a, r in (('block', d.history_block, e.history_block), ('con', d.history_connection, e.history_connection)):
            na, nr = request_names(a, kind), request_names(r, kind)
            if have_grid:       # requests for things that are not in the grid are documented as dropped on read
                known = set(d.grid.block) if kind == 'block' else set(d.grid.connection)
                na = [x for x in na if x in known]
            if na != nr:
                out.append(V('roundtrip:history-' + kind, '%s history requests %r read back as %r' % (kind, na, nr), case))
        na, nr = request_names(d.history_generator, 'gen'), request_names(e.history_generator, 'gen')
        if have_grid: na = [x for x in na if x in d.grid.block]
        if na != nr:
            if any(isinstance(x, T.t2generator) for x in d.history_generator):
                out.append(V('goft-generator-request-lost-on-roundtrip',
                             'history generator requests for blocks %r (t2generator items copied from the short output) read back as %r: '
                             'GOFT is written with the generator names and read as block names' % (na, nr), case))
            else:
                out.append(V('roundtrip:history-gen', 'generator history requests %r read back as %r' % (na, nr), case))
    else:
        so, se = d.short_output, e.short_output
        for key, kind in (('block', 'block'), ('connection', 'con')):
            na = request_names(so.get(key, []), kind); nr = request_names(se.get(key, []), kind)
            known = set(d.grid.block) if kind == 'block' else set(d.grid.connection)
            na = [x for x in na if x in known]
            if na != nr:
                out.append(V('roundtrip:short-' + kind, 'short-output %s requests %r read back as %r' % (key, na, nr), case))
        ga = [(g.block, g.name) for g in so.get('generator', []) if (g.block, g.name) in d.generator]
        gr = [(g.block, g.name) for g in se.get('generator', [])]
        if ga != gr:
            out.append(V('roundtrip:short-gen', 'short-output generator requests %r read back as %r' % (ga, gr), case))
        if (d.lineq.get('type'), ) != (e.lineq.get('type'),):
            out.append(V('roundtrip:lineq', 'LINEQ type %r reads back as %r' % (d.lineq.get('type'), e.lineq.get('type')), case))
    return out


def oracle_to_autough2(case, b, before, tmp, order):
    """the mirror image, TOUGH2 -> AUTOUGH2"""
    import t2data as T, t2grids
    d = b.d
    out = []
    if d.type != 'AUTOUGH2':
        out.append(V('to-autough2:type', 'after convert_to_AUTOUGH2 the model declares itself %r' % d.type, case))
    for what, val in (('solver', d.solver), ('history_block', d.history_block), ('history_connection', d.history_connection),
                      ('history_generator', d.history_generator)):
        if val:
            out.append(V('to-autough2:tough2-data-left:' + what, 'after convert_to_AUTOUGH2 %s is still %r' % (what, val), case))
    for k in ('SOLVR', 'FOFT', 'COFT', 'GOFT'):
        if k in d.present_sections:
            out.append(V('to-autough2:section-left:' + k, 'after convert_to_AUTOUGH2 section %s is still present' % k, case))
    for k in ('SIMUL', 'LINEQ'):
        if k not in d.present_sections:
            out.append(V('to-autough2:section-missing:' + k, 'after convert_to_AUTOUGH2 there is no %s data' % k, case))
    if d.multi and not d.multi.get('eos'):
        out.append(V('to-autough2:eos-missing', 'MULTI is present but names no EOS after convert_to_AUTOUGH2', case))
    if [id(g) for g in d.generatorlist] != [id(g) for g, _ in before['gens']] or any(snap_gen(g) != s for g, s in before['gens']):
        out.append(V('to-autough2:generator-changed', 'generators changed by convert_to_AUTOUGH2', case))
    if [(k, id(g)) for k, g in d.generator.items()] != [(k, id(g)) for k, g in before['lookup']]:
        out.append(V('to-autough2:lookup-changed', 'generator lookup changed by convert_to_AUTOUGH2', case))
    if snap_grid(d) != before['grid']:
        out.append(V('to-autough2:grid-changed', 'grid changed by convert_to_AUTOUGH2', case))
    if [id(r) for r in d.grid.rocktypelist] != [id(r) for r, _ in before['rocks']] or any(snap_rock(r) != s for r, s in before['rocks']):
        out.append(V('to-autough2:rock-changed', 'rock types changed by convert_to_AUTOUGH2', case))
    # history requests -> short output
    so = d.short_output
    hist = before['hist']
    for key, pk, kind, cls in (('block', 'block', 'block', t2grids.t2block), ('connection', 'con', 'con', t2grids.t2connection)):
        want = request_names([x for x in hist[pk] if isinstance(x, cls)], kind)
        # (bare names may be dropped, as documented; keeping them would not be a loss either)
        got = request_names([x for x in so.get(key, []) if isinstance(x, cls)], kind)
        if want != got:
            out.append(V('to-autough2:history-changed', '%s history requests %r became short-output requests %r' % (key, want, got), case))
    got = so.get('generator', [])
    if any(not isinstance(x, T.t2generator) for x in got):
        out.append(V('to-autough2:short-gen-items', 'short_output generator list holds %r' % (got,), case))
    else:
        got_blocks = [g.block for g in got]
        gen_blocks = {g.block for g in d.generatorlist}
        for x in hist['gen']:
            if isinstance(x, T.t2generator):
                if not any(g is x for g in got):
                    out.append(V('to-autough2:history-changed', 'generator request %s:%s was dropped' % (x.block, x.name), case))
            elif isinstance(x, t2grids.t2block) and x.name in d.grid.block and x.name in gen_blocks:
                if x.name not in got_blocks:
                    out.append(V('goft-block-request-dropped-to-autough2',
                                 'GOFT request for block %r (which holds a generator) left no SHORT generator request: '
                                 'convert_history_to_short keeps only t2generator items' % x.name, case))
                    break
        req = set(request_names(hist['gen'], 'gen'))
        if any(g.block not in req for g in got):
            out.append(V('to-autough2:short-invented', 'short-output generator requests %r were never requested (%r)' % (got_blocks, sorted(req)), case))
    if not [v for v in out if v['key'] != 'goft-block-request-dropped-to-autough2'] and file_like(case['sections'], order):
        out += oracle_roundtrip(case, b, tmp, order, 'A')
    return out


def snapshot(b):
    d = b.d
    return {'grid': snap_grid(d), 'rocks': [(r, snap_rock(r)) for r in d.grid.rocktypelist],
            'gens': [(g, snap_gen(g)) for g in d.generatorlist], 'lookup': list(d.generator.items()),
            'short': dict((k, list(v) if isinstance(v, list) else v) for k, v in d.short_output.items()),
            'hist': {'block': list(d.history_block), 'con': list(d.history_connection), 'gen': list(d.history_generator)},
            'option': [int(x) for x in d.parameter['option']], 'type': d.type}


def in_scope(case, before):
    """is the single conversion of this case one the property speaks about?  (right source flavour, well-formed
    LINEQ / SOLVR type; the type setter with default arguments counts)"""
    ops = case['ops']
    if len(ops) != 1: return None
    op = ops[0]
    if not case.get('wf', True): return None
    if op[0] == 'toT2' or (op[0] == 'setType' and op[1] == 'TOUGH2'):
        return 'a2t' if before['type'] == 'AUTOUGH2' else None
    if op[0] == 'toA2' or (op[0] == 'setType' and op[1] == 'AUTOUGH2'):
        if op[0] == 'toA2' and not (op[2].strip() and op[3].strip()): return None
        return 't2a' if before['type'] == 'TOUGH2' else None
    return None


def oracle_conversion(case, tmp, order):
    """build, convert, evaluate the property; returns (violations, Built, outcome, state after, state before)"""
    b = build(case)
    st0 = extract(b)
    before = snapshot(b)
    scope = in_scope(case, before)
    outcome = ('ok', None)
    for i, op in enumerate(case['ops']):
        e = apply_op(b, op)
        if e is not None:
            outcome = ('exc', (e, i)); break
    st1 = extract(b)
    viol = []
    if scope:
        if outcome[0] == 'exc':
            viol.append(V('%s:raises:%s' % ('to-tough2' if scope == 'a2t' else 'to-autough2', outcome[1][0]),
                          'conversion raises %s and leaves the object half converted' % outcome[1][0], case))
        elif scope == 'a2t':
            viol = oracle_to_tough2(case, b, before, tmp, order)
        else:
            viol = oracle_to_autough2(case, b, before, tmp, order)
    return viol, b, outcome, st1, st0, scope


# ------------------------------------------------------------------ Waiwera export: cases, real run, oracle

EOS_TABLE = {'W': 'w', 'EW': 'we', 'EWC': 'wce', 'EWAV': 'wae', 'EWT': 'we', 'EWTD': 'we'}    # the oracle's own copy
EOS_INDEX = {1: 'EW', 2: 'EWC', 4: 'EWAV'}
WAI_TYPES = ['MASS', 'HEAT', 'COM1', 'COM2', 'WATE', 'AIR ', 'DELV', 'DELG', 'DELS', 'DELT', 'DELW', 'DMAK', 'DMAT', 'RECH',
             'IMAK', 'XINJ', 'FINJ', 'PINJ', 'RINJ', 'TMAK', 'MASD', 'TRAC', 'NACL', 'COMX']
WAI_UNSUPPORTED = ['CO2 ', 'FEED', 'HLOS', 'MAKE', 'POWR', 'TOST', 'VOL.', 'WBRE', 'WFLO', 'XIN2']


def wai_case(rng, geo=None):
    """geo given: a case on that geometry (sequence facet); the draws of the plain stream are unchanged"""
    if geo is None:
        geo = rand_geo(rng)
        if rng.random() < 0.3:
            geo['dx'] = [rng.choice([5., 10.]) for _ in range(rng.randint(1, 4))]
            geo['dz'] = [rng.choice([2., 5.]) for _ in range(rng.randint(1, 4))]
    blocks, cons = geo_names(geo)
    nr = rng.choice([1, 2, 3])
    case = {'geo': geo, 'rocks': ['rock%d' % i for i in range(nr)], 'assign': [rng.randrange(nr) for _ in blocks]}
    vol = {}
    natm = {0: 1, 1: len(geo['dx']) * len(geo['dy']), 2: 0}[geo['atm']]
    for k, bn in enumerate(blocks):
        r = rng.random()
        if r < 0.08: vol[bn] = 0.0
        elif r < 0.16:
            # an atmosphere block (no centre) stays a boundary block whatever atmos_volume is used below
            vol[bn] = rng.choice([1.e25, 1.e30, 1.e50] if k < natm else [1.e25, 1.e30, 1.e50, 1.e20])
    if rng.random() < 0.3: vol = {}
    case['vol'] = vol
    case['atmos_volume'] = rng.choice([1.e25, 1.e25, 1.e25, 1.e20, 1.e30])
    name = rng.choice(list(EOS_TABLE))
    mode = rng.choice(['explicit', 'index', 'multi', 'sim', 'sim', 'multi+sim', 'none', 'unsupported'])
    sim, multi, arg = '', [], None
    base = rng.choice(['AUTOUGH2.2', 'AUTOUGH2', 'MULKOM', 'AUTOUGH2.2 ', 'XYZ'])
    if mode == 'explicit': arg = name; sim = rng.choice(['', base + 'EW'])
    elif mode == 'index':
        i = rng.choice([1, 2, 4]); arg = i; name = EOS_INDEX[i]
    elif mode == 'multi':
        multi = [('num_components', 1), ('eos', rng.choice([name, name + ' ', ' ' + name]))]; sim = rng.choice(['', base])
    elif mode == 'sim':
        sim = base + name
        if rng.random() < 0.4: multi = [('num_components', 1), ('num_equations', 2)] + ([('eos', rng.choice(['', '  ', None]))] if rng.random() < 0.5 else [])
    elif mode == 'multi+sim':
        other = rng.choice(list(EOS_TABLE)); multi = [('eos', name)]; sim = base + other
    elif mode == 'none':
        sim = rng.choice(['', base, 'AUTOUGH2.2ex']); multi = rng.choice([[], [('num_components', 1)], [('eos', '')]]); name = None
        if rng.random() < 0.3: arg = rng.choice([0, 5, 7, '']); 
    else:
        name = None
        r = rng.random()
        if r < 0.3: arg = rng.choice(['EWA', 'EOS1', 'ew', 3])
        elif r < 0.6: multi = [('eos', rng.choice(['EWA', 'XX', 'ew']))]
        else: multi = [('eos', 'EWA')]; sim = base + 'EW'
    case['eos'] = {'mode': mode, 'name': name, 'arg': arg}
    case['simulator'], case['multi'] = sim, multi
    case['incons'] = [1.e5, 20., 0.25, 0.0][:rng.choice([4, 4, 4, 4, 4, 4, 4, 3, 2, 1, 0])]
    gens = []
    pool = blocks + ['zzz 9']
    wf = True
    for k in range(rng.choice([0, 1, 2, 3, 5, 8])):
        r = rng.random()
        typ = rng.choice(WAI_TYPES) if r < 0.95 else rng.choice(WAI_UNSUPPORTED)
        if typ in WAI_UNSUPPORTED: wf = False
        gens.append((k + 1, rng.choice(pool), rng.choice(GEN_NAMES + ['', 'wel 1']), typ, 10 + k))
    case['gens'] = gens
    case['wf_gens'] = wf
    return case


def wai_install(d, case, geo=None, keep=None, vol0=None):
    """put the whole content of a Waiwera case into the data object d -- a new one, or one that held (and exported) another
    model before.  Everything a case determines is (re)set, so that afterwards d has the same public content as a new object
    given the same case.  keep = (geo object, {block: volume as made by fromgeo}): the grid of d was made from that very
    geometry and is edited in place instead of being replaced; vol0: dict that receives those volumes when a grid is made"""
    import t2data as T, t2grids
    if keep is not None:
        geo, vol0 = keep
        for blk in d.grid.blocklist: blk.volume = vol0[blk.name]
    else:
        if geo is None: geo = make_geo(case['geo'])
        d.grid = quiet(t2grids.t2grid().fromgeo, geo)
        if vol0 is not None: vol0.update((blk.name, blk.volume) for blk in d.grid.blocklist)
    d.title = 'c20 waiwera'; d.filename = 'model.dat'
    d.grid.rocktypelist = []; d.grid.rocktype = {}
    for n in case['rocks']:
        d.grid.add_rocktype(t2grids.rocktype(name=n))
    for blk, r in zip(d.grid.blocklist, case['assign']):
        blk.rocktype = d.grid.rocktypelist[r]
    for bn, v in case['vol'].items():
        d.grid.block[bn].volume = v
    d.simulator = case['simulator']
    d.multi = dict(case['multi'])
    d.parameter['default_incons'] = list(case['incons'])
    if case['eos']['name'] == 'EWTD' or 'EWTD' in case['simulator'] or any(v == 'EWTD' for _, v in case['multi']) or case['eos']['arg'] == 'EWTD':
        d.diffusion = [[-1.e-6, -1.e-6], [-1.e-6, -1.e-6]]
    else:
        d.diffusion = []
    d.clear_generators()
    for spec in case['gens']:
        d.add_generator(mk_gen(T, spec))
    return geo


def wai_build(case):
    import t2data as T
    d = T.t2data()
    geo = wai_install(d, case)
    return geo, d


def exc_name(e):
    return type(e).__name__


WAI_CALLS = ['eos', 'rocks', 'src', 'faces', 'full']


def wai_real(case, calls=None):
    """run the pieces of the export on the real code; canonical observations"""
    geo, d = wai_build(case)
    return (geo, d) + wai_observe(case, geo, d, calls)


def wai_observe(case, geo, d, calls=None):
    """the export calls on the data object d holding the case (calls: the order they are made in; default WAI_CALLS)"""
    obs = {'faces': None}
    arg = case['eos']['arg']
    st = {'eosname': 'we', 'full': None, 'err': None}

    def c_eos():
        try:
            j, tr = quiet(d.eos_json, arg)
            obs['eos'] = 'ok %s %d' % (eS(j['eos']['name']), 1 if tr else 0)
            st['eosname'] = j['eos']['name']
        except Exception as e:
            obs['eos'] = 'exc ' + exc_name(e); st['eosname'] = 'we'

    def c_rocks():
        try:
            j = quiet(d.rocks_json, geo, case['atmos_volume'], 'xyz')
            cells = [t['cells'] for t in j['rock']['types']]
            obs['rocks'] = 'ok ' + eL(lambda c: eL(lambda i: 'i%d' % int(i), c), cells)
        except Exception as e:
            obs['rocks'] = 'exc ' + exc_name(e)

    def c_src():
        try:
            j = quiet(d.generators_json, geo, st['eosname'])
            src = j.get('source', [])
            obs['src'] = 'ok ' + eL(lambda s: eS(s['name']) + ' ' + ('n' if s['cell'] is None else 'i%d' % int(s['cell'])), src)
        except Exception as e:
            obs['src'] = 'exc ' + exc_name(e)

    def c_faces():
        # boundary faces, block by block: boundary conditions with a different pressure for every block, so that the
        # "collapse equal boundaries" pass leaves one entry per boundary block and the entry can be attributed
        if case['atmos_volume'] <= 1.e25:
            import t2incons
            inc = t2incons.t2incon()
            for k, blk in enumerate(d.grid.blocklist):
                inc[blk.name] = [1.e5 + 8 * k, 20., 0.25, 0.0]
            try:
                j = quiet(d.boundaries_json, geo, inc, case['atmos_volume'], 'we', 'xyz')
                ent = []
                for bc in j['boundaries']:
                    k = int(round((float(bc['primary'][0]) - 1.e5) / 8))
                    f = bc['faces']
                    cells = list(f['cells']) if isinstance(f, dict) else [c for x in f for c in x['cells']]
                    ent.append((d.grid.blocklist[k].name, sorted(int(c) for c in cells)))
                obs['faces'] = ('ok', ent)
            except Exception as e:
                obs['faces'] = ('exc ' + exc_name(e), None)

    def c_full():
        # the whole export
        try:
            st['full'] = quiet(d.json, geo, 'mesh.exo', atmos_volume=case['atmos_volume'], eos=arg)
        except Exception as e:
            import traceback
            st['err'] = (exc_name(e), [f.name for f in traceback.extract_tb(e.__traceback__)][-1], str(e)[:80])

    table = {'eos': c_eos, 'rocks': c_rocks, 'src': c_src, 'faces': c_faces, 'full': c_full}
    for c in (calls or WAI_CALLS):
        table[c]()
    obs['bdy'] = 'ok ' + eL(eS, [b.name for b in d.grid.blocklist if not (0. < b.volume < case['atmos_volume'])])
    return obs, st['full'], st['err']


def wai_requests(case, geo, d):
    """the same questions for the model"""
    arg = case['eos']['arg']
    a = 'n' if arg is None else ('i%d' % arg if isinstance(arg, int) else eS(arg))
    names = list(geo.block_name_list)
    blocks = eL(lambda b: '%s %s %s' % (eS(b.name), eS(b.rocktype.name), eQ(float(b.volume))), d.grid.blocklist)
    gens = eL(eGen, [(i + 1, g.block, g.name, g.type, int(g.gx)) for i, g in enumerate(d.generatorlist)])
    return {
        'eos': 'eos %s %s %s %d' % (a, eD(case['multi']), eS(case['simulator']), len(case['incons'])),
        'rocks': 'rocks %s %s %d %s %s' % (eL(eS, [r.name for r in d.grid.rocktypelist]), eL(eS, names), geo.num_atmosphere_blocks,
                                           blocks, eQ(case['atmos_volume'])),
        'src': 'src %s %d %s %d' % (eL(eS, names), geo.num_atmosphere_blocks, gens, len(d.generator)),
        'bdy': 'bdy %s %s' % (blocks, eQ(case['atmos_volume'])),
        'faces': 'faces %s %d %s %s %s' % (eL(eS, names), geo.num_atmosphere_blocks, blocks, eQ(case['atmos_volume']),
                                           eL(lambda c: eS(c.block[0].name) + ' ' + eS(c.block[1].name), d.grid.connectionlist))}


def VW(key, what, case):
    return dict(key=key, what=what, case={'waiwera': case})


def oracle_waiwera(case, geo, d, full, err, faces=None):
    """the export clauses of the property on the dict returned by json()"""
    out = []
    mode, name = case['eos']['mode'], case['eos']['name']
    nprim = {'w': 1, 'we': 2, 'wce': 3, 'wae': 3}
    expect_ok = name is not None and case['wf_gens']
    if expect_ok:
        need = nprim[EOS_TABLE[name]] + (1 if name in ('EWT', 'EWTD') else 0)
        if name == 'W': need = max(need, 2)
        expect_ok = len(case['incons']) >= need
    if case['atmos_volume'] > 1.e25:
        return out            # the atmosphere blocks themselves would count as cells: not a configuration the property describes
    if not expect_ok:
        return out            # outside the property (no EOS given anywhere, unsupported generator type, too few primaries)
    if err is not None:
        if mode == 'sim' and 'EOS not detected' in err[2]:
            return [VW('eos-not-detected-from-simulator', 'json(): EOS %s given only by the simulator string %r is not recognised (%s)'
                       % (name, case['simulator'], err[2]), case)]
        if err[0] == 'IndexError' and err[1] == 'boundaries_json':
            return [VW('json-boundary-block-without-faces-indexerror', 'json() raises IndexError in boundaries_json (boundary block without interior neighbour)', case)]
        return [VW('json-raises:%s:%s' % (err[0], err[1]), 'json() raises %s in %s: %s' % err, case)]
    if full['eos']['name'] != EOS_TABLE[name]:
        key = 'eos-not-detected-from-simulator' if mode == 'sim' else 'eos-wrong:' + mode
        out.append(VW(key, 'EOS %s (%s) exported as %r' % (name, mode, full['eos']['name']), case))
    # rock cells: a partition of the non-boundary blocks
    nat = geo.num_atmosphere_blocks
    types = full['rock']['types']
    by_name = {}
    for t in types: by_name.setdefault(t['name'], []).append(t)
    allcells = [c for t in types for c in t['cells']]
    n_int = 0
    for i, bn in enumerate(geo.block_name_list):
        blk = d.grid.block[bn]
        cell = i - nat
        interior = 0. < blk.volume < case['atmos_volume']
        cnt = allcells.count(cell)
        if interior:
            n_int += 1
            mine = sum(t['cells'].count(cell) for t in by_name.get(blk.rocktype.name, []))
            if cnt != 1 or mine != 1:
                out.append(VW('rock-cells-partition', 'non-boundary block %r (cell %d, rock %s) occurs %d time(s) in the rock cell lists, %d in its own'
                              % (bn, cell, blk.rocktype.name, cnt, mine), case)); break
        elif cnt != 0:
            out.append(VW('rock-cells-partition', 'boundary block %r (volume %r) occurs in a rock cell list as cell %d' % (bn, blk.volume, cell), case)); break
    if len(allcells) != n_int and not out:
        out.append(VW('rock-cells-partition', '%d cells listed for %d non-boundary blocks' % (len(allcells), n_int), case))
    # boundary faces: block by block (observed through boundaries_json with distinct primaries per block)
    if faces is not None and not out:
        if faces[0] != 'ok':
            out.append(VW('boundary-faces-raise', 'boundaries_json raises %s' % faces[0], case))
        else:
            index = {bn: i for i, bn in enumerate(geo.block_name_list)}
            def is_int(b): return 0. < b.volume < case['atmos_volume']
            want = []
            for blk in d.grid.blocklist:
                if is_int(blk): continue
                cells = []
                for con in d.grid.connectionlist:
                    nm = [b.name for b in con.block]
                    if blk.name in nm:
                        other = con.block[1] if con.block[0] is blk else con.block[0]
                        if is_int(other): cells.append(index[other.name] - nat)
                if cells: want.append((blk.name, sorted(cells)))
            if want != faces[1]:
                out.append(VW('boundary-faces', 'boundary entries (block, face cells) are %r, the boundary blocks and their non-boundary neighbours are %r'
                              % (faces[1][:6], want[:6]), case))
    # sources
    grp = [g for g in d.generatorlist if g.type != 'TMAK']
    src = full.get('source', [])
    if len(src) != len(grp):
        out.append(VW('source-count', '%d sources for %d non-group generators' % (len(src), len(grp)), case))
    else:
        index = {bn: i for i, bn in enumerate(geo.block_name_list)}
        for s, g in zip(src, grp):
            want = index.get(g.block)
            if want is not None:
                want -= nat
                if want < 0: want = None
            if s['cell'] != want:
                out.append(VW('source-cell', 'source %r of generator %s:%s has cell %r, its block is cell %r' % (s['name'], g.block, g.name, s['cell'], want), case)); break
    return out


# ------------------------------------------------------------------ Waiwera export: sequences on ONE data object (hidden state)
#
# A sequence is a list of complete Waiwera cases ("steps").  ONE t2data object receives the content of step 0 and is
# exported, then receives the content of step 1 (grid replaced by t2grid().fromgeo(other geometry) -- a sub-grid, a larger
# grid, another atmosphere type / block order --, or the same grid edited in place) and is exported again, and so on.  Each
# export is judged (a) by the same independent oracle as a single export (rock-cell partition, source cells, boundary
# faces, EOS) and (b) against the export of a NEW data object given the content of that step alone: the public content of
# the two objects is the same, so the exports must be the same JSON structure.

SEQ_DATA_KEYS = ['atmos_volume', 'eos', 'simulator', 'multi', 'incons']


def seq_next_geo(rng, g):
    """a geometry related to g the way a re-gridded / re-exported model is"""
    kind = rng.choice(['sub', 'sub', 'super', 'super', 'atm', 'order', 'same', 'same', 'random'])
    h = copy.deepcopy(g)
    if kind == 'sub':
        for ax in ('dx', 'dy', 'dz'):
            if len(h[ax]) > 1 and rng.random() < 0.6:
                n = rng.randint(1, len(h[ax]) - 1)
                h[ax] = h[ax][:n] if rng.random() < 0.7 else h[ax][-n:]
        if h == g: kind = 'super'
    if kind == 'super':
        cap = {'dx': 5, 'dy': 3, 'dz': 4}
        for ax in ('dx', 'dy', 'dz'):
            if len(h[ax]) < cap[ax] and (rng.random() < 0.6 or ax == 'dx'):
                h[ax] = h[ax] + [rng.choice(h[ax]) for _ in range(rng.randint(1, min(2, cap[ax] - len(h[ax]))))]
    elif kind == 'atm':
        h['atm'] = rng.choice([a for a in (0, 1, 2) if a != g['atm']])
    elif kind == 'order':
        h['order'] = rng.choice([o for o in (None, 'layer_column', 'dmplex') if o != g['order']])
    elif kind == 'random':
        h = rand_geo(rng)
    if kind in ('sub', 'super') and rng.random() < 0.3:
        h['atm'] = rng.choice([0, 1, 2])
    return kind, h


def wai_seq_case(rng):
    """2..4 steps; the data-level settings (EOS source, simulator, MULTI, primaries, atmosphere volume) are those of step 0
    unless a step draws its own"""
    first = wai_case(rng)
    if rng.random() < 0.7:
        # most sequences inside the property: EOS named explicitly, all primaries, default atmosphere volume
        name = rng.choice(list(EOS_TABLE))
        first['eos'] = {'mode': 'explicit', 'name': name, 'arg': name}
        first['incons'] = [1.e5, 20., 0.25, 0.0]; first['atmos_volume'] = 1.e25
        first['multi'] = []; first['simulator'] = rng.choice(['', 'AUTOUGH2.2EW'])
    steps = [first]
    for k in range(rng.choice([1, 1, 2, 3])):
        prev = steps[-1]
        kind, g = seq_next_geo(rng, prev['geo'])
        st = wai_case(rng, geo=g)
        if rng.random() < 0.8:
            for key in SEQ_DATA_KEYS: st[key] = copy.deepcopy(prev[key])
        if rng.random() < 0.5:
            # generators "re-pointed": the same names and types, blocks of the new grid
            blocks, _ = geo_names(g)
            st['gens'] = [(gid, rng.choice(blocks + ['zzz 9']) if b not in blocks else b, n, t, p) for gid, b, n, t, p in prev['gens']]
        st['wf_gens'] = not any(t in WAI_UNSUPPORTED for _, _, _, t, _ in st['gens'])
        st['kind'] = kind
        st['keep_grid'] = (g == prev['geo']) and rng.random() < 0.6
        steps.append(st)
    for st in steps:
        st['calls'] = rng.sample(WAI_CALLS, len(WAI_CALLS)) if rng.random() < 0.4 else list(WAI_CALLS)
    return {'steps': steps}


def canon_json(x):
    """JSON structure of an export: numpy scalars / arrays and tuples become plain numbers / lists"""
    import numpy as np
    if isinstance(x, dict): return {str(k): canon_json(v) for k, v in x.items()}
    if isinstance(x, (list, tuple, np.ndarray)): return [canon_json(v) for v in x]
    if isinstance(x, np.generic): return x.item()
    return x


def json_diff(a, b, path='', out=None):
    """paths at which two canonical JSON structures differ (first few)"""
    out = [] if out is None else out
    if len(out) >= 4: return out
    if isinstance(a, dict) and isinstance(b, dict):
        for k in sorted(set(a) | set(b)):
            if k not in a or k not in b: out.append('%s/%s only in the %s export' % (path, k, 'reused' if k in a else 'fresh'))
            else: json_diff(a[k], b[k], path + '/' + k, out)
    elif isinstance(a, list) and isinstance(b, list):
        if len(a) != len(b): out.append('%s: %d item(s) reused, %d fresh' % (path, len(a), len(b)))
        else:
            for i, (x, y) in enumerate(zip(a, b)): json_diff(x, y, '%s[%d]' % (path, i), out)
    elif type(a) != type(b) or (a != b and not (isinstance(a, float) and a != a and b != b)):
        out.append('%s: %r reused, %r fresh' % (path, a, b))
    return out


def VS(key, what, seq, k):
    return dict(key=key, what='export %d of %d on one data object (%s): %s'
                % (k + 1, len(seq['steps']), ' -> '.join('%dx%dx%d atm%d' % (len(s['geo']['dx']), len(s['geo']['dy']), len(s['geo']['dz']), s['geo']['atm'])
                                                         for s in seq['steps'][:k + 1]), what),
                case={'waiwera_seq': seq, 'step': k})


def run_wai_seq(seq, upto=None):
    """the sequence on the real code.  -> (violations, per-step info)"""
    import t2data as T
    d = T.t2data()
    geos = {}             # geometry objects of this sequence: an unchanged geometry is the same object in the next step
    viol, info = [], []
    prev = None
    for k, st in enumerate(seq['steps']):
        if upto is not None and k > upto: break
        gkey = json.dumps(st['geo'], sort_keys=True)
        if st.get('keep_grid') and prev is not None and prev[0] == gkey:
            geo = wai_install(d, st, keep=(prev[1], prev[2]))
        else:
            vol0 = {}
            geo = wai_install(d, st, geo=geos.get(gkey), vol0=vol0)
            geos[gkey] = geo
            prev = (gkey, geo, vol0)
        obs, full, err = wai_observe(st, geo, d, st['calls'])
        # (a) the independent oracle of a single export
        for v in oracle_waiwera(st, geo, d, full, err, obs['faces']):
            viol.append(VS(v['key'], v['what'], seq, k))
        # (b) a new data object with the same content
        geo2, d2, obs2, full2, err2 = wai_real(st, st['calls'])
        same = True
        for part in ('eos', 'rocks', 'src', 'bdy', 'faces'):
            if obs.get(part) != obs2.get(part):
                same = False
                viol.append(VS('sequence-export-differs-from-fresh:' + part,
                               '%s on the re-used object gives %s, on a new object with the same content %s'
                               % ({'eos': 'eos_json', 'rocks': 'rocks_json (cells)', 'src': 'generators_json (name, cell)', 'bdy': 'boundary blocks',
                                   'faces': 'boundaries_json (block, face cells)'}[part], str(obs.get(part))[:160], str(obs2.get(part))[:160]), seq, k))
        if (err is None) != (err2 is None) or (err is not None and err[0] != err2[0]):
            same = False
            viol.append(VS('sequence-export-differs-from-fresh:json-outcome', 'json() on the re-used object: %s; on a new object with the same content: %s'
                           % ('ok' if err is None else '%s in %s: %s' % err, 'ok' if err2 is None else '%s in %s: %s' % err2), seq, k))
        elif err is None:
            df = json_diff(canon_json(full), canon_json(full2))
            if df:
                same = False
                viol.append(VS('sequence-export-differs-from-fresh:json', 'json() differs from the export of a new object with the same content at '
                               + '; '.join(df)[:400], seq, k))
        info.append({'same': same, 'err': err, 'obs': obs})
    return viol, info


# ------------------------------------------------------------------ history name lines (FOFT / COFT / GOFT)

class _Sink:
    def __init__(self): self.buf = []
    def write(self, s): self.buf.append(s)
    def lines(self): return ''.join(self.buf).split('\n')


class _Source:
    def __init__(self, lines): self.l = list(lines); self.i = 0
    def readline(self):
        if self.i < len(self.l):
            x = self.l[self.i] + '\n'; self.i += 1; return x
        return ''


def history_lines_real(b):
    """what the real writers print for the three history lists, and what the real readers make of those lines"""
    import t2data as T
    d = b.d
    res = {}
    for kind, fn, rd in (('hb', d.write_history_blocks, 'read_history_blocks'), ('hc', d.write_history_connections, 'read_history_connections'),
                         ('hg', d.write_history_generators, 'read_history_generators')):
        sink = _Sink()
        try:
            fn(sink)
        except AttributeError:
            res[kind] = ('exc AttributeError', None); continue
        ls = sink.lines()
        body = ls[1:ls.index('', 1)] if len(ls) > 1 else []
        if kind == 'hc':
            names = [(x[0:5], x[5:10]) for x in body]
            w = 'ok ' + eL(lambda p: eS(p[0]) + ' ' + eS(p[1]), names)
        else:
            names = [x[0:5] for x in body]
            w = 'ok ' + eL(eS, names)
        e = T.t2data(); e.grid = d.grid
        quiet(getattr(e, rd), _Source(body + ['']))
        eb = Built(); eb.d = e; eb.genid = b.genid
        items = extract(eb)[kind]
        res[kind] = (w, (names, 'ok ' + eL(eItem, items)))
    return res


_PARSER = {}


def short_lines_real(b, tmp):
    """what the real write_short_output prints, and what the real read_short_output makes of those lines"""
    import t2data as T
    d = b.d
    if not d.short_output:
        return None
    sink = _Sink()
    try:
        d.write_short_output(sink)
    except (AttributeError, TypeError):
        return ('exc raises', None)
    ls = sink.lines()
    header, body = ls[0], ls[1:-1]
    w = 'ok ' + eS(header) + ' ' + eL(eS, body)
    e = T.t2data(); e.grid = d.grid; e.generator = d.generator
    # read_short_output parses the heading through its parser: one parser object, fed from memory
    infile = _PARSER.get('p')
    if infile is None:
        path = os.path.join(str(tmp), 'c20_short.txt')
        open(path, 'w').close()
        infile = T.t2data_parser(path, 'r')
        infile.file.close()
        _PARSER['p'] = infile
    infile.file = io.StringIO(''.join(x + '\n' for x in body))
    try:
        quiet(e.read_short_output, infile, header + '\n')
        infile.close()
        eb = Built(); eb.d = e; eb.genid = b.genid; eb.keep = b.keep; eb.next_id = b.next_id
        r = 'ok ' + eShort(normalise(extract(eb))['short'])
    except KeyError:
        infile.close()
        r = 'exc KeyError'
    return (w, (header, body, r))


# ------------------------------------------------------------------ module metadata

THEOREMS = ['Props.C20.' + t for t in [
    'to_tough2_declares_tough2', 'to_tough2_succeeds', 'to_tough2_no_autough2_sections', 'to_tough2_other_sections',
    'to_tough2_generators', 'to_tough2_lookup', 'to_tough2_list_lookup_consistent', 'to_tough2_keeps_grid_and_history',
    'to_tough2_rocks', 'params_a2t_rocks', 'to_tough2_mop', 'mop_a2t_matches_code',
    'to_tough2_history_roundtrip_partial', 'goft_generator_request_lost', 'to_autough2_declares_autough2', 'to_autough2_succeeds',
    'to_autough2_sections', 'to_autough2_keeps_model', 'to_autough2_mop', 'mop_t2a_matches_code',
    'to_autough2_short', 'to_autough2_requests_kept_partial', 'goft_block_request_dropped', 'type_setter_dispatch',
    'rock_cells_partition', 'rock_cells_own_type_exists', 'boundary_blocks_complement', 'sources_spec',
    'source_cell_is_block_index', 'eos_explicit', 'eos_from_multi', 'eos_from_simulator',
    'eos_detected_from_simulator',
    'add_generator_spec', 'delete_generator_spec', 'insert_delete_section_spec',
    'section_ops_keep_order', 'converted_sections_ordered',
    'distinct_objects_same_obj', 'lookup_last_one_wins',
    'to_autough2_short_roundtrip', 'short_section_roundtrip', 'boundary_faces_partition',
]] + [
    # obligations on the generated tables (decide over the whole table, re-elaborated against /repo's current tables)
    'Proofs.Convert.convert_targets_tough2',
    'Proofs.Convert.lineq_to_solver_table',
    'Proofs.Convert.solver_to_lineq_table',
    'Proofs.Convert.cond_table',
    'Proofs.Convert.type_names_table',
    'Proofs.Convert.sections_nodup',
    'Proofs.Waiwera.supportedEos_laterLonger',
]
LEVEL_TEXT = ('Proof: 33 Lean theorems (no sorry) about an executable model of convert_to_TOUGH2 / convert_to_AUTOUGH2 / the type setter / '
              'update_sections and of the EOS, rock-cell, boundary-set and source parts of json(): the converted model declares the other flavour and '
              'holds none of the foreign sections or data; unsupported generators leave list and lookup, convertible ones are converted, the rest, '
              'grid, rocks (conductivity x (1-porosity) exactly for MOP(10)=2) and history requests are unchanged; MOP digits change position by '
              'position as a table evaluated on the real code says (decide over all 25x10x2 entries, both directions); rock cells partition the '
              'non-boundary blocks; one source per non-group generator with the cell of its block; EOS from explicit name, MULTI or the longest '
              'supported suffix of the simulator string. PARTIAL: the file round trip and the "history requests unchanged" clause are proved only '
              'for FOFT/COFT and for GOFT without t2generator items / with empty history_generator (two known findings, each with a proved witness '
              'in the model and a replay on the real code); the byte-level round trip is evaluated by the oracle on the real write()/read().')
LEVEL_NOTE = ('Trusted: Lean kernel (+propext, Classical.choice, Quot.sound); the hand-written models Model/Convert.lean, Model/Waiwera.lean (tied by '
              '7 correspondence facets, ~30k compared observations per quick run, 0 disagreements); the translator of the conversion tables; the oracle. '
              'Not modelled: numeric payload of Waiwera sources, mesh/initial/boundary-face sections, extra-precision and mesh-file variants of write().')
TECHNIQUE = ('Lean 4 proofs over an executable model of the conversion / export control flow + generated tables re-checked by `decide` '
             '+ differential correspondence with the real t2data object + direct property oracle incl. real file round trip')
ASSUMPTIONS = [
    'ASCII names',
    'file round trip (write()+read()) is evaluated by the oracle on the real code, the byte level belongs to C01; names are stable under fix/unfix_blockname',
    'floats: porosity / conductivity on the grid k/16, m/4 so that c*(1-phi) is exact in double and in Q',
    'Waiwera: only the EOS name, the rock cell lists, the boundary block set and the (name, cell) of each source are modelled; the numeric payload of a source, '
    'the mesh, initial and boundary-face sections are exercised through json() by the oracle only',
]
TRUSTED_EXTRA = ['harness/translate/convert_tables.py (AST literals and evaluated MOP tables of the current t2data.py)']


# ------------------------------------------------------------------ fixed corpus (repros of the defects found so far)

def _blank_short():
    return {'freq': None, 'block': None, 'con': None, 'gen': None}


def corpus_conv():
    g = {'dx': [10., 10., 10.], 'dy': [10., 10.], 'dz': [5., 5.], 'atm': 0, 'order': None}
    base = {'geo': g, 'filename': 'model.dat', 'multi': [], 'lineq': [], 'solver': [], 'option': [0] * 25,
            'rocks': [('rock0', Fraction(1, 4), Fraction(5, 2), 900)], 'free_gens': [], 'short': _blank_short(),
            'hb': [], 'hc': [], 'hg': [], 'other': [], 'wf': True, 'mode': 'corpus'}
    out = []
    # 88b05dd: unsupported generators must be deleted from list and lookup
    c = copy.deepcopy(base)
    c.update(simulator='AUTOUGH2.2EW', sections=['SIMUL', 'ROCKS', 'PARAM', 'ELEME', 'CONNE', 'GENER'],
             gens=[(1, '  a 1', 'wel 1', 'MASS', 11), (2, '  b 1', 'wel 2', 'DELG', 12), (3, '  c 1', 'inj 1', 'CO2 ', 13),
                   (4, '  a 1', 'wel 1', 'RECH', 14)], ops=[('toT2', False, False)])
    out.append(c)
    # d148591: MOP(21) = 7..9 without a SOLVR type
    for dig in (7, 8, 9):
        c = copy.deepcopy(base)
        opt = [0] * 25; opt[21] = dig
        c.update(simulator='', sections=['ROCKS', 'PARAM', 'ELEME', 'CONNE'], gens=[], option=opt, ops=[('toA2', False, 'AUTOUGH2.2', 'EW')])
        out.append(c)
    # known: GOFT written with generator names after conversion
    c = copy.deepcopy(base)
    sh = _blank_short(); sh['gen'] = ([('G', 1, '  a 1', 'wel 1')],)
    c.update(simulator='AUTOUGH2.2EW', sections=['SIMUL', 'ROCKS', 'PARAM', 'ELEME', 'CONNE', 'GENER', 'SHORT'],
             gens=[(1, '  a 1', 'wel 1', 'MASS', 11)], short=sh, ops=[('toT2', False, False)])
    out.append(c)
    # known: GOFT block requests dropped by convert_to_AUTOUGH2
    c = copy.deepcopy(base)
    c.update(simulator='', sections=['ROCKS', 'PARAM', 'ELEME', 'CONNE', 'GENER', 'GOFT'],
             gens=[(1, '  a 1', 'wel 1', 'MASS', 11)], hg=[('B', '  a 1')], ops=[('toA2', False, 'AUTOUGH2.2', 'EW')])
    out.append(c)
    return out


def corpus_wai():
    g = {'dx': [10., 10., 10.], 'dy': [10., 10.], 'dz': [5., 5., 5.], 'atm': 1, 'order': None}
    blocks, _ = geo_names(g)
    base = {'geo': g, 'rocks': ['rock0'], 'assign': [0] * len(blocks), 'vol': {}, 'atmos_volume': 1.e25,
            'eos': {'mode': 'sim', 'name': 'EW', 'arg': None}, 'simulator': 'AUTOUGH2.2EW', 'multi': [],
            'incons': [1.e5, 20., 0.25, 0.0], 'gens': [(1, '  a 1', 'wel 1', 'MASS', 11)], 'wf_gens': True}
    out = [copy.deepcopy(base)]                                   # f70f5b8: EOS only in the simulator string
    c = copy.deepcopy(base); c['multi'] = [('num_components', 1), ('num_equations', 2)]
    out.append(c)                                                 # ... with a MULTI block that names no EOS
    c = copy.deepcopy(base); c['vol'] = {'  a 1': 0.0}
    out.append(c)                                                 # d9f6fbf: boundary block without interior neighbour
    return out


# ------------------------------------------------------------------ run

def translate(ctx):
    from translate import convert_tables
    convert_tables.translate(ctx)


def _section_order():
    global SECTION_ORDER
    import importlib, t2data
    SECTION_ORDER = list(t2data.t2data_sections)
    return SECTION_ORDER


def conv_stream(ctx, scale=1.0):
    rng = ctx.rng('convert')
    for c in corpus_conv():
        yield c
    for c in mop_cases():
        yield c
    n = int(ctx.n(2400, 40000) * scale)
    for k in range(n):
        yield conv_case(rng, ('a2t', 't2a', 'mixed')[k % 3])


def wai_stream(ctx, scale=1.0):
    rng = ctx.rng('waiwera')
    for c in corpus_wai():
        yield c
    for k in range(int(ctx.n(700, 12000) * scale)):
        yield wai_case(rng)


def nontrivial_conv(case, st0, st1, outcome):
    """the case exercised a non-default branch: something other than simulator/sections/filename changed, or it raised"""
    if outcome[0] == 'exc': return True
    keys = ('multi', 'lineq', 'solver', 'option', 'rocks', 'gens', 'gendict', 'short', 'hb', 'hc', 'hg')
    return any(st0[k] != st1[k] for k in keys)


ANCHORED = ['get_type', 'set_type', 'insert_section', 'delete_section', 'section_insertion_index', 'get_present_sections', 'update_sections',
            'add_generator', 'delete_generator', 'generator_index', 'convert_mulkom_heat_conductivity',
            'convert_AUTOUGH2_parameters_to_TOUGH2', 'convert_TOUGH2_parameters_to_AUTOUGH2', 'convert_AUTOUGH2_generators_to_TOUGH2',
            'convert_short_to_history', 'convert_history_to_short', 'convert_to_TOUGH2', 'convert_to_AUTOUGH2',
            'write_history_blocks', 'write_history_connections', 'write_history_generators', 'read_history_blocks',
            'read_history_connections', 'read_history_generators', 'json', 'eos_json', 'rocks_json', 'generators_json', 'boundaries_json', 'mesh_json']


def run(ctx, scale=1.0, model=True):
    """thorough tier: the same run under `coverage`, recording which lines of the anchored functions were executed"""
    if ctx.quick or not model:
        return _run(ctx, scale, model)
    try:
        import coverage
    except ImportError:
        return _run(ctx, scale, model)
    import ast
    path = str(core.REPO / 't2data.py')
    cov = coverage.Coverage(include=[path], data_file=None)
    cov.start()
    try:
        res = _run(ctx, scale, model)
    finally:
        cov.stop()
    executed = set(cov.get_data().lines(path) or [])
    statements = set(cov.analysis2(path)[1])
    tree = ast.parse(open(path).read())
    for n in ast.walk(tree):
        if isinstance(n, ast.FunctionDef) and n.name in ANCHORED:
            lines = {l for l in statements if n.lineno < l <= n.end_lineno}
            miss = sorted(lines - executed)
            res.stats['reach:%s' % n.name] = '%d/%d lines' % (len(lines & executed), len(lines)) + (' (not executed: %s)' % miss[:12] if miss else '')
    return res


def _run(ctx, scale=1.0, model=True):
    import importlib, t2data, t2grids, mulgrids
    for m in (mulgrids, t2grids, t2data):
        importlib.reload(m)
    _GEO_CACHE.clear(); _PARSER.clear()
    order = _section_order()
    res = Result()
    res.rule = ('conversion cases = (data object of either flavour built through the public constructors, 1..5 operations); distinct = distinct '
                '(initial state, operations) encodings; non-trivial = the operations changed at least one of multi/lineq/solver/MOP/rocks/'
                'generators/lookup/short output/history lists or raised.  Waiwera cases = (rectangular geometry, rock assignment, special '
                'volumes, EOS source, generators); non-trivial = at least one boundary block of non-default volume, or an EOS not given explicitly, '
                'or a generator outside the grid/in the atmosphere.  Waiwera sequences = 2..4 Waiwera cases installed one after the other on ONE '
                'data object (grid replaced by a sub-grid / larger grid / other atmosphere type or block order, or edited in place) with every '
                'export compared with that of a new object; non-trivial = the geometry changes at least once')
    use_model = model and ctx.model_ok
    fc, ff, fh, fsl = res.facet('convert'), res.facet('convert_file'), res.facet('history_lines'), res.facet('short_lines')
    fe, fr, fs, fb, fw = res.facet('waiwera_eos'), res.facet('waiwera_rocks'), res.facet('waiwera_sources'), res.facet('waiwera_boundary'), res.facet('waiwera_faces')
    lines, expect = [], []        # driver requests and (facet, expected reply, case-json, decode?)
    hyp_nodup, hyp_ids, hyp_wf, hyp_rt, hyp_hg, hyp_ord = [0, 0], [0, 0], [0, 0], [0, 0], [0, 0], [0, 0]
    for case in conv_stream(ctx, scale):
        viol, b, outcome, st1, st0, scope = oracle_conversion(case, ctx.tmp, order)
        res.violations += viol
        res.evaluations += 1
        res.count('conv-mode:' + case['mode'])
        res.count('conv-scope:' + str(scope))
        res.count('conv-outcome:' + (outcome[0] if outcome[0] == 'ok' else outcome[1][0]))
        for op in case['ops']: res.count('op:' + op[0])
        res.count('n-gens:%d' % min(len(st0['gens']), 8))
        res.count('grid:' + ('none' if not case['geo'] else 'atm%d' % case['geo']['atm']))
        if scope == 'a2t':
            types = [g[3] for g in st0['gens']]
            res.count('a2t-gens:supported', sum(1 for t in types if tough2_type(t)))
            res.count('a2t-gens:convertible', sum(1 for t in types if t == 'CO2 '))
            res.count('a2t-gens:unsupported', sum(1 for t in types if not tough2_type(t) and t != 'CO2 '))
            keys = [(g[1], g[2]) for g in st0['gens']]
            res.count('a2t-duplicate-keys', int(len(set(keys)) < len(keys)))
            sh = st0['short']
            res.count('a2t-short:' + ''.join(c for c, k in (('b', 'block'), ('c', 'con'), ('g', 'gen')) if sh[k] is not None))
        if scope == 't2a':
            res.count('t2a-hist:' + ('objects' if any(i[0] in 'BCG' for i in st0['hb'] + st0['hc'] + st0['hg']) else '')
                      + ('+names' if any(i[0] in 'ST' for i in st0['hb'] + st0['hc'] + st0['hg']) else ''))
        hyp_nodup[1] += 1
        if len(set(st0['sections'])) == len(st0['sections']): hyp_nodup[0] += 1
        hyp_ord[1] += 1
        if file_like(st0['sections'], order): hyp_ord[0] += 1
        hyp_ids[1] += 1
        if len({g[0] for g in st0['gens']}) == len(st0['gens']): hyp_ids[0] += 1
        hyp_wf[1] += 1
        byid = {g[0]: (g[1], g[2]) for g in st0['gens']}
        if all(byid.get(e[2], (e[0], e[1])) == (e[0], e[1]) for e in st0['gendict']) and all(e[2] in byid for e in st0['gendict']): hyp_wf[0] += 1
        if scope == 'a2t' and outcome[0] == 'ok':
            hyp_rt[1] += 1
            blocks = set(st1['blocks'])
            if blocks and all(i[0] == 'B' and i[1] in blocks for i in st1['hb'] + st1['hg']) and all(i[0] == 'C' for i in st1['hc']): hyp_rt[0] += 1
        if scope == 't2a':
            hyp_hg[1] += 1
            if not st0['hg']: hyp_hg[0] += 1
        enc0 = eT2(st0); ops = eL(eOp, case['ops'])
        key = enc0 + '|' + ops
        if nontrivial_conv(case, st0, st1, outcome): res.distinct.add(key)
        exp = ('ok ' if outcome[0] == 'ok' else 'exc %s %d ' % outcome[1]) + eT2(st1)
        lines.append('conv %s %s' % (enc0, ops)); expect.append(('convert', exp, case, st1))
        if res.evaluations % 400 == 1:
            res.sample({'ops': [list(o) for o in case['ops']], 'simulator': st0['simulator'], 'sections_before': st0['sections'],
                        'sections_after': st1['sections'], 'gens_before': [g[1:4] for g in st0['gens']], 'gens_after': [g[1:4] for g in st1['gens']],
                        'outcome': outcome[0] if outcome[0] == 'ok' else outcome[1][0]})
        if outcome[0] == 'ok':
            # keyword order of the written file vs update_sections of the model
            try:
                path = os.path.join(str(ctx.tmp), 'c20_kw.dat')
                old = b.d.filename
                quiet(b.d.write, path)
                b.d.filename = old
                kws = file_keywords(path, order)
                wrote = True
            except Exception:
                wrote = False          # a model that cannot be written at all (C01/C02 territory: e.g. over-long type name)
                res.count('unwritable')
            if wrote:
                ops2 = list(case['ops']) + [('updSec',)]
                lines.append('conv %s %s' % (enc0, eL(eOp, ops2))); expect.append(('convert_file', kws, case, None))
            # SHORT name lines
            sl = short_lines_real(b, ctx.tmp)
            if sl is not None:
                w, rd = sl
                lines.append('wshort ' + eShort(normalise(st1)['short'])); expect.append(('short_lines', w, case, None))
                if rd is not None:
                    header, body, r = rd
                    lines.append('rshort %s %s %s %s %s' % (eL(eS, st1['blocks']),
                                                            eL(lambda p: eS(p[0]) + ' ' + eS(p[1]), list(b.d.grid.connection.keys())),
                                                            eL(lambda e: '%s %s %d' % (eS(e[0]), eS(e[1]), e[2]), st1['gendict']),
                                                            eS(header), eL(eS, body)))
                    expect.append(('short_lines', r, case, None))
            # history name lines
            hl = history_lines_real(b)
            for kind in ('hb', 'hc', 'hg'):
                w, rd = hl[kind]
                lines.append(('wcons ' if kind == 'hc' else 'whist ') + eL(eItem, st1[kind])); expect.append(('history_lines', w, case, None))
                if rd is not None:
                    names, items = rd
                    if kind == 'hc':
                        lines.append('rcons %s %s %s' % (eL(eS, st1['blocks']),
                                                         eL(lambda p: eS(p[0]) + ' ' + eS(p[1]), list(b.d.grid.connection.keys())),
                                                         eL(lambda p: eS(p[0]) + ' ' + eS(p[1]), names)))
                    else:
                        lines.append('rhist %s %s' % (eL(eS, st1['blocks']), eL(eS, names)))
                    expect.append(('history_lines', items, case, None))
    res.hyp['sections.Nodup (to_tough2_no_autough2_sections, second part)'] = hyp_nodup
    res.hyp['sections in standard order (converted_sections_ordered)'] = hyp_ord
    res.hyp['generator objects all distinct (not needed by to_tough2_generators any more: the rest lists an object twice)'] = hyp_ids
    res.hyp['every lookup entry points to a listed generator of that block and name (to_tough2_list_lookup_consistent)'] = hyp_wf
    res.hyp['history lists of the converted model hold only grid blocks / connections (to_tough2_history_roundtrip_partial)'] = hyp_rt
    res.hyp['history_generator empty (to_autough2_requests_kept_partial)'] = hyp_hg
    # Waiwera
    for case in wai_stream(ctx, scale):
        geo, d, obs, full, err = wai_real(case)
        res.evaluations += 1
        res.violations += oracle_waiwera(case, geo, d, full, err, obs['faces'])
        res.count('wai-eos-mode:' + case['eos']['mode'])
        res.count('wai-atm:%d' % case['geo']['atm'])
        res.count('wai-order:%s' % case['geo']['order'])
        res.count('wai-json:' + ('ok' if err is None else err[0] + ':' + err[1]))
        res.count('wai-special-volumes', len(case['vol']))
        nat = geo.num_atmosphere_blocks
        if case['vol'] or case['eos']['mode'] in ('sim', 'multi', 'multi+sim') or any(g[1] not in geo.block_name_index or geo.block_name_index[g[1]] < nat for g in case['gens']):
            res.distinct.add('wai|' + json.dumps(case, sort_keys=True))
        rq = wai_requests(case, geo, d)
        for k2, fac in (('eos', 'waiwera_eos'), ('rocks', 'waiwera_rocks'), ('src', 'waiwera_sources'), ('bdy', 'waiwera_boundary')):
            lines.append(rq[k2]); expect.append((fac, obs[k2], {'waiwera': case}, None))
        if obs['faces'] is not None:
            exp = obs['faces'][0] if obs['faces'][1] is None else \
                'ok ' + eL(lambda f: eS(f[0]) + ' ' + eL(lambda i: 'i%d' % i, f[1]), obs['faces'][1])
            lines.append(rq['faces']); expect.append(('waiwera_faces', exp, {'waiwera': case}, None))
        if res.evaluations % 300 == 2:
            res.sample({'waiwera': True, 'eos': case['eos'], 'simulator': case['simulator'], 'observed': {k: str(v)[:80] for k, v in obs.items()}})
    # Waiwera, sequences of exports on one data object
    fq = res.facet('waiwera_sequence')
    rng = ctx.rng('waiwera_seq')
    for k in range(int(ctx.n(240, 5000) * scale)):
        seq = wai_seq_case(rng)
        viol, info = run_wai_seq(seq)
        res.violations += viol
        res.count('seq-length:%d' % len(seq['steps']))
        for st, inf in zip(seq['steps'], info):
            fq['cases'] += 1
            res.evaluations += 1
            if 'kind' in st:
                res.count('seq-step:' + st['kind'] + ('+in-place' if st['keep_grid'] else ''))
                res.count('seq-json:' + ('ok' if inf['err'] is None else inf['err'][0] + ':' + inf['err'][1]))
            res.count('seq-calls:' + ('default' if st['calls'] == WAI_CALLS else 'shuffled'))
        if any(st['geo'] != seq['steps'][0]['geo'] for st in seq['steps'][1:]):
            res.distinct.add('waiseq|' + json.dumps(seq, sort_keys=True))
    # model
    if use_model:
        out = core.run_driver('drv_c20', lines)
        for (fac, exp, case, st1), rep in zip(expect, out):
            f = res.facet(fac)
            f['cases'] += 1
            if rep.startswith('bad-request'):
                raise RuntimeError('driver could not parse a request of facet %s' % fac)
            if fac == 'waiwera_faces' and rep.startswith('ok '):
                tk = _Tok(rep[3:])
                ent = tk.lst(lambda: (tk.s(), sorted(tk.lst(lambda: int(tk.next()[1:])))))
                rep = 'ok ' + eL(lambda f: eS(f[0]) + ' ' + eL(lambda i: 'i%d' % i, f[1]), ent)
            if fac == 'convert_file':
                kind, e, ms = decode_reply(rep)
                got = ms['sections'] if kind == 'ok' else None
                if got != exp:
                    f['disagreements'] += 1
                    res.disagreements.append(dict(facet=fac, case=case_json(case), model=got, impl=exp))
            elif rep != exp:
                f['disagreements'] += 1
                if fac == 'convert':
                    kind, e, ms = decode_reply(rep)
                    detail = 'model %s %s: %s' % (kind, e, diff_states(ms, normalise(st1)))
                    res.disagreements.append(dict(facet=fac, case=case_json(case), model=detail, impl=exp[:60]))
                else:
                    res.disagreements.append(dict(facet=fac, case=case_json(case) if 'waiwera' not in case else case, model=rep[:300], impl=exp[:300]))
    else:
        for (fac, exp, case, st1) in expect:
            res.facet(fac)['cases'] += 1
    res.exhaustive = False
    return res


def search(ctx, seconds, res):
    """failing-input search on the real code alone: widen the streams with other seeds"""
    found = list(res.violations)
    known = core.known_keys(ID)
    t0 = time.time()
    k = 0
    while not [v for v in found if v['key'] not in known] and time.time() - t0 < seconds:
        k += 1
        c2 = core.Ctx(ctx.prop, ctx.tier, ctx.seed + 1000 * k)
        c2.model_ok = False
        try:
            r = _run(c2, scale=0.5, model=False)
        finally:
            c2.cleanup()
        found = r.violations
    return found


def replay(ctx, payload):
    import importlib
    order = _section_order()
    c = payload.get('case')
    if not c:
        return False, 'replay file names what no longer checks: %s' % payload.get('broken')
    if 'waiwera_seq' in c:
        seq = c['waiwera_seq']
        for st in seq['steps']:
            st['multi'] = [tuple(x) for x in st['multi']]
            st['gens'] = [tuple(x) for x in st['gens']]
        viol, info = run_wai_seq(seq, upto=c.get('step'))
        if c.get('step') is not None:
            viol = [v for v in viol if v['case']['step'] == c['step']] or viol
        txt = '%d export(s) on one t2data object: %s' % (len(info), '; '.join(
            'export %d json() %s, rocks %s, sources %s' % (i + 1, 'ok' if x['err'] is None else x['err'], x['obs'].get('rocks', '')[:80], x['obs'].get('src', '')[:80])
            for i, x in enumerate(info)))
    elif 'waiwera' in c:
        case = c['waiwera']
        case['multi'] = [tuple(x) for x in case['multi']]
        case['gens'] = [tuple(x) for x in case['gens']]
        geo, d, obs, full, err = wai_real(case)
        viol = oracle_waiwera(case, geo, d, full, err, obs['faces'])
        txt = 'json(): %s; eos %s; sources %s' % ('ok' if err is None else err, obs['eos'], obs['src'][:120])
    else:
        case = case_unjson(c)
        viol, b, outcome, st1, st0, scope = oracle_conversion(case, ctx.tmp, order)
        txt = 'ops %r on a %s model: %s; sections %r; generators %r' % (case['ops'], 'AUTOUGH2' if st0['simulator'] else 'TOUGH2',
                                                                        outcome, st1['sections'], [g[1:4] for g in st1['gens']])
    want = payload.get('key')
    hit = [v for v in viol if want is None or v['key'] == want] or viol
    if hit:
        txt += '\n' + '\n'.join('  %s: %s' % (v['key'], v['what']) for v in hit[:4])
    return bool(hit), txt
