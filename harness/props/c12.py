"""C12 — point and line location in a geometry agree with exhaustive search.

model      lean/PyTough/Model/Locate.lean  (in_polygon, rectangles, quadtree, column_containing_point with every
           search aid, layer/block location)  and  lean/PyTough/Model/Track.lean  (line clipping, column_track)
theorems   lean/PyTough/Props/C12.lean
tie        correspondence facets: `geom_fns` (geometry.py helpers on random lattice input), `quadtree` (tree structure and
           leaf), `locate` (column_containing_point under every aid combination), `blocks` (block_name_containing_point,
           block_contains_point, layer_containing_elevation), `track` (column_track, line helpers)
oracle     exhaustive containment by an independent exact (Fraction) winding-number test; exact clipping of the
           line against every column for the track clauses
"""
import io, math, contextlib, itertools, json
from fractions import Fraction as Fr
import core
from core import Result

ID = 'C12'
MODULE = 'PyTough.Props.C12'
TARGETS = ['PyTough.Props.C12', 'drv_c12']
THEOREMS = ['Props.C12.' + t for t in [
    'found_column_contains', 'outside_gives_none', 'in_polygon_in_bounding_rectangle', 'contains_point_implies_near_point',
    'methods_agree', 'all_columns_hold_answer', 'plain_agrees_with_exhaustive', 'quadtree_agrees_or_none_partial',
    'quadtree_partition', 'quadtree_root', 'sub_rectangles_cover', 'sub_rectangles_inside',
    'quadtree_leaf_contains_point', 'quadtree_leaf_exists', 'search_wave_fuel_suffices', 'quadtree_search_complete_partial',
    'quadtree_search_complete_rectangular', 'quadtree_agrees_with_plain_rectangular', 'rectangular_columns_form_lattice',
    'block_at_point_spec', 'block_reported_is_in_found_column', 'block_at_point_in_layer', 'block_at_point_raised_surface',
    'block_at_point_none_outside', 'block_at_point_none_above_or_below', 'reported_block_contains_point_partial',
    'containing_block_is_the_reported_one',
    'track_points_on_line', 'track_points_on_column', 'track_sorted_by_distance', 'track_no_column_twice',
    'track_abut_at_shared_edge', 'track_lengths_partial', 'track_lists_crossed_column_partial',
    'track_merges_only_close_crossings', 'track_crossings_direction_independent', 'track_reverse_partial']]
LEVEL_TEXT = ('Proof (partial): 37 Lean theorems, no sorry, about an exact-rational executable model of in_polygon / rectangles / quadtree / '
              'column_containing_point (all search aids) / layer and block location: every reported column contains the point for every aid '
              'combination; a point outside every column gives None; in_polygon implies in-bounding-rectangle for every polygon (crossing parity, '
              'unconditional after the repair of in_polygon); under UniqueAt plain search = exhaustive search = search with any guess / bounding '
              'rectangle or polygon holding the point / column subset holding the answer; with a quadtree the result is the same column or None, and is that column whenever it is reachable in the neighbour graph that search_wave explores (BFS completeness; hypothesis evaluated on every explored point); '
              'the quadtree constructor partitions elements among the four sub-rectangles at every node and leaf(pos) has bounds containing pos; '
              'the reported block is characterised (layer logic, raised surface, None above/below/outside) and is the unique block containing the '
              'point at or below ground level. quadtree_search_complete_rectangular: on a rectangular lattice (Lattice: bounding boxes of the columns are the cells of a full nx x ny lattice with monotone grid lines, column i+nx*j is cell (i,j), centres in their cells, side-sharing cells are neighbours) with the tree column_quadtree builds over all columns in bounds covering the lattice, the quadtree search with any guess / bounds holding the point returns the containing column outright (planar step proved: the row-then-column walk from a leaf element only visits cells whose boxes meet the leaf rectangle). quadtree_agrees_with_plain_rectangular: hence on such lattices quadtree search (with any guess) = plain search at every point with UniqueAt, inside or outside the grid. rectangular_columns_form_lattice: the bounding-box clause of Lattice is derived for columns that are axis-aligned rectangles (all nodes in the cell, the two extreme corners among them, any node order). '
              'PARTIAL: the planar half of quadtree completeness for non-lattice geometries (irregular / triangulated / refined grids: reachability when the segment centre-point stays in the domain) is not proved '
              '(false for domains with holes: witness kept as an example); block_contains_point for the reported block needs z <= ground level (the real function disagrees under a raised surface); '
              'column_track (exact-rational model Model/Track.lean): proved that every entry/exit point is on the line (parameter in the accepted '
              '[-1e-9, 1+1e-9] band) and on an edge of / inside its column, the track is sorted by entry distance with no column twice, the '
              'crossing of a shared edge is the same point for both columns, duplicate crossings are merged only within 1e-3 x longest side '
              '(the repaired rule), the crossings of the reversed line are the same points; under decidable hypotheses evaluated on every '
              'explored line: lengths non-negative and summing to at most the line length (Ordered), a column crossed twice more than the clip '
              'tolerance apart is listed (crossedLongB, box test), the track of the reversed line is the flipped track (revHypB). NOT proved: '
              'that consecutive entries are neighbours covering the line inside the domain (planar tessellation fact behind "segments abut" and '
              '"lengths add up to the length inside the domain"), Cohen-Sutherland correctness, non-convex multiply crossed columns: these stay '
              'with the correspondence facet and the exact clipping oracle.')
LEVEL_NOTE = ('Trusted: Lean kernel (+propext, Classical.choice, Quot.sound); hand-written models Model/Locate.lean, Model/Track.lean tied to /repo by '
              'five correspondence facets on every run (exact rationals of the doubles; cases decided by less than 1e-9 relative are discarded as '
              'unstable); IEEE rounding is not modelled; Python set iteration order and numpy argsort order are modelled as list order / stable '
              'sort (no theorem depends on them); the Fraction oracle in harness/props/c12.py.')
TECHNIQUE = 'Lean 4 proof over an executable exact-rational model of the search code + differential correspondence with the real code + exact-arithmetic oracle'
EVIDENCE_EXTRA = {'observations': [
    'block_contains_point inconsistency (counted, not flagged; outside the property\'s observation points): for a column whose surface is raised '
    'above ground level and ground < z <= surface, block_name_containing_point reports the top block (correct) while block_contains_point(that '
    'block, pos) is False (it only tests layer.bottom <= z <= layer.top). Counter: input_distribution["block_contains_point:false-for-reported-'
    'block-above-ground-level"]. The Lean theorem reported_block_contains_point_partial carries the hypothesis z <= ground level for this reason.',
    'for a surface lowered into a layer both block functions treat the air between the surface and the layer top as inside the surface block '
    '(input_distribution["elevation:airgap"]); left to the correspondence.',
    'quadtree search misses a column on domains with holes / islands (outside the listed geometry classes): input_distribution["quadtree-search-'
    'misses-column(...)"]; witness in the fixed corpus and as a Lean example.']}
ASSUMPTIONS = [
    'arithmetic is exact in the model; the code computes in IEEE doubles: inputs are generated on dyadic lattices (or passed as the exact rationals of the doubles) and points within 1e-6 x longest side of a column edge, elevations within 1e-9 of a layer boundary/surface and lines along a column edge are excluded, as in the property text',
    'columns have at least one node and numeric surfaces; geometries have at least two layers (index 0 = atmosphere layer)',
    'UniqueAt (at most one column contains the point) for the agreement theorems; evaluated on every explored point',
]
TRUSTED_EXTRA = ['numpy.linalg.solve modelled as Cramer rule, norm/round/unique of line_polygon_intersections decided on squared rationals (Model/Track.lean)']

EDGE_TOL = Fr(1, 10 ** 6)      # points closer than this x (longest side of the column) to an edge are excluded (property text)
Z_TOL = Fr(1, 10 ** 9)         # elevations closer than this to a layer boundary / surface are excluded
CLIP_TOL = 1e-3                # the property's own threshold for dropped corner clips
BCP_RAISED_SURFACE_TOLERATED = True
ULPS = 256 * 2.0 ** -52        # float noise allowed on a coordinate of magnitude 1 (positions are computed at coordinate magnitude)


# ------------------------------------------------------------------ exact planar geometry (independent of /repo)

def F(x):
    return Fr(float(x))


def FP(p):
    return (Fr(float(p[0])), Fr(float(p[1])))


def cross(ax, ay, bx, by):
    return ax * by - ay * bx


def on_segment(p, a, b):
    if cross(b[0] - a[0], b[1] - a[1], p[0] - a[0], p[1] - a[1]) != 0:
        return False
    return min(a[0], b[0]) <= p[0] <= max(a[0], b[0]) and min(a[1], b[1]) <= p[1] <= max(a[1], b[1])


def winding(p, poly):
    """exact winding number of poly about p; None when p lies on the boundary"""
    wn = 0
    n = len(poly)
    px, py = p
    for i in range(n):
        a, b = poly[i], poly[(i + 1) % n]
        if on_segment(p, a, b):
            return None
        if a[1] <= py:
            if b[1] > py and cross(b[0] - a[0], b[1] - a[1], px - a[0], py - a[1]) > 0:
                wn += 1
        elif b[1] <= py and cross(b[0] - a[0], b[1] - a[1], px - a[0], py - a[1]) < 0:
            wn -= 1
    return wn


def dist2_seg(p, a, b):
    dx, dy = b[0] - a[0], b[1] - a[1]
    l2 = dx * dx + dy * dy
    if l2 == 0:
        return (p[0] - a[0]) ** 2 + (p[1] - a[1]) ** 2
    t = ((p[0] - a[0]) * dx + (p[1] - a[1]) * dy) / l2
    t = max(Fr(0), min(Fr(1), t))
    qx, qy = a[0] + t * dx, a[1] + t * dy
    return (p[0] - qx) ** 2 + (p[1] - qy) ** 2


def maxside2(poly):
    n = len(poly)
    return max((poly[(i + 1) % n][0] - poly[i][0]) ** 2 + (poly[(i + 1) % n][1] - poly[i][1]) ** 2 for i in range(n))


def near_edge(p, poly, rel):
    lim = rel * rel * maxside2(poly)
    n = len(poly)
    return any(dist2_seg(p, poly[i], poly[(i + 1) % n]) <= lim for i in range(n))


def line_poly_intervals(a, b, poly):
    """exact parameter intervals of the segment a->b lying inside poly, and whether the line runs along an edge"""
    lx, ly = b[0] - a[0], b[1] - a[1]
    ts = {Fr(0), Fr(1)}
    along = False
    n = len(poly)
    for i in range(n):
        p1, p2 = poly[i], poly[(i + 1) % n]
        ex, ey = p2[0] - p1[0], p2[1] - p1[1]
        den = cross(lx, ly, ex, ey)
        wx, wy = p1[0] - a[0], p1[1] - a[1]
        if den == 0:
            if cross(lx, ly, wx, wy) == 0 and (ex != 0 or ey != 0):
                l2 = lx * lx + ly * ly
                t1 = (wx * lx + wy * ly) / l2
                t2 = ((p2[0] - a[0]) * lx + (p2[1] - a[1]) * ly) / l2
                if min(max(t1, t2), Fr(1)) > max(min(t1, t2), Fr(0)):
                    along = True
            continue
        t = cross(wx, wy, ex, ey) / den
        s = cross(wx, wy, lx, ly) / den
        if 0 <= s <= 1 and 0 <= t <= 1:
            ts.add(t)
    ts = sorted(ts)
    out = []
    for t0, t1 in zip(ts, ts[1:]):
        tm = (t0 + t1) / 2
        w = winding((a[0] + tm * lx, a[1] + tm * ly), poly)
        if w is None:
            along = True
        elif w != 0:
            if out and out[-1][1] == t0:
                out[-1] = (out[-1][0], t1)
            else:
                out.append((t0, t1))
    return out, along


# ------------------------------------------------------------------ encoding for the driver

def er(x):
    x = x if isinstance(x, Fr) else Fr(float(x))
    return str(x.numerator) if x.denominator == 1 else '%d/%d' % (x.numerator, x.denominator)


def ep(p):
    return er(p[0]) + ' ' + er(p[1])


def epts(ps):
    return '%d ' % len(ps) + ' '.join(ep(p) for p in ps) if ps else '0'


def enats(ns):
    return ('%d ' % len(ns) + ' '.join(str(n) for n in ns)) if ns else '0'


def parse_rat(s):
    return Fr(s)


@contextlib.contextmanager
def quiet():
    with contextlib.redirect_stdout(io.StringIO()):
        yield


# ------------------------------------------------------------------ a geometry under test

class GeoCase:
    """a real mulgrid + its exact shadow"""
    def __init__(self, label, geo, recipe, holes=False):
        self.label, self.geo, self.recipe, self.holes = label, geo, recipe, holes
        self.cols = geo.columnlist
        self.idx = {id(c): i for i, c in enumerate(self.cols)}
        self.polys = [[FP(p) for p in c.polygon] for c in self.cols]
        self.bb = [(float(min(p[0] for p in P)), float(min(p[1] for p in P)),
                    float(max(p[0] for p in P)), float(max(p[1] for p in P))) for P in self.polys]
        self.side = [math.sqrt(maxside2(P)) for P in self.polys]
        self.layers = [(F(l.bottom), F(l.top)) for l in geo.layerlist]
        self.surf = [F(c.surface) for c in self.cols]
        b = geo.bounds
        self.x0, self.y0, self.x1, self.y1 = float(b[0][0]), float(b[0][1]), float(b[1][0]), float(b[1][1])
        self.blockname = {}
        for li, lay in enumerate(geo.layerlist):
            for ci, c in enumerate(self.cols):
                self.blockname.setdefault(geo.block_name(lay.name, c.name), (li, ci))

    def ci(self, col):
        return None if col is None else self.idx.get(id(col), -1)

    def encode(self):
        w = ['geo', str(len(self.cols))]
        for i, c in enumerate(self.cols):
            nb = sorted(self.idx[id(n)] for n in c.neighbour if id(n) in self.idx)
            w += [epts(self.polys[i]), ep(FP(c.centre)), er(self.surf[i]), enats(nb)]
        w.append(str(len(self.layers)))
        for b, t in self.layers:
            w += [er(b), er(t)]
        return ' '.join(w)

    def candidates(self, p, margin=1e-3):
        """indices of columns whose (slightly enlarged) bounding box holds p — the only ones that can contain p"""
        x, y = float(p[0]), float(p[1])
        out = []
        for i, (a, b, c, d) in enumerate(self.bb):
            m = margin * self.side[i] + 1e-9 * (abs(x) + abs(y) + 1)
            if a - m <= x <= c + m and b - m <= y <= d + m:
                out.append(i)
        return out

    def locate_exact(self, p):
        """(status, containing column indices): status 'edge' when p is within tolerance of a column edge"""
        P = FP(p)
        inside = []
        for i in self.candidates(p):
            if near_edge(P, self.polys[i], EDGE_TOL):
                return 'edge', []
            w = winding(P, self.polys[i])
            if w is None:
                return 'edge', []
            if w != 0:
                inside.append(i)
        return 'ok', inside


# ------------------------------------------------------------------ geometry generators

SHIPPED = ['g7', 'g5', 'g6', 'g3', 'g1', 'g2', 'g4']


def dyadic_sizes(rng, n, orders=True):
    """block sizes on a dyadic lattice; with `orders`, spanning three orders of magnitude"""
    pool = [0.125, 0.25, 0.5, 1, 2, 4, 8, 16, 32, 64, 128] if orders else [25, 50, 100, 100, 200]
    return [float(rng.choice(pool)) for _ in range(n)]


def build_geo(recipe):
    """recipe (JSON-able) -> real mulgrid; every step uses the real public API"""
    import numpy as np
    import mulgrids
    with quiet():
        kind = recipe['kind']
        if kind == 'shipped':
            g = mulgrids.mulgrid(str(core.REPO / 'tests' / 'mulgrid' / (recipe['name'] + '.dat')))
        else:
            g = mulgrids.mulgrid().rectangular(recipe['dx'], recipe['dy'], recipe['dz'], origin=recipe.get('origin', [0., 0., 0.]),
                                               convention=recipe.get('convention', 0), atmos_type=recipe.get('atmos', 2))
        for step in recipe.get('steps', []):
            op = step[0]
            if op == 'refine':
                g.refine([g.columnlist[i] for i in step[1]])
            elif op == 'rotate':
                g.rotate(step[1], None if step[2] is None else np.array(step[2], dtype=float))
            elif op == 'translate':
                g.translate(np.array(step[1], dtype=float))
            elif op == 'query':
                # the geometry is searched in its present position (results ignored) before it is moved again: what a search
                # shows afterwards must not depend on searches made earlier on the same object
                b = g.bounds
                lo, hi = np.array(b[0], dtype=float), np.array(b[1], dtype=float)
                qt = g.column_quadtree()
                for fx, fy in ((0.5, 0.5), (0.13, 0.77), (0.91, 0.09), (1.5, 0.5)):
                    pt = lo + (hi - lo) * np.array([fx, fy])
                    g.column_containing_point(pt)
                    g.column_containing_point(pt, qtree=qt)
                    g.block_name_containing_point(np.array([pt[0], pt[1], g.layerlist[-1].centre]))
                g.column_track([lo - 0.01 * (hi - lo), hi + 0.01 * (hi - lo)])
                for col in g.columnlist:
                    col.bounding_box
            elif op == 'delete':
                for nm in [g.columnlist[i].name for i in step[1]]:
                    g.delete_column(nm)
                g.identify_neighbours()
            elif op == 'surface':
                for i, s in step[1]:
                    col = g.columnlist[i]
                    col.surface = float(s)
                    g.set_column_num_layers(col)
                g.setup_block_name_index()
                g.setup_block_connection_name_index()
            else:
                raise RuntimeError('unknown recipe step %r' % (op,))
    return g


def surface_step(rng, ncols, dz, z0=0.0):
    """raise / lower the surface of some columns to dyadic elevations away from layer boundaries"""
    tops = [z0]
    for d in dz:
        tops.append(tops[-1] - d)
    out = []
    for i in rng.sample(range(ncols), max(1, ncols // 3)):
        k = rng.randint(0, len(dz) - 1)
        mode = rng.random()
        if mode < 0.25:
            s = z0 + rng.choice([0.5, 1.5, 3.25])            # raised above ground
        else:
            s = tops[k] - dz[k] * rng.choice([0.25, 0.5, 0.75])   # inside layer k+1
        out.append([i, s])
    return ['surface', out]


def recipes(ctx, rng):
    q = ctx.quick
    out = []
    # rectangular, sizes over three orders of magnitude
    for k in range(ctx.n(4, 16)):
        nx, ny = rng.randint(2, 7), rng.randint(2, 7)
        dz = [float(rng.choice([1, 2, 4, 8])) for _ in range(rng.randint(2, 4))]
        r = dict(kind='rect', dx=dyadic_sizes(rng, nx), dy=dyadic_sizes(rng, ny), dz=dz, convention=rng.choice([0, 1, 2]),
                 atmos=rng.choice([0, 1, 2]), steps=[])
        if rng.random() < 0.5:
            r['origin'] = [float(rng.choice([0, 1024, -512, 2 ** 20])), float(rng.choice([0, 256, -2048])), 0.0]
        r['steps'].append(surface_step(rng, nx * ny, dz))
        out.append(('rect-multiscale', r, False))
    # refined (triangles and transition columns)
    for k in range(ctx.n(2, 8)):
        nx, ny = rng.randint(3, 6), rng.randint(3, 6)
        dz = [4.0, 8.0]
        sel = sorted(rng.sample(range(nx * ny), rng.randint(1, max(1, nx * ny // 3))))
        r = dict(kind='rect', dx=dyadic_sizes(rng, nx, False), dy=dyadic_sizes(rng, ny, False), dz=dz, steps=[['refine', sel]])
        out.append(('refined', r, False))
    # rotated (and translated): coordinates are arbitrary doubles
    for k in range(ctx.n(4, 16)):
        nx, ny = rng.randint(2, 6), rng.randint(2, 6)
        ang = rng.choice([90, 180, 270, 360, -90, 30, 45, 17, 123.5, 1, 0.25])
        centre = rng.choice([None, [0., 0.], [100., 0.], [-37.5, 12.25]])
        steps = []
        if rng.random() < 0.4:
            steps.append(['refine', sorted(rng.sample(range(nx * ny), 2))])
        if k % 2 == 1:
            steps.append(['query'])
        if rng.random() < 0.3:
            steps.append(['translate', [float(rng.choice([1e7, -3e5, 4096])), float(rng.choice([1e7, 65536, -8])), 0.]])
            if k % 4 == 3:
                steps.append(['query'])
        steps.append(['rotate', ang, centre])
        r = dict(kind='rect', dx=dyadic_sizes(rng, nx, rng.random() < 0.5), dy=dyadic_sizes(rng, ny, rng.random() < 0.5), dz=[2.0, 2.0, 4.0], steps=steps)
        out.append(('rotated', r, False))
    # shipped irregular geometries
    names = SHIPPED[:] if not q else ['g7'] + rng.sample(['g5', 'g6', 'g3', 'g1'], 3)
    for nm in names:
        out.append(('shipped-' + nm, dict(kind='shipped', name=nm, steps=[]), False))
    if not q or rng.random() < 0.5:
        out.append(('shipped-rotated', dict(kind='shipped', name='g7', steps=[['query'], ['rotate', rng.choice([90, 30, 180]), None]]), False))
    if not q or rng.random() < 0.5:
        out.append(('shipped-refined', dict(kind='shipped', name='g7', steps=[['refine', sorted(rng.sample(range(108), 12))]]), False))
    # domains with holes / concave outlines: outside the property's list of geometry classes; correspondence and
    # the soundness clauses only (the quadtree is not required to be complete there)
    # two islands: the quadtree leaf of a point of one island can hold only columns of the other (search_wave cannot cross)
    out.append(('holes-islands', dict(kind='rect', dx=[1.0, 0.25, 1.75], dy=[1.0], dz=[1.0, 1.0], steps=[['delete', [1]]]), True))
    for k in range(ctx.n(2, 8)):
        nx, ny = rng.randint(3, 6), rng.randint(3, 5)
        dele = sorted(rng.sample(range(nx * ny), rng.randint(1, max(1, nx * ny // 3))))
        r = dict(kind='rect', dx=dyadic_sizes(rng, nx, False), dy=dyadic_sizes(rng, ny, False), dz=[4.0, 4.0], steps=[['delete', dele]])
        out.append(('holes', r, True))
    return out


# fixed corpus: geometries and points of past findings, run first on every check
CORPUS = [
    dict(what='in-polygon-tiny-edge-parity (fixed 7b69238): 3x3 grid rotated 180 deg about the origin, point 700 m left of the grid, guess = first column',
         recipe=dict(kind='rect', dx=[100.] * 3, dy=[100.] * 3, dz=[10., 10.], steps=[['rotate', 180, [0., 0.]]]),
         points=[[-1000., -100.00000000000001], [-1000., -100.], [-1000., -1.2246467991473532e-14], [-1000., -2.4492935982947064e-14], [500., -200.00000000000003]], z=-5.0),
    dict(what='in-polygon-tiny-edge-parity: rotate(90) about the grid centre', recipe=dict(kind='rect', dx=[100., 50., 25.], dy=[100.] * 3, dz=[10., 10.], steps=[['rotate', 90, None]]),
         points=[[-112.5, 237.5], [-112.5, 87.5], [500., 137.5]], z=-15.0),
    dict(what='quadtree incompleteness witness (outside the listed geometry classes; correspondence only): two islands, the leaf of a point of the right island holds only the left column',
         recipe=dict(kind='rect', dx=[1.0, 0.25, 1.75], dy=[1.0], dz=[1.0, 1.0], steps=[['delete', [1]]]), holes=True,
         points=[[1.3125, 0.25], [1.4375, 0.375], [2.5, 0.25], [0.5, 0.75]], z=-0.5),
]


# ------------------------------------------------------------------ points

def lattice_step(gc):
    w = max(gc.x1 - gc.x0, gc.y1 - gc.y0)
    return 2.0 ** math.floor(math.log2(w / 64.0))


def gen_points(gc, rng, n):
    """dyadic-lattice points inside and outside the bounding box, points level with vertices (the half-open rule),
    points near column centres of the smallest and largest columns"""
    h = lattice_step(gc)
    w = max(gc.x1 - gc.x0, gc.y1 - gc.y0)
    pts = []
    for _ in range(n // 3):
        x = math.floor(rng.uniform(gc.x0 - 0.15 * w, gc.x1 + 0.15 * w) / h) * h + rng.choice([0, h / 2, h / 4, h / 8, 3 * h / 8])
        y = math.floor(rng.uniform(gc.y0 - 0.15 * w, gc.y1 + 0.15 * w) / h) * h + rng.choice([0, h / 2, h / 4, h / 8, 5 * h / 8])
        pts.append(('lattice', (x, y), None))
    order = sorted(range(len(gc.cols)), key=lambda i: gc.side[i])
    picks = order[:3] + order[-2:] + [rng.randrange(len(gc.cols)) for _ in range(n // 3)]
    for i in picks:
        c = gc.cols[i]
        hs = 2.0 ** math.floor(math.log2(gc.side[i] / 16.0))
        cx, cy = float(c.centre[0]), float(c.centre[1])
        pts.append(('centre', (math.floor(cx / hs) * hs + rng.choice([0, hs / 2, hs / 4]), math.floor(cy / hs) * hs + rng.choice([0, hs / 2, hs / 4])), None))
    # close to an edge but outside the excluded zone: 8e-6 x (longest side) off an edge's midpoint, on either side
    for _ in range(n // 6):
        i = rng.randrange(len(gc.cols))
        P = gc.cols[i].polygon
        k = rng.randrange(len(P))
        a, b = P[k], P[(k + 1) % len(P)]
        ex, ey = float(b[0] - a[0]), float(b[1] - a[1])
        el = math.hypot(ex, ey)
        if el == 0:
            continue
        big = max([gc.side[i]] + [gc.side[gc.idx[id(c)]] for c in gc.cols[i].neighbour])
        t = rng.choice([0.5, 0.25, 0.125])
        sgn = rng.choice([-1, 1])
        pts.append(('near-edge-legal', (float(a[0]) + t * ex - sgn * ey / el * 8e-6 * big, float(a[1]) + t * ey + sgn * ex / el * 8e-6 * big), None))
    # level with a vertex: same ordinate as a node, abscissa between that node and the column centre / beyond it
    for _ in range(n // 3):
        i = rng.randrange(len(gc.cols))
        c = gc.cols[i]
        nd = rng.choice(c.node)
        vy = float(nd.pos[1])
        cx = float(c.centre[0])
        t = rng.choice([0.25, 0.5, 0.75, 1.5, -0.5, -3.0, 6.0])
        x = float(nd.pos[0]) + t * (cx - float(nd.pos[0]))
        pts.append(('vertex-level', (x, vy), i))
        if rng.random() < 0.3:
            pts.append(('vertex-level-far', (gc.x0 - w * rng.choice([0.25, 1.0, 8.0]), vy), i))
            pts.append(('vertex-level-far', (gc.x1 + w * rng.choice([0.25, 1.0]), vy), i))
    return pts


def gen_z(gc, rng, ci):
    """an elevation not within tolerance of a layer boundary or of the column's surface"""
    lays = gc.layers
    bottoms = [float(b) for b, t in lays]
    ground = float(lays[0][0])
    lo = min(bottoms)
    k = rng.random()
    if k < 0.6:
        li = rng.randrange(1, len(lays))
        b, t = float(lays[li][0]), float(lays[li][1])
        z = b + (t - b) * rng.choice([0.25, 0.5, 0.75, 0.125, 0.875])
    elif k < 0.75:
        z = ground + rng.choice([0.25, 1.0, 2.5, 100.0])
    elif k < 0.85:
        z = lo - rng.choice([0.5, 3.0, 1000.0])
    else:
        s = float(gc.surf[ci]) if ci is not None else ground
        z = s + rng.choice([-0.125, 0.125, -0.03125, 0.03125])
    zf = F(z)
    marks = [b for b, t in lays] + [t for b, t in lays] + ([gc.surf[ci]] if ci is not None else [])
    if any(abs(zf - m) <= Z_TOL * max(1, abs(m)) for m in marks):
        return None
    return z


# ------------------------------------------------------------------ search aids

def aid_sets(gc, rng, E, pfl, extras, hint=None, all_guesses=False):
    """the search-aid combinations tried for one point; E = exact containing column index or None.
    each entry: (label, dict(columns=[idx]|None, guess=idx|None, bounds=name|None, qtree=bool), complete)
    `complete` = the property demands that E be found (the bounds contain p, the column subset contains E, ...)"""
    n = len(gc.cols)
    out = [('plain', {}, True)]
    nb = sorted(gc.idx[id(c)] for c in gc.cols[E].neighbour) if E is not None else []
    guesses = []
    if E is not None:
        guesses.append(('right', E))
        if nb:
            guesses.append(('neighbour', rng.choice(nb)))
            nn = sorted(gc.idx[id(c)] for c in gc.cols[rng.choice(nb)].neighbour if gc.idx[id(c)] != E and gc.idx[id(c)] not in nb)
            if nn:
                guesses.append(('second-neighbour', rng.choice(nn)))
    guesses.append(('far', rng.randrange(n)))
    # nearest column by bounding box for outside points: the guess a caller would make
    if E is None:
        x, y = pfl
        j = min(range(n), key=lambda i: max(gc.bb[i][0] - x, x - gc.bb[i][2], 0) + max(gc.bb[i][1] - y, y - gc.bb[i][3], 0))
        guesses.append(('nearest', j))
    if hint is not None:
        guesses.append(('column-level-with-point', hint))     # the column one of whose vertices has the point's ordinate
    if all_guesses:
        guesses += [('every-%d' % k, k) for k in range(n)]
    for lab, gi in guesses:
        out.append(('guess-' + lab, dict(guess=gi), True))
    for bname in extras['bounds']:
        out.append(('bounds-' + bname, dict(bounds=bname), extras['bounds'][bname]['holds'](pfl)))
    # column subsets
    k = rng.randint(1, min(n, 12))
    sub = rng.sample(range(n), k)
    if E is not None and E not in sub:
        sub[rng.randrange(len(sub))] = E
    rng.shuffle(sub)
    out.append(('columns-with-answer', dict(columns=sub), True))
    if E is not None:
        sub2 = [i for i in sub if i != E] or [(E + 1) % n]
        if E not in sub2:
            out.append(('columns-without-answer', dict(columns=sub2), False))
    out.append(('qtree', dict(qtree=True), not gc.holes))
    # combinations
    lab, gi = rng.choice(guesses)
    out.append(('guess-%s+qtree' % lab, dict(guess=gi, qtree=True), not gc.holes))
    lab, gi = rng.choice(guesses)
    bname = rng.choice(sorted(extras['bounds']))
    out.append(('guess-%s+bounds-%s' % (lab, bname), dict(guess=gi, bounds=bname), extras['bounds'][bname]['holds'](pfl)))
    lab, gi = rng.choice(guesses)
    out.append(('guess-%s+columns' % lab, dict(guess=gi, columns=sub), True))
    bname = rng.choice(sorted(extras['bounds']))
    out.append(('bounds-%s+qtree' % bname, dict(bounds=bname, qtree=True), extras['bounds'][bname]['holds'](pfl) and not gc.holes))
    lab, gi = rng.choice(guesses)
    bname = rng.choice(sorted(extras['bounds']))
    out.append(('guess-%s+columns+bounds-%s' % (lab, bname), dict(guess=gi, columns=sub, bounds=bname), extras['bounds'][bname]['holds'](pfl)))
    return out


def make_extras(gc, rng):
    """bounding rectangles / polygons offered as the `bounds` aid, with an exact test of whether they hold a point"""
    import numpy as np
    g = gc.geo
    ex = {'bounds': {}}
    b = g.bounds
    rect = [np.array(b[0], dtype=float), np.array(b[1], dtype=float)]
    fr = (FP(rect[0]), FP(rect[1]))

    def in_rect_exact(fr):
        return lambda p: fr[0][0] <= F(p[0]) <= fr[1][0] and fr[0][1] <= F(p[1]) <= fr[1][1]
    ex['bounds']['rect'] = dict(value=rect, enc=epts([fr[0], fr[1]]), holds=in_rect_exact(fr))
    w = max(gc.x1 - gc.x0, gc.y1 - gc.y0)
    m = 2.0 ** math.floor(math.log2(w / 8.0))
    big = [rect[0] - m, rect[1] + m]
    fb = (FP(big[0]), FP(big[1]))
    ex['bounds']['bigrect'] = dict(value=big, enc=epts([fb[0], fb[1]]), holds=in_rect_exact(fb))
    # the boundary polygon of the grid (as the docstring of column_containing_point suggests)
    try:
        with quiet():
            poly = [np.array(p, dtype=float) for p in g.boundary_polygon]
    except Exception:
        poly = []
    if len(poly) > 2:
        fpoly = [FP(p) for p in poly]

        def holds(p, fpoly=fpoly):
            P = FP(p)
            if near_edge(P, fpoly, EDGE_TOL):
                return None          # undecided: too close to the polygon itself
            wn = winding(P, fpoly)
            return None if wn is None else wn != 0
        ex['bounds']['boundary-polygon'] = dict(value=poly, enc=epts(fpoly), holds=holds)
    return ex


def call_ccp(gc, p, aid, extras, qt):
    import numpy as np
    kw = {}
    if aid.get('columns') is not None:
        kw['columns'] = [gc.cols[i] for i in aid['columns']]
    if aid.get('guess') is not None:
        kw['guess'] = gc.cols[aid['guess']]
    if aid.get('bounds') is not None:
        kw['bounds'] = extras['bounds'][aid['bounds']]['value']
    if aid.get('qtree'):
        kw['qtree'] = qt
    try:
        with quiet():
            r = gc.geo.column_containing_point(np.array(p, dtype=float), **kw)
    except Exception as e:
        return 'exc ' + type(e).__name__
    return gc.ci(r)


def req_ccp(p, aid, extras):
    cols = aid.get('columns')
    return 'ccp %s %s %s %s %d' % (ep(FP(p)), '-' if cols is None else enats(cols), '-' if aid.get('guess') is None else aid['guess'],
                                    '-' if aid.get('bounds') is None else extras['bounds'][aid['bounds']]['enc'], 1 if aid.get('qtree') else 0)


def canon_idx(s):
    return None if s == 'none' else (int(s) if s.lstrip('-').isdigit() else s)


# ------------------------------------------------------------------ quadtree

def dump_real_qtree(gc, qt):
    out = []

    def rec(q):
        out.append((q.generation, (FP(q.bounds[0]), FP(q.bounds[1])), [gc.ci(e) for e in q.elements]))
        for c in q.child:
            rec(c)
    rec(qt)
    return out


def parse_model_qtree(reply):
    w = reply.split()
    if w[0] != 'ok':
        return reply
    out = []
    for t in w[1:]:
        g, b, e = t.split(':')
        bx = [Fr(x) for x in b.split(',')]
        out.append((int(g), ((bx[0], bx[1]), (bx[2], bx[3])), [int(x) for x in e.split(',')] if e else []))
    return out


def qtree_equal(a, b, scale):
    """same shape and elements; bounds equal up to float rounding of 0.5*(a+b) (`scale` = absolute tolerance)"""
    if isinstance(b, str) or len(a) != len(b):
        return False
    tol = Fr(scale)
    for (g1, r1, e1), (g2, r2, e2) in zip(a, b):
        if g1 != g2 or e1 != e2:
            return False
        for u, v in zip(r1[0] + r1[1], r2[0] + r2[1]):
            if abs(u - v) > tol:
                return False
    return True


def qtree_tie(gc, real_dump, scale):
    """may the float tree and the exact tree legitimately differ?  Yes when some halving 0.5*(a+b) of the float tree was
    rounded (so the model's split lines differ from the float ones by rounding errors) and some element centre lies
    within rounding distance (`scale`, absolute) of a split line or boundary of its node."""
    tol = Fr(scale)
    rounded = any(F(0.5 * (float(a[ax]) + float(b[ax]))) != (a[ax] + b[ax]) / 2 for _, (a, b), elts in real_dump if len(elts) > 1 for ax in (0, 1))
    if not rounded:
        return False
    for gen, (a, b), elts in real_dump:
        if len(elts) > 1:
            for ax in (0, 1):
                mid = (a[ax] + b[ax]) / 2
                for e in elts:
                    c = FP(gc.cols[e].centre)[ax]
                    if any(abs(c - line) <= tol for line in (mid, a[ax], b[ax])):
                        return True
    return False


def reachable_in_wave_graph(gc, all_elts, leaf, E):
    """hypothesis of quadtree_search_complete_partial, evaluated independently: is column E reachable from an element
    of the leaf through neighbours that are tree elements and whose bounding boxes meet the leaf rectangle?"""
    (a, b), elts = leaf
    allset = set(all_elts)

    def meets(i):
        P = gc.polys[i]
        x0, y0, x1, y1 = min(q[0] for q in P), min(q[1] for q in P), max(q[0] for q in P), max(q[1] for q in P)
        return x1 >= a[0] and b[0] >= x0 and y1 >= a[1] and b[1] >= y0
    seen = set(elts)
    todo = list(elts)
    while todo:
        x = todo.pop()
        if x == E:
            return True
        for c in gc.cols[x].neighbour:
            n = gc.idx.get(id(c))
            if n is not None and n in allset and n not in seen and meets(n):
                seen.add(n)
                todo.append(n)
    return E in seen


def oracle_qtree(gc, real_dump):
    """clauses about the tree itself (model-independent): every element of a node with >1 elements whose centre is
    in the node's bounds appears in exactly one child; children elements are disjoint and come from the parent"""
    probs = []
    # rebuild parent/child relation from the preorder dump
    stack = []
    children = {}
    for k, (gen, b, e) in enumerate(real_dump):
        while stack and real_dump[stack[-1]][0] >= gen:
            stack.pop()
        if stack:
            children.setdefault(stack[-1], []).append(k)
        stack.append(k)
    for k, (gen, (a, b), elts) in enumerate(real_dump):
        ch = children.get(k, [])
        if len(elts) > 1:
            seen = {}
            for c in ch:
                for e in real_dump[c][2]:
                    seen[e] = seen.get(e, 0) + 1
            for e in elts:
                c = FP(gc.cols[e].centre)
                inb = a[0] <= c[0] <= b[0] and a[1] <= c[1] <= b[1]
                if inb and seen.get(e, 0) != 1:
                    probs.append('element %d of a node at generation %d is in %d children' % (e, gen, seen.get(e, 0)))
            for e in seen:
                if e not in elts:
                    probs.append('child element %d not in parent' % e)
        elif ch:
            probs.append('node with <= 1 element has children')
    return probs


# ------------------------------------------------------------------ blocks

def expected_block(gc, E, z):
    """independent reading of the block containing (p, z) when p is in column E: ('block', (li, ci)) | ('none',) |
    ('airgap',) for an elevation above a lowered surface but inside the surface layer (left to the correspondence)"""
    if E is None:
        return ('none',)
    zf = F(z)
    ground = gc.layers[0][0]
    s = gc.surf[E]
    if zf > max(ground, s):
        return ('none',)
    if zf > s:
        return ('airgap',)          # s < z < ground: above the column's own surface
    if zf > ground:
        return ('block', (1, E))    # raised surface: the top layer's block reaches up to the surface
    for li in range(1, len(gc.layers)):
        b, t = gc.layers[li]
        if b < zf < t:
            return ('block', (li, E))
    return ('none',)


def layers_contiguous(gc):
    return all(gc.layers[i][1] == gc.layers[i - 1][0] for i in range(1, len(gc.layers)))


# ------------------------------------------------------------------ run: point and block location on one geometry

def vio(res, key, what, case):
    res.violations.append(dict(key=key, what=what, case=case))


def run_geo(ctx, res, gc, rng, npoints, fixed_points=None, fixed_z=None, all_guesses=False):
    import numpy as np
    g = gc.geo
    label = gc.label
    fl, fq, fb = res.facet('locate'), res.facet('quadtree'), res.facet('blocks')
    lines = [gc.encode()]
    expect = [('geo', None, None)]
    scale = max(gc.x1 - gc.x0, gc.y1 - gc.y0, 1.0)
    # the float tree halves rectangles with 0.5*(a+b): up to one ulp of the coordinate magnitude per level
    btol = 64 * 2.0 ** -52 * max(abs(gc.x0), abs(gc.x1), abs(gc.y0), abs(gc.y1), scale)
    # quadtree
    try:
        with quiet():
            qt = g.column_quadtree()
    except Exception as e:       # the real constructor failed: that is behaviour of the code under test, not of the harness
        vio(res, 'quadtree-build-raises:' + type(e).__name__, '%s: column_quadtree() raises %s' % (label, type(e).__name__), dict(kind='qtree', recipe=gc.recipe))
        return
    real_dump = dump_real_qtree(gc, qt)
    for pr in oracle_qtree(gc, real_dump):
        vio(res, 'quadtree-partition', '%s: %s' % (label, pr), dict(kind='qtree', recipe=gc.recipe))
    b = g.bounds
    lines.append('qt - %s %s' % (ep(FP(b[0])), ep(FP(b[1]))))
    expect.append(('qt', real_dump, None))
    extras = make_extras(gc, rng)
    located = []
    pts = [('corpus', tuple(p), None) for p in (fixed_points or [])] + (gen_points(gc, rng, npoints) if npoints else [])
    for kind, p, hint in pts:
        status, inside = gc.locate_exact(p)
        res.evaluations += 1
        if status == 'edge':
            res.count('point:excluded-near-edge')
            continue
        res.hyp.setdefault('UniqueAt (at most one column contains the point)', [0, 0])
        res.hyp['UniqueAt (at most one column contains the point)'][1] += 1
        if len(inside) > 1:
            res.count('point:in-several-columns(skipped)')
            continue
        res.hyp['UniqueAt (at most one column contains the point)'][0] += 1
        E = inside[0] if inside else None
        located.append((p, E))
        inbox = gc.x0 <= p[0] <= gc.x1 and gc.y0 <= p[1] <= gc.y1
        res.count('point:%s:%s' % (kind, 'inside-column' if E is not None else ('outside-in-bbox' if inbox else 'outside-bbox')))
        res.count('geometry:%s' % label.split('-')[0])
        if E is not None:
            res.count('column-sides:%d' % len(gc.polys[E]))
        res.distinct.add((json.dumps(gc.recipe, sort_keys=True), p))
        # leaf
        try:
            with quiet():
                lf = qt.leaf(np.array(p, dtype=float))
            rl = None if lf is None else ((FP(lf.bounds[0]), FP(lf.bounds[1])), [gc.ci(e) for e in lf.elements])
        except Exception as e:
            rl = 'exc ' + type(e).__name__
        lines.append('leaf ' + ep(FP(p)))
        expect.append(('leaf', rl, dict(p=p)))
        if rl is not None and not isinstance(rl, str):
            (a0, b0) = rl[0]
            P = FP(p)
            if not (a0[0] <= P[0] <= b0[0] and a0[1] <= P[1] <= b0[1]):
                vio(res, 'quadtree-leaf-bounds', '%s: leaf(%r) has bounds not containing the point' % (label, p), dict(kind='point', recipe=gc.recipe, p=list(p)))
            if E is not None:
                hn = 'Reachable (containing column reachable from the leaf in the graph search_wave explores)'
                res.hyp.setdefault(hn, [0, 0])
                res.hyp[hn][1] += 1
                rch = reachable_in_wave_graph(gc, real_dump[0][2], rl, E)
                res.hyp[hn][0] += 1 if rch else 0
                if not rch:
                    res.count('quadtree:column-unreachable-from-leaf:%s' % ('holed-domain' if gc.holes else 'listed-geometry-class'))
        elif rl is None and inbox:
            vio(res, 'quadtree-leaf-none', '%s: leaf(%r) is None for a point in the root bounds' % (label, p), dict(kind='point', recipe=gc.recipe, p=list(p)))
        # every search-aid combination
        for alabel, aid, complete in aid_sets(gc, rng, E, p, extras, hint, all_guesses):
            r = call_ccp(gc, p, aid, extras, qt)
            akind = '+'.join(sorted(k for k in aid))
            res.count('aids:%s' % (akind or 'none'))
            case = dict(kind='point', recipe=gc.recipe, holes=gc.holes, p=list(p), aid=aid, expected=E)
            if isinstance(r, str):
                vio(res, 'ccp-raises:' + r[4:], '%s: column_containing_point(%r, %s) raises %s' % (label, p, alabel, r[4:]), case)
            elif r is not None and r != E:
                if E is None:
                    vio(res, 'ccp-outside-found', '%s: point %r lies in no column but %s search returns column %r' % (label, p, alabel, gc.cols[r].name if r >= 0 else r), case)
                else:
                    vio(res, 'ccp-wrong-column', '%s: point %r is in column %r but %s search returns %r' % (label, p, gc.cols[E].name, alabel, gc.cols[r].name if r >= 0 else r), case)
            elif r is None and E is not None and aid.get('qtree') and gc.holes:
                res.count('quadtree-search-misses-column(domain with holes: outside the listed geometry classes)')
            elif r is None and E is not None and complete is True:
                if True:
                    vio(res, 'ccp-missed:' + akind, '%s: point %r is in column %r but %s search returns None' % (label, p, gc.cols[E].name, alabel), case)
            elif complete is None:
                res.count('bounds-polygon-undecided')
            lines.append(req_ccp(p, aid, extras))
            expect.append(('ccp', r, dict(p=list(p), aid=aid, alabel=alabel)))
        # blocks
        for _ in range(2):
            z = fixed_z if fixed_z is not None else gen_z(gc, rng, E)
            if z is None:
                res.count('elevation:excluded-near-boundary')
                continue
            for useq in (False, True):
                pos = np.array([p[0], p[1], z], dtype=float)
                try:
                    with quiet():
                        bn = g.block_name_containing_point(pos, qtree=qt if useq else None)
                    rb = None if bn is None else gc.blockname.get(bn, 'unknown-name %r' % (bn,))
                except Exception as e:
                    bn, rb = None, 'exc ' + type(e).__name__
                exp = expected_block(gc, E, z)
                case = dict(kind='block', recipe=gc.recipe, holes=gc.holes, p=list(p), z=z, qtree=useq)
                res.count('elevation:%s' % exp[0])
                res.hyp.setdefault('Contiguous layers and z off every layer boundary', [0, 0])
                res.hyp['Contiguous layers and z off every layer boundary'][1] += 1
                res.hyp['Contiguous layers and z off every layer boundary'][0] += 1 if layers_contiguous(gc) else 0
                if isinstance(rb, str):
                    vio(res, 'block-bad-result', '%s: block_name_containing_point(%r) gives %s' % (label, list(pos), rb), case)
                elif exp[0] == 'none' and rb is not None and not (useq and gc.holes):
                    vio(res, 'block-outside-found', '%s: (%r) is in no block but block %r is reported' % (label, list(pos), bn), case)
                elif exp[0] == 'block' and rb != exp[1] and not (useq and gc.holes and rb is None):
                    vio(res, 'block-wrong', '%s: (%r) is in block %r but %r is reported' % (label, list(pos), exp[1], bn), case)
                # the reported block, and only it, must contain the point in the code's own sense
                if rb is not None and not isinstance(rb, str):
                    others = [(rb[0] + d, rb[1]) for d in (-1, 1) if 0 <= rb[0] + d < len(gc.layers)]
                    others += [(rb[0], j) for j in sorted(gc.idx[id(c)] for c in gc.cols[rb[1]].neighbour)[:3]]
                    others += [(rng.randrange(len(gc.layers)), rng.randrange(len(gc.cols))) for _ in range(3)]
                    for (li, ci) in [rb] + [o for o in others if o != rb]:
                        nm = g.block_name(g.layerlist[li].name, gc.cols[ci].name)
                        try:
                            with quiet():
                                cb = bool(g.block_contains_point(nm, pos))
                        except Exception as e:
                            cb = 'exc ' + type(e).__name__
                        lines.append('bcp %d %d %s %s' % (li, ci, ep(FP(p)), er(F(z))))
                        expect.append(('bcp', cb, dict(p=list(p), z=z, block=[li, ci])))
                        if gc.blockname.get(nm) != (li, ci):
                            continue      # two blocks share a name (naming is C17's business)
                        if (li, ci) == rb and cb is not True and F(z) > gc.layers[0][0] and BCP_RAISED_SURFACE_TOLERATED:
                            # between ground level and a raised surface block_contains_point only looks at the layer's own
                            # bottom/top; not one of the property's observation points: counted, reported, not alarmed on
                            res.count('block_contains_point:false-for-reported-block-above-ground-level')
                        elif (li, ci) == rb and cb is not True:
                            vio(res, 'block-reported-not-containing', '%s: block %r reported for %r but block_contains_point says %r' % (label, nm, list(pos), cb), case)
                        if (li, ci) != rb and cb is not False:
                            vio(res, 'block-not-unique', '%s: %r reported for %r but block %r also contains it' % (label, bn, list(pos), nm), case)
                lines.append('blk %s %s %d' % (ep(FP(p)), er(F(z)), 1 if useq else 0))
                expect.append(('blk', rb, dict(p=list(p), z=z, qtree=useq)))
            with quiet():
                lce = g.layer_containing_elevation(z)
            lines.append('lce ' + er(F(z)))
            expect.append(('lce', None if lce is None else g.layerlist.index(lce), dict(z=z)))
    # a quadtree over a subset of the columns (column_quadtree(columns)): its own bounds, its own all_elements
    if len(gc.cols) >= 4 and located:
        sub = sorted(rng.sample(range(len(gc.cols)), max(2, len(gc.cols) // 2)))
        try:
            with quiet():
                qt2 = g.column_quadtree([gc.cols[i] for i in sub])
            dump2 = dump_real_qtree(gc, qt2)
        except Exception as e:
            vio(res, 'quadtree-build-raises:' + type(e).__name__, '%s: column_quadtree(columns) raises %s' % (label, type(e).__name__), dict(kind='qtree', recipe=gc.recipe))
            qt2 = None
        if qt2 is not None:
            # its bounds are the bounding box of the nodes of those columns
            pts2 = [q for i in sub for q in gc.polys[i]]
            want = ((min(q[0] for q in pts2), min(q[1] for q in pts2)), (max(q[0] for q in pts2), max(q[1] for q in pts2)))
            if dump2[0][1] != want or dump2[0][2] != sub:
                vio(res, 'quadtree-subset-root', '%s: column_quadtree(columns): root bounds/elements are not those of the given columns' % label, dict(kind='qtree', recipe=gc.recipe))
            for pr in oracle_qtree(gc, dump2):
                vio(res, 'quadtree-partition', '%s (subset tree): %s' % (label, pr), dict(kind='qtree', recipe=gc.recipe))
            lines.append('qt %s %s %s' % (enats(sub), ep(dump2[0][1][0]), ep(dump2[0][1][1])))
            expect.append(('qt', dump2, None))
            for p, E in rng.sample(located, min(len(located), 12)):
                r = call_ccp(gc, p, dict(qtree=True), extras, qt2)
                res.count('aids:qtree-over-column-subset')
                case = dict(kind='point', recipe=gc.recipe, p=list(p), aid=dict(qtree_subset=sub), expected=E)
                if isinstance(r, str):
                    vio(res, 'ccp-raises:' + r[4:], '%s: column_containing_point(%r, subset quadtree) raises %s' % (label, p, r[4:]), case)
                elif r is not None and r != E:
                    vio(res, 'ccp-wrong-column' if E is not None else 'ccp-outside-found',
                        '%s: point %r: exact search gives %r but the search with a quadtree over a column subset returns %r' % (label, p, E, r), case)
                lines.append(req_ccp(p, dict(qtree=True), extras))
                expect.append(('ccp', r, dict(p=list(p), aid=dict(qtree=True), alabel='qtree-subset')))
    # model
    if ctx.model_ok:
        out = core.run_driver('drv_c12', lines)
        qt_ok = True
        qt_exact = False
        cur = {'xl': [], 'yl': []}

        def set_lines(dump):
            cur['xl'] = sorted(set(v for _, (a, b), _ in dump for v in (a[0], b[0])))
            cur['yl'] = sorted(set(v for _, (a, b), _ in dump for v in (a[1], b[1])))
        ltol = Fr(btol)

        def leaf_tie(p):
            """the point is within rounding distance of a split line of the (float) tree and the float and exact trees
            are not identical there: the two may legitimately descend into different leaves"""
            P = FP(p)
            return any(abs(P[0] - v) <= ltol and (P[0] != v or not qt_exact) for v in cur['xl']) or \
                any(abs(P[1] - v) <= ltol and (P[1] != v or not qt_exact) for v in cur['yl'])
        for (kind, real, info), reply in zip(expect, out):
            if kind == 'geo':
                if reply != 'ok':
                    raise RuntimeError('driver rejected geometry: ' + reply)
                continue
            if kind == 'qt':
                fq['cases'] += 1
                qt_ok, qt_exact = True, False
                set_lines(real)
                md = parse_model_qtree(reply)
                if not qtree_equal(real, md, btol):
                    if qtree_tie(gc, real, btol):
                        res.unstable += 1
                        qt_ok = False
                    else:
                        fq['disagreements'] += 1
                        res.disagreements.append(dict(facet='quadtree', case=dict(recipe=gc.recipe), model=str(md)[:300], impl=str(real)[:300]))
                else:
                    qt_exact = md == real
                    res.count('quadtree-nodes', len(real))
                    res.count('quadtree-max-depth:%d' % max(x[0] for x in real))
                continue
            if kind == 'leaf':
                if not qt_ok:
                    continue
                fq['cases'] += 1
                if reply == 'none':
                    m = None
                else:
                    bs, es = reply.split(':')
                    bx = [Fr(x) for x in bs.split(',')]
                    m = (((bx[0], bx[1]), (bx[2], bx[3])), [int(x) for x in es.split(',')] if es else [])
                same = (m is None and real is None) or (m is not None and real is not None and not isinstance(real, str) and m[1] == real[1]
                                                        and all(abs(u - v) <= Fr(btol) for u, v in zip(m[0][0] + m[0][1], real[0][0] + real[0][1])))
                if not same and leaf_tie(info['p']):
                    res.unstable += 1
                elif not same:
                    fq['disagreements'] += 1
                    res.disagreements.append(dict(facet='quadtree', case=dict(recipe=gc.recipe, **info), model=reply[:200], impl=str(real)[:200]))
                continue
            if kind == 'ccp':
                if info['aid'].get('qtree') and not qt_ok:
                    continue
                fl['cases'] += 1
                m = canon_idx(reply)
                if m != real and info['aid'].get('qtree') and leaf_tie(info['p']):
                    res.unstable += 1
                elif m != real:
                    fl['disagreements'] += 1
                    res.disagreements.append(dict(facet='locate', case=dict(recipe=gc.recipe, **info), model=reply, impl=real))
                continue
            fb['cases'] += 1
            if kind == 'blk':
                if info['qtree'] and not qt_ok:
                    continue
                m = None if reply == 'none' else (tuple(int(x) for x in reply.split()) if not reply.startswith('exc') else reply)
            elif kind == 'bcp':
                m = reply == '1'
            else:
                m = canon_idx(reply)
            if m != real:
                fb['disagreements'] += 1
                res.disagreements.append(dict(facet='blocks', case=dict(recipe=gc.recipe, op=kind, **info), model=reply, impl=str(real)))


# ------------------------------------------------------------------ tracks

def gen_lines(gc, rng, n):
    h = lattice_step(gc)
    w = max(gc.x1 - gc.x0, gc.y1 - gc.y0)

    def rp(margin):
        return (math.floor(rng.uniform(gc.x0 - margin * w, gc.x1 + margin * w) / h) * h + rng.choice([0, h / 2, h / 4, h / 8, 3 * h / 8]),
                math.floor(rng.uniform(gc.y0 - margin * w, gc.y1 + margin * w) / h) * h + rng.choice([0, h / 2, h / 4, 3 * h / 8, 5 * h / 8]))

    def inside():
        c = gc.cols[rng.randrange(len(gc.cols))]
        hs = 2.0 ** math.floor(math.log2(gc.side[gc.idx[id(c)]] / 16.0))
        return (math.floor(float(c.centre[0]) / hs) * hs + rng.choice([0, hs / 2]), math.floor(float(c.centre[1]) / hs) * hs + rng.choice([0, hs / 4]))
    def through_node():
        # a line whose midpoint is (up to one rounding) a node of the geometry: crossings exactly at a vertex
        c = gc.cols[rng.randrange(len(gc.cols))]
        nd = rng.choice(c.node)
        a = inside() if rng.random() < 0.7 else rp(0.2)
        nx, ny = float(nd.pos[0]), float(nd.pos[1])
        return a, (2 * nx - a[0], 2 * ny - a[1])
    out = []
    for _ in range(n):
        k = rng.random()
        if k < 0.2:
            (a, b), kind = through_node(), 'through-a-node'
        elif k < 0.45:
            a, b, kind = inside(), inside(), 'in-in'
        elif k < 0.6:
            a, b, kind = inside(), rp(0.3), 'in-any'
        elif k < 0.75:
            a, b, kind = rp(0.3), inside(), 'any-in'
        else:
            a, b, kind = rp(0.3), rp(0.3), 'any-any'
        if a != b:
            out.append((kind, a, b))
            if rng.random() < 0.25:
                out.append((kind + '(reversed)', b, a))
    return out


def exact_track(gc, a, b):
    """exact clipping of a->b against every column: ({col: [(t0,t1)...]}, flags)"""
    A, B = FP(a), FP(b)
    xs = (min(a[0], b[0]), max(a[0], b[0]))
    ys = (min(a[1], b[1]), max(a[1], b[1]))
    exact, flags = {}, set()
    lx, ly = B[0] - A[0], B[1] - A[1]
    L2 = lx * lx + ly * ly
    for ci, bb in enumerate(gc.bb):
        m = 1e-6 * gc.side[ci] + 1e-9 * (abs(bb[0]) + abs(bb[1]) + 1)
        if bb[2] + m < xs[0] or bb[0] - m > xs[1] or bb[3] + m < ys[0] or bb[1] - m > ys[1]:
            continue
        poly = gc.polys[ci]
        iv, along = line_poly_intervals(A, B, poly)
        if along:
            flags.add('along')
            return exact, flags
        # near-along / near-parallel crossings: an edge that the line meets at a very small angle
        n = len(poly)
        for i in range(n):
            p1, p2 = poly[i], poly[(i + 1) % n]
            ex, ey = p2[0] - p1[0], p2[1] - p1[1]
            e2 = ex * ex + ey * ey
            if e2 == 0:
                continue
            den = cross(lx, ly, ex, ey)
            if den * den <= Fr(1, 10 ** 6) * L2 * e2:        # |sin angle| <= 1e-3
                # does the edge come within tolerance of the segment?
                d2 = min(dist2_seg(p1, A, B), dist2_seg(p2, A, B), dist2_seg(A, p1, p2), dist2_seg(B, p1, p2))
                if d2 <= Fr(1, 10 ** 6) * e2:
                    flags.add('near-parallel')
        if iv:
            exact[ci] = iv
            if len(iv) > 1:
                flags.add('nonconvex-multi')
    return exact, flags


def real_track(gc, a, b):
    import numpy as np
    line = [np.array(a, dtype=float), np.array(b, dtype=float)]
    try:
        with quiet():
            t = gc.geo.column_track(line)
    except Exception as e:
        return 'exc ' + type(e).__name__
    return [(gc.ci(c), (float(pi[0]), float(pi[1])), (float(po[0]), float(po[1]))) for c, pi, po in t]


def oracle_track(gc, a, b, track, exact, flags):
    """the track clauses of the property on one real result; returns list of (key, text)"""
    if isinstance(track, str):
        return [('track-raises:' + track[4:], 'column_track raises %s' % track[4:])]
    A, B = FP(a), FP(b)
    lx, ly = B[0] - A[0], B[1] - A[1]
    L2 = lx * lx + ly * ly
    L = math.sqrt(float(L2))
    mag = max(abs(a[0]), abs(a[1]), abs(b[0]), abs(b[1]), 1.0)
    probs = []
    names = [ci for ci, _, _ in track]
    if len(set(names)) != len(names):
        probs.append(('track-duplicate-column', 'a column is listed twice'))
    if any(ci is None or ci < 0 for ci in names):
        return [('track-unknown-column', 'a listed column is not a column of the geometry')]
    length = {ci: float(sum(t1 - t0 for t0, t1 in iv)) * L for ci, iv in exact.items()}
    tol = {ci: CLIP_TOL * gc.side[ci] for ci in set(list(exact) + names)}
    for ci in exact:
        if ci not in names and length[ci] > 1.01 * tol[ci] + ULPS * mag:
            probs.append(('track-column-dropped', 'column %r is crossed over %.6g (%.3g x its clip tolerance) but is not in the track'
                          % (gc.cols[ci].name, length[ci], length[ci] / tol[ci])))
    tins = []
    for ci, pi, po in track:
        eps = (1e-6 * gc.side[ci] + ULPS * mag)
        ts = []
        for q in (pi, po):
            Q = FP(q)
            t = ((Q[0] - A[0]) * lx + (Q[1] - A[1]) * ly) / L2
            off = abs(float(cross(lx, ly, Q[0] - A[0], Q[1] - A[1]))) / L
            if off > eps or float(t) < -eps / L or float(t) > 1 + eps / L:
                probs.append(('track-point-off-line', 'column %r: point %r is not on the line segment (off by %.3g)' % (gc.cols[ci].name, q, off)))
            ts.append(float(t))
        tins.append(ts)
        if ci not in exact:
            probs.append(('track-extra-column', 'column %r is listed but the line does not cross it' % (gc.cols[ci].name,)))
            continue
        if length[ci] < 0.99 * tol[ci] - ULPS * mag:
            probs.append(('track-clip-listed', 'column %r is listed although crossed over only %.3g x its clip tolerance' % (gc.cols[ci].name, length[ci] / tol[ci])))
        iv = exact[ci]
        if abs(ts[0] - float(iv[0][0])) * L > eps or abs(ts[1] - float(iv[-1][1])) * L > eps:
            probs.append(('track-wrong-interval', 'column %r: entry/exit parameters (%.9g, %.9g) but the line is inside it on %s'
                          % (gc.cols[ci].name, ts[0], ts[1], [(float(x), float(y)) for x, y in iv])))
    for k in range(1, len(tins)):
        e = (1e-6 * max(gc.side[names[k]], gc.side[names[k - 1]]) + ULPS * mag) / L
        if tins[k][0] < tins[k - 1][0] - e:
            probs.append(('track-order', 'segments %d and %d are not ordered along the line' % (k - 1, k)))
        if 'nonconvex-multi' not in flags:
            gap = (tins[k - 1][1], tins[k][0])
            if gap[1] < gap[0] - e:
                probs.append(('track-overlap', 'segments %d and %d overlap by %.3g' % (k - 1, k, (gap[0] - gap[1]) * L)))
            elif gap[1] > gap[0] + e:
                # a gap must be explained by dropped clips or by the line being outside the domain
                covered = 0.0
                for ci in names:
                    for t0, t1 in exact.get(ci, []):
                        covered += max(0.0, min(float(t1), gap[1]) - max(float(t0), gap[0]))
                if covered > 3 * e:
                    probs.append(('track-gap', 'segments %d and %d do not abut (gap %.3g inside listed columns)' % (k - 1, k, covered * L)))
    if 'nonconvex-multi' not in flags and not probs:
        total = sum(to - ti for ti, to in tins) * L
        inside = sum(length.values())
        dropped = sum(length[ci] for ci in exact if ci not in names)
        if abs(total - (inside - dropped)) > sum(1e-6 * gc.side[ci] for ci in names) + ULPS * mag * (len(names) + 1):
            probs.append(('track-length-sum', 'segment lengths add up to %.9g, the line is inside the domain over %.9g (dropped clips %.3g)' % (total, inside, dropped)))
    return probs


def run_tracks(ctx, res, gc, rng, n, fixed_lines=None):
    ft = res.facet('track')
    lines = [gc.encode()]
    cases = []
    todo = [('corpus', tuple(a), tuple(b)) for a, b in (fixed_lines or [])] + (gen_lines(gc, rng, n) if n else [])
    for kind, a, b in todo:
        res.evaluations += 1
        exact, flags = exact_track(gc, a, b)
        if 'along' in flags:
            res.count('line:excluded-along-an-edge')
            continue
        if 'near-parallel' in flags:
            res.count('line:excluded-nearly-along-an-edge')
            continue
        track = real_track(gc, a, b)
        res.count('line:%s' % kind)
        res.count('track-columns:%s' % ('0' if not track else '1' if len(track) == 1 else '2-9' if len(track) < 10 else '10+'))
        if 'nonconvex-multi' in flags:
            res.count('line:crosses-a-nonconvex-column-twice(abut/sum clauses skipped)')
        res.distinct.add((json.dumps(gc.recipe, sort_keys=True), a, b))
        for key, text in oracle_track(gc, a, b, track, exact, flags):
            vio(res, key, '%s: line %r -> %r: %s' % (gc.label, a, b, text), dict(kind='track', recipe=gc.recipe, a=list(a), b=list(b)))
        lines.append('trk %s %s' % (ep(FP(a)), ep(FP(b))))
        lines.append('trkh %s %s' % (ep(FP(a)), ep(FP(b))))
        cases.append((a, b, track))
    if ctx.model_ok and cases:
        out = core.run_driver('drv_c12', lines)
        if out[0] != 'ok':
            raise RuntimeError('driver rejected geometry: ' + out[0])
        for (a, b, track), reply, hyp in zip(cases, out[1::2], out[2::2]):
            # hypotheses of the track theorems, evaluated by the model on this line
            w = hyp.split()
            for name, val in (('RevHyp (track_reverse_partial): not within one column, end points in at most one column, box test symmetric, every boxed column crossed 0, 1 or 2-far-apart times', w[5]),
                              ('notInOneB (track_lists_crossed_column_partial): the line is not within one column', w[0]),
                              ('Ordered 0 (track_lengths_partial): entries run forwards along the line without overlap', w[6])):
                if val in '01':
                    res.hyp.setdefault(name, [0, 0])
                    res.hyp[name][1] += 1
                    res.hyp[name][0] += int(val)
            hn = 'crossedLongB (track_lists_crossed_column_partial): columns passing the box test that are crossed exactly twice more than the clip tolerance apart / all columns passing the box test'
            res.hyp.setdefault(hn, [0, 0])
            res.hyp[hn][0] += int(w[9])
            res.hyp[hn][1] += int(w[7])
            res.count('track-boxed-columns:not-crossed', int(w[8]))
            res.count('track-boxed-columns:crossed-twice-far-apart', int(w[9]))
            res.count('track-boxed-columns:crossed-once', int(w[10]))
            res.count('track-boxed-columns:other(short clip, vertex, non-convex)', int(w[11]))
            if reply.startswith('unstable'):
                res.unstable += 1
                res.count('track-model-unstable:' + reply.split()[1])
                continue
            ft['cases'] += 1
            mag = max(abs(a[0]), abs(a[1]), abs(b[0]), abs(b[1]), 1.0)
            segs = []
            for tkn in reply.split()[1:]:
                c, pi, po = tkn.split(':')
                segs.append((int(c), tuple(Fr(x) for x in pi.split(',')), tuple(Fr(x) for x in po.split(','))))
            same = not isinstance(track, str) and len(segs) == len(track)
            if same:
                for (mc, mpi, mpo), (rc, rpi, rpo) in zip(segs, track):
                    e = 1e-6 * gc.side[mc] + ULPS * mag if mc < len(gc.side) else 0
                    if mc != rc or any(abs(float(u) - v) > e for u, v in zip(mpi + mpo, rpi + rpo)):
                        same = False
            if not same:
                ft['disagreements'] += 1
                res.disagreements.append(dict(facet='track', case=dict(recipe=gc.recipe, a=list(a), b=list(b)),
                                              model=[(c, [float(x) for x in pi], [float(x) for x in po]) for c, pi, po in segs][:6],
                                              impl=(track if isinstance(track, str) else track[:6])))


TRACK_CORPUS = [
    dict(what='track-column-dropped (fixed c67c9c2): the pinned multi-scale grid, line reversed',
         recipe=dict(kind='rect', dx=[1.] * 50 + [2.] * 25 + [5.] * 20 + [10.] * 20 + [100.] * 6 + [1000.] * 2, dy=[100.] * 5, dz=[10.], steps=[]),
         lines=[[[3000., 50.], [0., 50.]], [[0., 50.], [3000., 50.]], [[2999.5, 30.], [0.5, 70.]]]),
    dict(what='track-column-dropped: shipped g5, corner clip of 5.2 x the tolerance', recipe=dict(kind='shipped', name='g5', steps=[]),
         lines=[[[581712.0, 1852864.0], [587968.0, 1846336.0]], [[580424.0, 1848000.0], [588032.0, 1851672.0]]]),
]


# ------------------------------------------------------------------ geometry.py helpers on random lattice input

def star_polygon(rng, n, r=6, tiny=False):
    """a simple (star-shaped about the origin) polygon with integer vertices; optionally one vertex nudged by a tiny dyadic"""
    pts = set()
    while len(pts) < n:
        p = (rng.randint(-r, r), rng.randint(-r, r))
        if p != (0, 0):
            pts.add(p)
    # distinct directions only
    by = {}
    for p in pts:
        g = math.gcd(abs(p[0]), abs(p[1]))
        d = (p[0] // g, p[1] // g)
        if d not in by or (p[0] ** 2 + p[1] ** 2) > (by[d][0] ** 2 + by[d][1] ** 2):
            by[d] = p
    ps = sorted(by.values(), key=lambda p: math.atan2(p[1], p[0]))
    ps = [(float(x), float(y)) for x, y in ps]
    if tiny and ps:
        k = rng.randrange(len(ps))
        ps[k] = (ps[k][0], ps[k][1] + rng.choice([2.0 ** -30, -2.0 ** -30, 1e-9, 2.0 ** -45, 6.123233995736766e-15]))
    return ps


def run_geom_fns(ctx, res, rng, n):
    import numpy as np
    import geometry
    fg = res.facet('geom_fns')
    lines, expect = [], []

    def arr(p):
        return np.array(p, dtype=float)
    for k in range(n):
        # in_polygon
        poly = star_polygon(rng, rng.randint(3, 7), tiny=rng.random() < 0.3)
        if len(poly) < 3:
            continue
        fpoly = [FP(p) for p in poly]
        for _ in range(4):
            mode = rng.random()
            if mode < 0.5:
                p = (rng.randint(-16, 16) / 2.0, rng.randint(-16, 16) / 2.0)
            elif mode < 0.8:      # level with a vertex, anywhere on the horizontal line (also far outside)
                v = rng.choice(poly)
                p = (rng.choice([-50.0, -8.5, -0.5, 0.25, 3.5, 9.0, 1000.0, rng.randint(-16, 16) / 2.0]), v[1])
            else:
                v = rng.choice(poly)
                p = (v[0] + rng.choice([-0.5, 0.5, 0.0]), v[1] + rng.choice([-0.25, 0.25, 0.0]))
            P = FP(p)
            res.evaluations += 1
            if any(dist2_seg(P, fpoly[i], fpoly[(i + 1) % len(fpoly)]) <= Fr(1, 10 ** 12) for i in range(len(fpoly))):
                res.count('in_polygon:excluded-on-edge')
                continue
            r = int(geometry.in_polygon(arr(p), [arr(q) for q in poly]))
            wn = winding(P, fpoly)
            res.count('in_polygon:%s' % ('inside' if wn else 'outside'))
            res.distinct.add(('ip', tuple(poly), p))
            if (r == 1) != (wn != 0):
                vio(res, 'in-polygon-wrong', 'in_polygon(%r, %r) = %d but the winding number is %d' % (p, poly, r, wn), dict(kind='fn', fn='in_polygon', p=list(p), poly=[list(q) for q in poly]))
            if r == 1:
                bb = geometry.bounds_of_points([arr(q) for q in poly])
                if not geometry.in_rectangle(arr(p), bb):
                    vio(res, 'in-polygon-outside-bbox', 'in_polygon(%r, %r) = 1 outside the bounding box' % (p, poly), dict(kind='fn', fn='in_polygon', p=list(p), poly=[list(q) for q in poly]))
            lines.append('ip %s %s' % (ep(P), epts(fpoly)))
            expect.append(('ip', str(r), dict(p=p, poly=poly)))
        # rectangles
        def rrect():
            x0, y0 = rng.randint(-8, 8) / 2.0, rng.randint(-8, 8) / 2.0
            return ((x0, y0), (x0 + rng.randint(0, 8) / 2.0, y0 + rng.randint(0, 8) / 2.0))
        r1, r2 = rrect(), rrect()
        p = (rng.randint(-20, 20) / 4.0, rng.randint(-20, 20) / 4.0)
        res.evaluations += 3
        v = bool(geometry.in_rectangle(arr(p), [arr(r1[0]), arr(r1[1])]))
        if v != (r1[0][0] <= p[0] <= r1[1][0] and r1[0][1] <= p[1] <= r1[1][1]):
            vio(res, 'in-rectangle-wrong', 'in_rectangle(%r, %r) = %r' % (p, r1, v), dict(kind='fn', fn='in_rectangle', p=list(p), rect=[list(r1[0]), list(r1[1])]))
        lines.append('ir %s %s %s' % (ep(FP(p)), ep(FP(r1[0])), ep(FP(r1[1]))))
        expect.append(('ir', '1' if v else '0', dict(p=p, rect=r1)))
        v = bool(geometry.rectangles_intersect([arr(r1[0]), arr(r1[1])], [arr(r2[0]), arr(r2[1])]))
        want = not (r1[1][0] < r2[0][0] or r2[1][0] < r1[0][0] or r1[1][1] < r2[0][1] or r2[1][1] < r1[0][1])
        if v != want:
            vio(res, 'rectangles-intersect-wrong', 'rectangles_intersect(%r, %r) = %r' % (r1, r2, v), dict(kind='fn', fn='rectangles_intersect', r1=[list(r1[0]), list(r1[1])], r2=[list(r2[0]), list(r2[1])]))
        lines.append('ri %s %s %s %s' % (ep(FP(r1[0])), ep(FP(r1[1])), ep(FP(r2[0])), ep(FP(r2[1]))))
        expect.append(('ri', '1' if v else '0', dict(r1=r1, r2=r2)))
        sr = geometry.sub_rectangles([arr(r1[0]), arr(r1[1])])
        lines.append('sr %s %s' % (ep(FP(r1[0])), ep(FP(r1[1]))))
        expect.append(('sr', ' '.join(','.join(er(F(x)) for x in (a[0], a[1], b[0], b[1])) for a, b in sr), dict(rect=r1)))
        # the four sub-rectangles tile the rectangle: same total area, inside the parent
        area = sum((F(b[0]) - F(a[0])) * (F(b[1]) - F(a[1])) for a, b in sr)
        if area != (F(r1[1][0]) - F(r1[0][0])) * (F(r1[1][1]) - F(r1[0][1])) or len(sr) != 4:
            vio(res, 'sub-rectangles-wrong', 'sub_rectangles(%r) do not tile it' % (r1,), dict(kind='fn', fn='sub_rectangles', rect=[list(r1[0]), list(r1[1])]))
        pts = [(rng.randint(-20, 20) / 4.0, rng.randint(-20, 20) / 4.0) for _ in range(rng.randint(1, 6))]
        bb = geometry.bounds_of_points([arr(q) for q in pts])
        lines.append('bp ' + epts([FP(q) for q in pts]))
        expect.append(('bp', ','.join(er(F(x)) for x in (bb[0][0], bb[0][1], bb[1][0], bb[1][1])), dict(points=pts)))
        # line_intersects_rectangle
        a, b = (rng.randint(-24, 24) / 4.0, rng.randint(-24, 24) / 4.0), (rng.randint(-24, 24) / 4.0, rng.randint(-24, 24) / 4.0)
        if a != b and r1[0][0] < r1[1][0] and r1[0][1] < r1[1][1]:
            # exact Liang-Barsky
            t0, t1 = Fr(0), Fr(1)
            A, B = FP(a), FP(b)
            ok = True
            for d, lo, hi, s in ((B[0] - A[0], F(r1[0][0]), F(r1[1][0]), A[0]), (B[1] - A[1], F(r1[0][1]), F(r1[1][1]), A[1])):
                if d == 0:
                    if s < lo or s > hi:
                        ok = False
                else:
                    u, w = (lo - s) / d, (hi - s) / d
                    t0, t1 = max(t0, min(u, w)), min(t1, max(u, w))
            res.evaluations += 1
            if ok and t0 == t1:
                res.count('line_intersects_rectangle:excluded-touching')
            else:
                want = ok and t0 < t1
                try:
                    v = bool(geometry.line_intersects_rectangle([arr(r1[0]), arr(r1[1])], [arr(a), arr(b)]))
                except Exception as e:
                    v = 'exc ' + type(e).__name__
                res.count('line_intersects_rectangle:%s' % want)
                if v != want:
                    vio(res, 'line-intersects-rectangle-wrong', 'line_intersects_rectangle(%r, %r) = %r' % (r1, (a, b), v), dict(kind='fn', fn='line_intersects_rectangle', rect=[list(r1[0]), list(r1[1])], a=list(a), b=list(b)))
                lines.append('lir %s %s %s %s' % (ep(FP(r1[0])), ep(FP(r1[1])), ep(A), ep(B)))
                expect.append(('lir', '1' if v is True else '0' if v is False else v, dict(rect=r1, a=a, b=b)))
        # line_polygon_intersections
        if a != b:
            poly2 = star_polygon(rng, rng.randint(3, 6))
            if len(poly2) >= 3:
                fp2 = [FP(q) for q in poly2]
                iv, along = line_poly_intervals(FP(a), FP(b), fp2)
                res.evaluations += 1
                if along:
                    res.count('line_polygon_intersections:excluded-along-edge')
                else:
                    with quiet():
                        ps = geometry.line_polygon_intersections([arr(q) for q in poly2], [arr(a), arr(b)])
                    ps = [(float(q[0]), float(q[1])) for q in ps]
                    res.count('line_polygon_intersections:%d-points' % len(ps))
                    for q in ps:
                        Q = FP(q)
                        if dist2_seg(Q, FP(a), FP(b)) > Fr(1, 10 ** 12) or min(dist2_seg(Q, fp2[i], fp2[(i + 1) % len(fp2)]) for i in range(len(fp2))) > Fr(1, 10 ** 12):
                            vio(res, 'line-polygon-point-off', 'line_polygon_intersections(%r, %r): %r is not on both' % (poly2, (a, b), q), dict(kind='fn', fn='line_polygon_intersections', poly=[list(x) for x in poly2], a=list(a), b=list(b)))
                    lines.append('lpi %s %s %s' % (ep(FP(a)), ep(FP(b)), epts(fp2)))
                    expect.append(('lpi', ps, dict(poly=poly2, a=a, b=b)))
    if ctx.model_ok and lines:
        out = core.run_driver('drv_c12', lines)
        for (kind, real, info), reply in zip(expect, out):
            if kind == 'lpi':
                if reply.startswith('unstable'):
                    res.unstable += 1
                    continue
                fg['cases'] += 1
                mp = [tuple(float(Fr(x)) for x in t.split(',')) for t in reply.split()[1:]]
                same = len(mp) == len(real) and all(abs(u - v) <= 1e-9 for p, q in zip(mp, real) for u, v in zip(p, q))
            else:
                fg['cases'] += 1
                same = reply == real
            if not same:
                fg['disagreements'] += 1
                res.disagreements.append(dict(facet='geom_fns', case=dict(fn=kind, **{k: v for k, v in info.items()}), model=reply[:200], impl=str(real)[:200]))


# ------------------------------------------------------------------ measured reach (thorough tier)

ANCHORED = {'geometry.py': ['in_polygon', 'in_rectangle', 'rectangles_intersect', 'sub_rectangles', 'bounds_of_points',
                            'line_polygon_intersections', 'line_intersects_rectangle', 'clip', 'in_unit'],
            'mulgrids.py': ['search_wave', 'search', 'leaf', 'get_bounding_box', 'near_point', 'contains_point', 'contains_elevation',
                            'column_containing_point', 'layer_containing_elevation', 'block_name_containing_point', 'block_contains_point',
                            'column_track', 'track_dist', 'column_quadtree', 'get_bounds']}


def measure_reach(ctx, res):
    """statements of the anchored functions executed by a quick-sized run of all facets (a facet cannot notice a change
    to a line it never runs)"""
    import ast, coverage
    srcs = [str(core.REPO / f) for f in ANCHORED]
    cov = coverage.Coverage(include=srcs, data_file=None)
    cov.start()
    try:
        c2 = core.Ctx(ctx.prop, 'quick', ctx.seed)
        c2.model_ok = False
        try:
            run(c2, scale=0.5, reach=False)
        finally:
            c2.cleanup()
    finally:
        cov.stop()
    tot = hit = 0
    unexecuted = []
    for f, names in ANCHORED.items():
        src = str(core.REPO / f)
        an = cov.analysis2(src)
        stmts, missing = set(an[1]), set(an[3])
        tree = ast.parse(open(src).read())
        for n in ast.walk(tree):
            if isinstance(n, ast.FunctionDef) and n.name in names and not (f == 'mulgrids.py' and n.name in ('search', 'leaf') and n.lineno > 200):
                lines = [l for l in range(n.lineno + 1, n.end_lineno + 1) if l in stmts]
                miss = [l for l in lines if l in missing]
                tot += len(lines)
                hit += len(lines) - len(miss)
                unexecuted += ['%s:%s:%d' % (f, n.name, l) for l in miss]
        # quadtree.__init__
        for n in ast.walk(tree):
            if isinstance(n, ast.ClassDef) and n.name == 'quadtree':
                for m in n.body:
                    if isinstance(m, ast.FunctionDef) and m.name == '__init__':
                        lines = [l for l in range(m.lineno + 1, m.end_lineno + 1) if l in stmts]
                        miss = [l for l in lines if l in missing]
                        tot += len(lines)
                        hit += len(lines) - len(miss)
                        unexecuted += ['%s:quadtree.__init__:%d' % (f, l) for l in miss]
    res.stats['reach:anchored-statements-executed'] = '%d/%d' % (hit, tot)
    res.stats['reach:unexecuted'] = ', '.join(unexecuted) or '-'


# ------------------------------------------------------------------ check entry points

def run(ctx, scale=1.0, reach=True):
    import importlib, geometry, mulgrids
    importlib.reload(geometry)
    importlib.reload(mulgrids)
    res = Result()
    res.rule = ('a case = (geometry recipe, point[, elevation]) or (geometry recipe, line) or a direct call of a geometry.py helper; '
                'non-trivial = distinct cases that survive the exclusion zones (point not within 1e-6 x longest side of a column edge, '
                'elevation not within 1e-9 of a layer boundary/surface, line not along a column edge); every such point is searched with '
                '~14 search-aid combinations')
    rng = ctx.rng('locate')
    # fixed corpus first
    for c in CORPUS:
        gc = GeoCase('corpus', build_geo(c['recipe']), c['recipe'], c.get('holes', False))
        run_geo(ctx, res, gc, ctx.rng('corpus'), 0, fixed_points=c['points'], fixed_z=c['z'], all_guesses=True)
    for c in TRACK_CORPUS:
        gc = GeoCase('corpus', build_geo(c['recipe']), c['recipe'])
        run_tracks(ctx, res, gc, ctx.rng('corpus'), 0, fixed_lines=c['lines'])
    run_geom_fns(ctx, res, ctx.rng('geom_fns'), int(ctx.n(800, 12000) * scale))
    npts = int(ctx.n(60, 200) * scale)
    nlines = int(ctx.n(50, 250) * scale)
    for label, recipe, holes in recipes(ctx, rng):
        gc = GeoCase(label, build_geo(recipe), recipe, holes)
        big = len(gc.cols) > 600
        run_geo(ctx, res, gc, rng, npts // 2 if big else npts)
        if not holes:
            run_tracks(ctx, res, gc, rng, nlines // 2 if big else nlines)
        if len(res.samples) < 6:
            res.sample(dict(geometry=label, columns=len(gc.cols), layers=len(gc.layers), recipe=str(recipe)[:200]))
    res.exhaustive = False
    if reach and not ctx.quick:
        measure_reach(ctx, res)
    return res


def search(ctx, seconds, res):
    """failing-input search on the real code: the oracle is part of run(); widen the stream with other seeds"""
    import time
    found = list(res.violations)
    t0 = time.time()
    k = 0
    while not found and time.time() - t0 < seconds:
        k += 1
        c2 = core.Ctx(ctx.prop, ctx.tier, ctx.seed + 1000 * k)
        c2.model_ok = False
        try:
            r = run(c2, scale=0.7, reach=False)
        finally:
            c2.cleanup()
        found = r.violations
    return found


def replay_fn(c):
    """re-evaluate the oracle of one direct geometry.py helper case"""
    import numpy as np
    import geometry

    def arr(p):
        return np.array(p, dtype=float)
    fn = c['fn']
    if fn == 'in_polygon':
        r = int(geometry.in_polygon(arr(c['p']), [arr(q) for q in c['poly']]))
        wn = winding(FP(c['p']), [FP(q) for q in c['poly']])
        bb = geometry.bounds_of_points([arr(q) for q in c['poly']])
        bad = (r == 1) != (wn != 0) or (r == 1 and not geometry.in_rectangle(arr(c['p']), bb))
        return bad, 'in_polygon(%r, %r) = %d, winding number %r' % (c['p'], c['poly'], r, wn)
    if fn == 'in_rectangle':
        p, r1 = c['p'], c['rect']
        v = bool(geometry.in_rectangle(arr(p), [arr(r1[0]), arr(r1[1])]))
        want = r1[0][0] <= p[0] <= r1[1][0] and r1[0][1] <= p[1] <= r1[1][1]
        return v != want, 'in_rectangle(%r, %r) = %r, expected %r' % (p, r1, v, want)
    if fn == 'rectangles_intersect':
        r1, r2 = c['r1'], c['r2']
        v = bool(geometry.rectangles_intersect([arr(r1[0]), arr(r1[1])], [arr(r2[0]), arr(r2[1])]))
        want = not (r1[1][0] < r2[0][0] or r2[1][0] < r1[0][0] or r1[1][1] < r2[0][1] or r2[1][1] < r1[0][1])
        return v != want, 'rectangles_intersect(%r, %r) = %r, expected %r' % (r1, r2, v, want)
    if fn == 'sub_rectangles':
        r1 = c['rect']
        sr = geometry.sub_rectangles([arr(r1[0]), arr(r1[1])])
        area = sum((F(b[0]) - F(a[0])) * (F(b[1]) - F(a[1])) for a, b in sr)
        bad = len(sr) != 4 or area != (F(r1[1][0]) - F(r1[0][0])) * (F(r1[1][1]) - F(r1[0][1]))
        return bad, 'sub_rectangles(%r) = %r' % (r1, [[list(map(float, a)), list(map(float, b))] for a, b in sr])
    if fn == 'line_intersects_rectangle':
        r1, a, b = c['rect'], c['a'], c['b']
        t0, t1, ok = Fr(0), Fr(1), True
        A, B = FP(a), FP(b)
        for d, lo, hi, s0 in ((B[0] - A[0], F(r1[0][0]), F(r1[1][0]), A[0]), (B[1] - A[1], F(r1[0][1]), F(r1[1][1]), A[1])):
            if d == 0:
                ok = ok and lo <= s0 <= hi
            else:
                u, w = (lo - s0) / d, (hi - s0) / d
                t0, t1 = max(t0, min(u, w)), min(t1, max(u, w))
        want = ok and t0 < t1
        try:
            v = bool(geometry.line_intersects_rectangle([arr(r1[0]), arr(r1[1])], [arr(a), arr(b)]))
        except Exception as e:
            v = 'exc ' + type(e).__name__
        return v != want, 'line_intersects_rectangle(%r, %r) = %r, exact clipping says %r' % (r1, (a, b), v, want)
    if fn == 'line_polygon_intersections':
        poly, a, b = c['poly'], c['a'], c['b']
        fp2 = [FP(q) for q in poly]
        with quiet():
            ps = geometry.line_polygon_intersections([arr(q) for q in poly], [arr(a), arr(b)])
        bad = False
        for q in ps:
            Q = FP(q)
            if dist2_seg(Q, FP(a), FP(b)) > Fr(1, 10 ** 12) or min(dist2_seg(Q, fp2[i], fp2[(i + 1) % len(fp2)]) for i in range(len(fp2))) > Fr(1, 10 ** 12):
                bad = True
        return bad, 'line_polygon_intersections(%r, %r) = %r' % (poly, (a, b), [list(map(float, q)) for q in ps])
    return False, 'unknown helper %r' % fn


def replay(ctx, payload):
    c = payload.get('case') or {}
    kind = c.get('kind')
    key = payload.get('key', '')
    ctx.model_ok = False
    res = Result()
    if kind in ('point', 'block', 'qtree'):
        gc = GeoCase('replay', build_geo(c['recipe']), c['recipe'], bool(c.get('holes', False)))
        if kind == 'qtree':
            try:
                with quiet():
                    qt = gc.geo.column_quadtree()
            except Exception as e:
                return True, 'column_quadtree() raises %s' % type(e).__name__
            probs = oracle_qtree(gc, dump_real_qtree(gc, qt))
            return bool(probs), 'quadtree of %s: %s' % (c['recipe'], probs or 'partition clauses hold')
        p = tuple(c['p'])
        status, inside = gc.locate_exact(p)
        try:
            with quiet():
                qt = gc.geo.column_quadtree()
        except Exception as e:
            return True, 'column_quadtree() raises %s' % type(e).__name__
        extras = make_extras(gc, ctx.rng('replay'))
        if kind == 'point':
            E = inside[0] if len(inside) == 1 else None
            aid = c['aid']
            if 'qtree_subset' in aid:
                with quiet():
                    qt = gc.geo.column_quadtree([gc.cols[i] for i in aid['qtree_subset']])
                aid = dict(qtree=True)
            r = call_ccp(gc, p, aid, extras, qt)
            txt = 'point %r: exact search gives column %r (%s); column_containing_point with aids %s returns %r' % (
                p, None if E is None else gc.cols[E].name, status, c['aid'], r if not isinstance(r, int) else gc.cols[r].name)
            bad = isinstance(r, str) or (r is not None and r != E) or (r is None and E is not None and key.startswith('ccp-missed'))
            return bad, txt
        run_geo(ctx, res, gc, ctx.rng('replay'), 0, fixed_points=[p], fixed_z=c['z'])
        hits = [v for v in res.violations if v['key'].startswith('block') and v['case'].get('qtree') == c.get('qtree')]
        return bool(hits), 'point %r z=%r: %s' % (p, c['z'], sorted(set(v['what'] for v in hits)) or 'block clauses hold')
    if kind == 'track':
        gc = GeoCase('replay', build_geo(c['recipe']), c['recipe'])
        a, b = tuple(c['a']), tuple(c['b'])
        exact, flags = exact_track(gc, a, b)
        track = real_track(gc, a, b)
        probs = oracle_track(gc, a, b, track, exact, flags)
        return bool(probs), 'line %r -> %r: track has %s entries; %s' % (a, b, len(track) if not isinstance(track, str) else track, [t for _, t in probs] or 'track clauses hold')
    if kind == 'fn':
        return replay_fn(c)
    return False, 'replay file names what no longer checks: %s' % payload.get('broken')
