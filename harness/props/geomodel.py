"""Correspondence between the real mulgrid and the compiled Lean geometry state machine (drv_c10).

The same edit history is applied to both; after every operation the two states are compared on
everything observable: nodes (position, column set), columns (node order, centre, surface, area,
num_layers, neighbour and connection sets), connections (columns, node pair), layers, wells, the five
by-name dictionaries, the block / connection name lists and whether they are fresh.

Generated names: refine() and decompose_columns() name new nodes and columns in set-iteration order,
which the model cannot know.  Objects are therefore matched by geometry (node = position, column =
its node tuple) and every other reference is compared through that matching; names must agree
exactly for everything that was not created by such an operation.
"""
import subprocess, math
from fractions import Fraction
import core
from props import geolib as G

TOL = 1e-9


DRIVER_PATH = {}      # exe -> private copy made at the start of a run (a concurrent `lake build` replaces the original)


def private_driver(exe, tmpdir):
    import shutil
    src = core.LEAN / '.lake' / 'build' / 'bin' / exe
    dst = core.Path(str(tmpdir)) / exe
    shutil.copy2(src, dst)
    DRIVER_PATH[exe] = dst
    return dst


class Driver:
    def __init__(self, exe='drv_c10'):
        path = DRIVER_PATH.get(exe) or (core.LEAN / '.lake' / 'build' / 'bin' / exe)
        self.p = subprocess.Popen([str(path)], stdin=subprocess.PIPE, stdout=subprocess.PIPE, text=True, bufsize=1)
        self.n = 0

    def ask(self, line):
        self.p.stdin.write(line + '\n')
        self.p.stdin.flush()
        r = self.p.stdout.readline()
        if not r:
            raise RuntimeError('drv_c10 died on request %r' % line[:200])
        self.n += 1
        return r.rstrip('\n')

    def close(self):
        try:
            self.p.stdin.close()
            self.p.wait(timeout=10)
        except Exception:
            self.p.kill()


def hexname(s):
    return s.encode('latin-1').hex() or '~'


def unhex(h):
    return '' if h == '~' else bytes.fromhex(h).decode('latin-1')


def rat(x):
    f = Fraction(float(x))
    return '%d/%d' % (f.numerator, f.denominator)


def prat(s):
    a, b = s.split('/')
    return Fraction(int(a), int(b))


# ----------------------------------------------------------------------------- dumps

def parse_dump(text):
    w = text.split(' ')
    pos = [0]

    def take():
        pos[0] += 1
        return w[pos[0] - 1]

    def section(tag):
        t = take()
        if t != tag:
            raise RuntimeError('model dump: expected section %s, found %s' % (tag, t))
        return int(take())

    d = {}
    d['nodes'] = []
    for _ in range(section('N')):
        name = unhex(take()); x = prat(take()); y = prat(take())
        cols = [unhex(take()) for _ in range(int(take()))]
        d['nodes'].append({'name': name, 'pos': (x, y), 'cols': cols})
    d['cols'] = []
    for _ in range(section('C')):
        name = unhex(take())
        nodes = [unhex(take()) for _ in range(int(take()))]
        cx = prat(take()); cy = prat(take()); spec = int(take())
        s = take(); surface = None if s == '-' else prat(s)
        area = prat(take()); nl = int(take())
        nbrs = [unhex(take()) for _ in range(int(take()))]
        cons = [tuple(unhex(h) for h in take().split(':')) for _ in range(int(take()))]
        d['cols'].append({'name': name, 'nodes': nodes, 'centre': (cx, cy), 'spec': spec, 'surface': surface,
                          'area': area, 'num_layers': nl, 'nbrs': nbrs, 'cons': cons})
    d['cons'] = []
    for _ in range(section('K')):
        c0 = unhex(take()); c1 = unhex(take()); a = take(); b = take()
        d['cons'].append({'cols': (c0, c1), 'nodes': None if a == '-' else (unhex(a), unhex(b))})
    d['layers'] = []
    for _ in range(section('L')):
        d['layers'].append({'name': unhex(take()), 'bottom': prat(take()), 'centre': prat(take()), 'top': prat(take())})
    d['wells'] = []
    for _ in range(section('W')):
        name = unhex(take())
        d['wells'].append({'name': name, 'pos': [(prat(take()), prat(take()), prat(take())) for _ in range(int(take()))]})
    for tag, key in (('DN', 'dn'), ('DC', 'dc'), ('DL', 'dl'), ('DW', 'dw')):
        d[key] = [(unhex(take()), unhex(take())) for _ in range(section(tag))]
    d['dk'] = [((unhex(take()), unhex(take())), (unhex(take()), unhex(take()))) for _ in range(section('DK'))]
    d['blocks'] = [unhex(take()) for _ in range(section('B'))]
    d['bcons'] = [(unhex(take()), unhex(take())) for _ in range(section('BC'))]
    if take() != 'FRESH':
        raise RuntimeError('model dump: FRESH expected')
    d['fresh'] = take()
    return d


def real_dump(g):
    nm = lambda o: getattr(o, 'name', '?')
    d = {}
    d['nodes'] = [{'name': n.name, 'pos': (G.fx(n.pos[0]), G.fx(n.pos[1])), 'cols': [nm(c) for c in n.column]} for n in g.nodelist]
    d['cols'] = [{'name': c.name, 'nodes': [nm(n) for n in c.node], 'centre': (G.fx(c.centre[0]), G.fx(c.centre[1])),
                  'spec': int(bool(c.centre_specified)), 'surface': None if c.surface is None else G.fx(c.surface),
                  'area': G.fx(c.area), 'num_layers': int(c.num_layers), 'nbrs': [nm(k) for k in c.neighbour],
                  'cons': [tuple(nm(x) for x in k.column) for k in c.connection]} for c in g.columnlist]
    d['cons'] = [{'cols': tuple(nm(c) for c in k.column),
                  'nodes': None if k.node is None else tuple(nm(n) for n in k.node)} for k in g.connectionlist]
    d['layers'] = [{'name': l.name, 'bottom': G.fx(l.bottom), 'centre': G.fx(l.centre), 'top': G.fx(l.top)} for l in g.layerlist]
    d['wells'] = [{'name': w.name, 'pos': [tuple(G.fx(v) for v in p) for p in w.pos]} for w in g.welllist]
    d['dn'] = [(k, nm(v)) for k, v in g.node.items()]
    d['dc'] = [(k, nm(v)) for k, v in g.column.items()]
    d['dl'] = [(k, nm(v)) for k, v in g.layer.items()]
    d['dw'] = [(k, nm(v)) for k, v in g.well.items()]
    d['dk'] = [(tuple(k), tuple(nm(c) for c in v.column)) for k, v in g.connection.items()]
    d['blocks'] = list(g.block_name_list)
    d['bcons'] = [tuple(x) for x in g.block_connection_name_list]
    return d


def close(a, b, scale=1):
    return abs(a - b) <= TOL * max(abs(a), abs(b), scale)


def compare(g, md, rd, fresh_real, loose=False, old_cmap=None):
    """returns (list of differences, node map model->real, column map model->real, floating?)"""
    diffs = []

    def diff(what, m, r):
        if len(diffs) < 6:
            diffs.append('%s: model %s / implementation %s' % (what, m, r))

    # --- match nodes: by name when the positions agree, else by position
    rn = {}
    for n in rd['nodes']:
        rn.setdefault(n['name'], []).append(n)
    scale = max([1] + [max(abs(n['pos'][0]), abs(n['pos'][1])) for n in rd['nodes']])
    nmap, used = {}, set()
    rest = []
    for n in md['nodes']:
        c = rn.get(n['name'], [])
        if len(c) == 1 and close(c[0]['pos'][0], n['pos'][0], scale) and close(c[0]['pos'][1], n['pos'][1], scale) \
                and (not c[0]['cols']) == (not n['cols']):
            nmap[n['name']] = n['name']; used.add(id(c[0]))
        else:
            rest.append(n)
    free = [n for n in rd['nodes'] if id(n) not in used]
    for n in rest:
        cand = [r for r in free if close(r['pos'][0], n['pos'][0], scale) and close(r['pos'][1], n['pos'][1], scale)]
        cand.sort(key=lambda r: (bool(r['cols']) != bool(n['cols']), r['name'] != n['name']))
        if not cand:
            diff('node at %s' % ((float(n['pos'][0]), float(n['pos'][1])),), repr(n['name']), 'no node there')
            continue
        nmap[n['name']] = cand[0]['name']
        free.remove(cand[0])
    if len(md['nodes']) != len(rd['nodes']):
        diff('number of nodes', len(md['nodes']), len(rd['nodes']))
    for r in free[:2]:
        diff('node %r at %s' % (r['name'], (float(r['pos'][0]), float(r['pos'][1]))), 'absent', 'present')
    # --- match columns by their node tuples
    rc = {}
    for c in rd['cols']:
        rc.setdefault(tuple(c['nodes']), []).append(c)
    cmap = {}
    for c in md['cols']:
        key = tuple(nmap.get(n, '?' + n) for n in c['nodes'])
        cand = rc.get(key, [])
        cand = [x for x in cand if x['name'] == c['name']] or cand
        if not cand:
            diff('column with nodes %r' % (key,), repr(c['name']), 'no such column')
            continue
        cmap[c['name']] = cand[0]['name']
        cand.remove(cand[0]) if len(rc[key]) > 1 else None
    if len(md['cols']) != len(rd['cols']):
        diff('number of columns', len(md['cols']), len(rd['cols']))
    floating = loose or any(k != v for k, v in nmap.items()) or any(k != v for k, v in cmap.items())
    # with floating names the direction of a connection added by missing_connections (min name first) floats too
    pair = (lambda p: tuple(sorted(p))) if floating else (lambda p: tuple(p))
    mc = lambda n: cmap.get(n, '?' + n)
    mn = lambda n: nmap.get(n, '?' + n)
    # --- nodes
    rnode = {n['name']: n for n in rd['nodes']}
    for n in md['nodes']:
        r = rnode.get(nmap.get(n['name']))
        if r is None:
            continue
        if sorted(map(mc, n['cols'])) != sorted(r['cols']):
            diff('node %r column set' % r['name'], sorted(map(mc, n['cols'])), sorted(r['cols']))
    # --- columns
    rcol = {c['name']: c for c in rd['cols']}
    for c in md['cols']:
        r = rcol.get(cmap.get(c['name']))
        if r is None:
            continue
        if not (close(c['centre'][0], r['centre'][0], scale) and close(c['centre'][1], r['centre'][1], scale)):
            diff('column %r centre' % r['name'], tuple(map(float, c['centre'])), tuple(map(float, r['centre'])))
        if c['spec'] != r['spec']:
            diff('column %r centre_specified' % r['name'], c['spec'], r['spec'])
        if (c['surface'] is None) != (r['surface'] is None) or (c['surface'] is not None and not close(c['surface'], r['surface'])):
            diff('column %r surface' % r['name'], c['surface'], r['surface'])
        if not close(c['area'], r['area'], 0):
            diff('column %r area' % r['name'], float(c['area']), float(r['area']))
        if c['num_layers'] != r['num_layers']:
            diff('column %r num_layers' % r['name'], c['num_layers'], r['num_layers'])
        if sorted(map(mc, c['nbrs'])) != sorted(r['nbrs']):
            diff('column %r neighbours' % r['name'], sorted(map(mc, c['nbrs'])), sorted(r['nbrs']))
        if sorted(pair(map(mc, k)) for k in c['cons']) != sorted(pair(k) for k in r['cons']):
            diff('column %r connections' % r['name'], sorted(pair(map(mc, k)) for k in c['cons']), sorted(pair(k) for k in r['cons']))
    # --- lists (order matters unless generated names float)
    def same_list(what, m, r):
        if (sorted(m) != sorted(r)) if floating else (m != r):
            diff(what, m[:8], r[:8])
    same_list('nodelist', [mn(n['name']) for n in md['nodes']], [n['name'] for n in rd['nodes']])
    same_list('columnlist', [mc(c['name']) for c in md['cols']], [c['name'] for c in rd['cols']])
    same_list('connectionlist',
              [(pair(map(mc, k['cols'])), None if k['nodes'] is None else pair(map(mn, k['nodes']))) for k in md['cons']],
              [(pair(k['cols']), None if k['nodes'] is None else pair(k['nodes'])) for k in rd['cons']])
    if [l['name'] for l in md['layers']] != [l['name'] for l in rd['layers']]:
        diff('layer names', [l['name'] for l in md['layers']], [l['name'] for l in rd['layers']])
    else:
        for a, b in zip(md['layers'], rd['layers']):
            for f in ('bottom', 'centre', 'top'):
                if not close(a[f], b[f]):
                    diff('layer %r %s' % (a['name'], f), float(a[f]), float(b[f]))
    if [(w['name'], len(w['pos'])) for w in md['wells']] != [(w['name'], len(w['pos'])) for w in rd['wells']]:
        diff('wells', [w['name'] for w in md['wells']], [w['name'] for w in rd['wells']])
    else:
        for a, b in zip(md['wells'], rd['wells']):
            if not all(close(x, y, scale) for p, q in zip(a['pos'], b['pos']) for x, y in zip(p, q)):
                diff('well %r track' % a['name'], a['pos'], b['pos'])
    # --- dictionaries
    for key, f, what in (('dn', mn, 'node'), ('dc', mc, 'column'), ('dl', lambda x: x, 'layer'), ('dw', lambda x: x, 'well')):
        m = sorted((f(k) if what in ('node', 'column') else k, f(v)) for k, v in md[key])
        r = sorted(rd[key])
        if m != r:
            diff('%s dictionary' % what, [x for x in m if x not in r][:4], [x for x in r if x not in m][:4])
    m = sorted((pair(map(mc, k)), pair(map(mc, v))) for k, v in md['dk'])
    r = sorted((pair(k), pair(v)) for k, v in rd['dk'])
    if m != r:
        diff('connection dictionary', [x for x in m if x not in r][:4], [x for x in r if x not in m][:4])
    # --- name lists
    if not floating:
        if md['blocks'] != rd['blocks']:
            diff('block_name_list', md['blocks'][:6], rd['blocks'][:6])
        if md['bcons'] != rd['bcons']:
            diff('block_connection_name_list', md['bcons'][:4], rd['bcons'][:4])
    else:
        allc = dict(old_cmap or {})       # stale name lists may still mention columns deleted since
        allc.update(cmap)

        def split(b):
            return (g.layer_name(b), allc.get(g.column_name(b), g.column_name(b)))
        try:
            m = sorted(split(b) for b in md['blocks'])
            r = sorted((g.layer_name(b), g.column_name(b)) for b in rd['blocks'])
            if m != r:
                diff('block_name_list (as layer/column pairs)', len(m), len(r))
            m = sorted(tuple(sorted(split(b) for b in p)) for p in md['bcons'])
            r = sorted(tuple(sorted((g.layer_name(b), g.column_name(b)) for b in p)) for p in rd['bcons'])
            if m != r:
                diff('block_connection_name_list (as layer/column pairs)', len(m), len(r))
        except Exception as e:
            diff('name lists', 'cannot be split: %s' % e, '')
    # (with floating names the direction of a re-added connection floats too, and a stale list may then coincide
    #  with the recomputed one on one side only)
    if md['fresh'] != fresh_real and not md['fresh'].startswith('exc') and not floating:
        diff('name lists fresh (blocks, connections)', md['fresh'], fresh_real)
    return diffs, nmap, cmap, floating


# ----------------------------------------------------------------------------- the tie

MODELLED = {'add_node', 'delete_node', 'add_column', 'delete_column', 'add_connection', 'delete_connection', 'add_layer',
            'delete_layer', 'add_well', 'delete_well', 'split_column', 'rename_column', 'rename_layer', 'refine',
            'refine_layers', 'decompose_columns', 'triangulate_column', 'reduce', 'snap_columns_to_layers',
            'snap_columns_to_nearest_layers', 'translate', 'rotate', 'copy_layers_from', 'identify_neighbours',
            'setup_names', 'check_fix', 'delete_orphans', 'roundtrip'}


# operations whose result depends on the iteration order of a Python set (order of new list entries, names)
SET_ORDER_OPS = {'refine', 'decompose_columns', 'triangulate_column', 'check_fix', 'reduce', 'delete_orphans'}


class ModelTie:
    """observer for geolib.run_sequence: drives drv_c10 alongside the real geometry"""

    def __init__(self, mg):
        self.mg = mg
        self.drv = None
        self.disagreements = []
        self.steps = 0
        self.loaded = 0
        self.stats = {}
        self.dead = False          # after a disagreement / an unmodelled situation this history is no longer compared
        self.inv_checked = 0
        self.last_inv = None
        self.mdk = None
        self.mnames = {'node': set(), 'column': set()}
        self.unstable = 0
        self.cmap_all = {}         # model column name -> real column name, including columns deleted since
        self.hyp = {}              # GeoInv clause -> [states where it held, states evaluated]
        self.loose = False         # an operation that iterates a Python set has fixed some order the model cannot know
        self.r2m_col, self.r2m_node = {}, {}

    def close(self):
        if self.drv:
            self.drv.close()
            self.drv = None

    # --- loading a real geometry into the model through the model's own add_* operations
    def load(self, g):
        if self.drv:
            self.drv.close()
        self.drv = Driver()
        a = self.drv.ask
        a('new %d %d' % (g.convention, g.atmosphere_type))
        for n in g.nodelist:
            a('node %s %s %s' % (hexname(n.name), rat(n.pos[0]), rat(n.pos[1])))
        for l in g.layerlist:
            a('layer %s %s %s %s' % (hexname(l.name), rat(l.bottom), rat(l.centre), rat(l.top)))
        for c in g.columnlist:
            ctr = '%s %s %d' % (rat(c.centre[0]), rat(c.centre[1]), int(bool(c.centre_specified)))
            r = a('col %s %s %d %s %s' % (hexname(c.name), '-' if c.surface is None else rat(c.surface), c.num_layers, ctr,
                                          ' '.join(hexname(n.name) for n in c.node)))
            if not r.startswith('ok'):
                raise RuntimeError('model refused column %r: %s' % (c.name, r))
        for k in g.connectionlist:
            a('conn %s %s' % (hexname(k.column[0].name), hexname(k.column[1].name)))
        for w in g.welllist:
            a('well %s %s' % (hexname(w.name), ' '.join(rat(v) for p in w.pos for v in p)))
        r = a('setup')
        self.loaded += 1
        self.loose = False
        return r

    def fresh_flags(self, cur):
        nl = cur['namelists']
        if any(k[0] == 'recompute-raises' for k in nl):
            return 'exc'
        return ('0' if any(k[0] in ('blocks', 'block-index') for k in nl) else '1') + \
               ('0' if any(k[0] in ('connections', 'connection-index') for k in nl) else '1')

    @staticmethod
    def surface_ties(cols, layers):
        """a column surface that nearly (not exactly) coincides with a layer elevation: every later comparison of
        the two may go either way in floating point"""
        elev = sorted({l[f] for l in layers for f in ('bottom', 'centre', 'top')})
        for c in cols:
            s = c['surface']
            if s is None:
                continue
            for e in elev:
                d = abs(s - e)
                if d != 0 and d <= Fraction(1, 10 ** 9) * max(1, abs(s), abs(e)):
                    return True
        return False

    def sync(self, g, cur, what, case):
        self.last_inv = cur
        md = parse_dump(self.drv.ask('dump')[3:])
        rd = real_dump(g)
        if self.surface_ties(rd['cols'], rd['layers']) or self.surface_ties(md['cols'], md['layers']) \
                or self.surface_ties(rd['cols'], md['layers']):
            self.unstable += 1
            self.dead = True
            return False
        diffs, nmap, cmap, floating = compare(g, md, rd, self.fresh_flags(cur), self.loose, self.cmap_all)
        self.cmap_all.update(cmap)
        self.r2m_node = {v: k for k, v in nmap.items()}
        self.r2m_col = {v: k for k, v in cmap.items()}
        self.mdk = {k for k, _ in md['dk']}
        self.mnames = {'node': {k for k, _ in md['dn']}, 'column': {k for k, _ in md['dc']}}
        if floating:
            self.stats['floating-names'] = self.stats.get('floating-names', 0) + 1
        if diffs:
            self.disagreements.append(dict(facet='geo_ops', case=case, model='; '.join(diffs), impl='(see model field) after %s' % what))
            self.dead = True
            return False
        self.resync(md, rd, nmap, cmap)
        # the Lean statement of the invariant (Model/GeoInv.lean) against the Python oracle, clause by clause
        mi = dict(x.split('=') for x in self.drv.ask('inv')[3:].split())
        oi = {c: '0' if cur[c] else '1' for c in G.CLAUSES if c != 'namelists'}
        nl = cur['namelists']
        oi['blocks'] = '0' if any(k[0] in ('blocks', 'block-index', 'recompute-raises') for k in nl) else '1'
        oi['connections'] = '0' if any(k[0] in ('connections', 'connection-index', 'recompute-raises') for k in nl) else '1'
        oi['heap'] = '1'
        self.inv_checked += 1
        for c in oi:
            self.hyp.setdefault(c, [0, 0])
            self.hyp[c][1] += 1
            self.hyp[c][0] += mi.get(c) == '1'
        bad = sorted(c for c in oi if mi.get(c) != oi[c] and not (floating and c in ('blocks', 'connections')))
        if bad:
            self.disagreements.append(dict(facet='geo_inv', case=case,
                                           model='GeoInv clauses %s' % {c: mi.get(c) for c in bad},
                                           impl='oracle clauses %s after %s' % ({c: oi[c] for c in bad}, what)))
            self.dead = True
            return False
        return True

    def resync(self, md, rd, nmap, cmap):
        """the states agree (within rounding): overwrite the model's numbers with the real doubles, exactly, so that
        rounding differences cannot accumulate from one operation to the next.  Nothing combinatorial is touched."""
        q = lambda f: '%d/%d' % (f.numerator, f.denominator)
        rnode = {n['name']: n for n in rd['nodes']}
        n_upd = 0
        for n in md['nodes']:
            r = rnode.get(nmap.get(n['name']))
            if r is not None and n['pos'] != r['pos']:
                self.drv.ask('npos %s %s %s' % (hexname(n['name']), q(r['pos'][0]), q(r['pos'][1])))
                n_upd += 1
        rcol = {c['name']: c for c in rd['cols']}
        for c in md['cols']:
            r = rcol.get(cmap.get(c['name']))
            if r is not None and (c['centre'] != r['centre'] or c['area'] != r['area'] or c['surface'] != r['surface']):
                self.drv.ask('cnum %s %s %s %s %s' % (hexname(c['name']), q(r['centre'][0]), q(r['centre'][1]), q(r['area']),
                                                      '-' if r['surface'] is None else q(r['surface'])))
                n_upd += 1
        for a, b in zip(md['layers'], rd['layers']):
            if (a['bottom'], a['centre'], a['top']) != (b['bottom'], b['centre'], b['top']):
                self.drv.ask('lnum %s %s %s %s' % (hexname(a['name']), q(b['bottom']), q(b['centre']), q(b['top'])))
                n_upd += 1
        for a, b in zip(md['wells'], rd['wells']):
            if a['pos'] != b['pos']:
                self.drv.ask('wpos %s %s' % (hexname(a['name']), ' '.join(q(v) for p in b['pos'] for v in p)))
                n_upd += 1
        if n_upd:
            self.stats['resynced-numbers'] = self.stats.get('resynced-numbers', 0) + n_upd

    def start(self, g, inv, case):
        """call once with the start geometry"""
        if not G.consistent(inv):
            self.dead = True
            return
        r = self.load(g)
        if not r.startswith('ok'):
            self.disagreements.append(dict(facet='geo_ops', case=case, model='setup: ' + r, impl='ok'))
            self.dead = True
            return
        self.sync(g, inv, 'loading the start geometry', case)

    def mcol(self, c):
        return hexname(self.r2m_col.get(c.name, c.name))

    def mnode(self, n):
        return hexname(self.r2m_node.get(n.name, n.name))

    def before(self, step, op, g):
        if self.dead or self.drv is None:
            return None
        name, a = op[0], (op[1] if len(op) > 1 else {})
        if name in G.NEEDS_VALID_MESH and self.last_inv is not None and \
                (not G.mesh_valid(self.last_inv) or not G.consistent(self.last_inv)):
            # on an invalid mesh the boundary walk of refine (and what follows) depends on set iteration order
            self.dead = True
            self.stats['skipped:invalid-mesh'] = self.stats.get('skipped:invalid-mesh', 0) + 1
            return None
        if name not in MODELLED:
            self.dead = True
            self.stats['unmodelled:' + name] = self.stats.get('unmodelled:' + name, 0) + 1
            return None
        fc = lambda l: G.find_col(g, l)

        def diverged(kind, new):
            # after a renaming of generated names a deleted object's name is free on one side only: a new name
            # chosen for the real geometry may be taken in the model (or the reverse).  Not comparable.
            if (new in self.mnames[kind]) != (new in getattr(g, kind)):
                self.dead = True
                self.stats['name-divergence'] = self.stats.get('name-divergence', 0) + 1
                return True
            return False
        try:
            if name == 'add_node' and diverged('node', a['name']):
                return None
            if name == 'add_column' and diverged('column', a['name']):
                return None
            if name == 'rename_column' and any(diverged('column', n) for n in a['new']):
                return None
            if name == 'add_node':
                return 'node %s %s %s' % (hexname(a['name']), rat(G.unhx(a['pos'][0])), rat(G.unhx(a['pos'][1])))
            if name == 'delete_node':
                return 'delete_node ' + self.mnode(G.find_node(g, a['node'], orphan=True))
            if name == 'add_column':
                nodes = [G.find_node(g, l) for l in a['nodes']]
                surf = None if a.get('surface') is None else G.unhx(a['surface'])
                return 'col %s %s %d - - - %s' % (hexname(a['name']), '-' if surf is None else rat(surf),
                                                G.default_num_layers(g, surf), ' '.join(self.mnode(n) for n in nodes))
            if name == 'delete_column':
                return 'delete_column ' + self.mcol(fc(a['col']))
            if name == 'add_connection':
                return 'conn %s %s' % (self.mcol(fc(a['cols'][0])), self.mcol(fc(a['cols'][1])))
            if name == 'delete_connection':
                c0, c1 = fc(a['cols'][0]), fc(a['cols'][1])
                key = (c0, c1)
                if (c0.name, c1.name) not in g.connection and (c1.name, c0.name) in g.connection:
                    key = (c1, c0)
                a0, a1 = self.r2m_col.get(key[0].name, key[0].name), self.r2m_col.get(key[1].name, key[1].name)
                # with floating names the model may hold this connection the other way round (min name first)
                if self.mdk is not None and (a0, a1) not in self.mdk and (a1, a0) in self.mdk:
                    a0, a1 = a1, a0
                return 'delete_connection %s %s' % (hexname(a0), hexname(a1))
            if name == 'add_layer':
                return 'layer %s %s %s %s' % (hexname(a['name']), rat(G.unhx(a['bottom'])), rat(G.unhx(a['centre'])), rat(G.unhx(a['top'])))
            if name == 'delete_layer':
                return 'delete_layer ' + hexname(a['name'])
            if name == 'add_well':
                return 'well %s %s' % (hexname(a['name']), ' '.join(rat(G.unhx(v)) for p in a['pos'] for v in p))
            if name == 'delete_well':
                return 'delete_well ' + hexname(a['name'])
            if name == 'split_column':
                return 'split_column %s %s' % (self.mcol(fc(a['col'])), self.mnode(G.find_node(g, a['node'], orphan=False)))
            if name == 'rename_column':
                olds = [fc(l) for l in a['cols']]
                news = list(a['new'])
                if not a.get('as_list', True):
                    olds, news = olds[:1], news[:1]
                return 'rename_column %d %s %s' % (len(olds), ' '.join(self.mcol(c) for c in olds), ' '.join(hexname(n) for n in news))
            if name == 'rename_layer':
                return 'rename_layer %s %s' % (hexname(a['old']), hexname(a['new']))
            if name == 'refine':
                cols = [fc(l) for l in a.get('cols', [])]
                edge = [fc(l) for l in a.get('edge', [])]
                b = a.get('bisect', False)
                if not b:
                    # refine() walks the outer boundary; where the boundary touches itself (a node with more than two
                    # boundary sides, e.g. after deleting a column) the walk takes whichever column the node's column
                    # *set* yields first: not reproducible, not compared
                    cnt = {}
                    for c in g.columnlist:
                        k = len(c.node)
                        for i in range(k):
                            e = frozenset((id(c.node[i]), id(c.node[(i + 1) % k])))
                            cnt[e] = cnt.get(e, 0) + 1
                    deg = {}
                    for e, n in cnt.items():
                        if n == 1:
                            for x in e:
                                deg[x] = deg.get(x, 0) + 1
                    if any(v > 2 for v in deg.values()):
                        self.dead = True
                        self.stats['skipped:pinched-boundary'] = self.stats.get('skipped:pinched-boundary', 0) + 1
                        return None
                mode = 'n' if not b else ('t' if b is True else b)
                return 'refine %s %d %s %d %s' % (mode, len(cols), ' '.join(self.mcol(c) for c in cols),
                                                  len(edge), ' '.join(self.mcol(c) for c in edge))
            if name == 'refine_layers':
                return 'refine_layers %d %s' % (int(a.get('factor', 2)), ' '.join(hexname(l) for l in a.get('layers', [])))
            if name == 'decompose_columns':
                return 'decompose_columns ' + ' '.join(self.mcol(fc(l)) for l in a.get('cols', []))
            if name == 'triangulate_column':
                return 'triangulate_column ' + self.mcol(fc(a['col']))
            if name == 'reduce':
                return 'reduce ' + ' '.join(self.mcol(fc(l)) for l in a['cols'])
            if name == 'snap_columns_to_layers':
                mt = G.unhx(a['min_thickness'])
                sel = [fc(l) for l in a.get('cols', [])] or list(g.columnlist)
                exact_layers = all(float(l.bottom) * 1048576 == int(float(l.bottom) * 1048576) for l in g.layerlist)
                for c in sel:
                    try:
                        d = (c.surface - g.column_surface_layer(c).bottom) - mt
                    except Exception:
                        continue
                    if abs(d) <= 1e-9 * max(1.0, abs(mt)) and not (d == 0 and exact_layers):
                        # `surface - bottom < min_thickness` decided on a rounding error
                        self.unstable += 1
                        self.dead = True
                        return None
                return 'snap_columns_to_layers %s %s' % (rat(mt), ' '.join(self.mcol(fc(l)) for l in a.get('cols', [])))
            if name == 'snap_columns_to_nearest_layers':
                return 'snap_columns_to_nearest_layers ' + ' '.join(self.mcol(fc(l)) for l in a.get('cols', []))
            if name == 'translate':
                s = [G.unhx(v) for v in a['shift']]
                return 'translate %s %s %s %d' % (rat(s[0]), rat(s[1]), rat(s[2]), int(bool(a.get('wells', False))))
            if name == 'rotate':
                ang = math.radians(G.unhx(a['angle']))
                ctr = a.get('centre')
                return 'rotate %s %s %s %d' % (rat(math.cos(ang)), rat(math.sin(ang)),
                                               '- -' if ctr is None else '%s %s' % (rat(G.unhx(ctr[0])), rat(G.unhx(ctr[1]))),
                                               int(bool(a.get('wells', False))))
            if name == 'copy_layers_from':
                with G.quiet():
                    other = self.mg.mulgrid().rectangular([1.], [1.], [G.unhx(v) for v in a['dz']], convention=g.convention,
                                                          atmos_type=g.atmosphere_type, origin=[0., 0., G.unhx(a['top'])])
                return 'copy_layers_from ' + ' '.join('%s %s %s %s' % (hexname(l.name), rat(l.bottom), rat(l.centre), rat(l.top))
                                                      for l in other.layerlist)
            if name == 'identify_neighbours':
                return 'identify_neighbours'
            if name == 'setup_names':
                return 'setup'
            if name == 'check_fix':
                return 'check_fix'
            if name == 'delete_orphans':
                return 'delete_orphans'
            if name == 'roundtrip':
                return 'RELOAD'
        except G.Unresolved:
            self.dead = True
        return None

    def after(self, step, op, g, exc, cmd, prev, cur, info=None):
        if self.dead or cmd is None:
            return
        name = op[0]
        case = {'step': step, 'op': op}
        self.steps += 1
        self.stats['op:' + name] = self.stats.get('op:' + name, 0) + 1
        if cmd == 'RELOAD':
            if exc is None and G.consistent(cur):
                self.load(g)
                self.sync(g, cur, 'reloading after a file round trip', case)
            else:
                self.dead = True
            return
        # decisions taken on (nearly) equal floating-point numbers are not comparable: discard, never report
        w = cmd.split()
        probe = None
        if name == 'refine':
            k = int(w[2])
            probe = 'unstable refine %s %s' % (w[1], ' '.join(w[3:3 + k]))
        elif name == 'decompose_columns':
            probe = 'unstable decompose ' + ' '.join(w[1:])
        elif name == 'triangulate_column':
            probe = None
        if probe is not None and self.drv.ask(probe) == 'ok 1':
            self.unstable += 1
            self.dead = True
            return
        r = self.drv.ask(cmd)
        mexc = r[4:] if r.startswith('exc ') else None
        if r.startswith('bad'):
            raise RuntimeError('drv_c10 did not understand %r' % cmd[:200])
        if mexc != exc:
            self.disagreements.append(dict(facet='geo_ops', case=case, model='exception %s' % mexc, impl='exception %s' % exc))
            self.dead = True
            return
        if exc is not None:
            self.dead = True       # the real object is half-modified; the history ends here
            return
        if name in SET_ORDER_OPS:
            self.loose = True
        self.sync(g, cur, name, case)


# ----------------------------------------------------------------------------- is the real code itself reproducible here?

def real_outcome(mg, recipe, ops, step, tmpdir):
    """the real geometry after ops[:step+1] from a fresh build (fresh objects => fresh set iteration orders)"""
    g = G.build(mg, recipe)
    exc = None
    for op in ops[:step + 1]:
        g, exc = G.apply_op(mg, g, op, tmpdir)
        if exc is not None:
            break
    return g, exc


def order_dependent(mg, recipe, ops, step, tmpdir, runs=3):
    """Does the real code's own result at this step vary from run to run (set iteration order)?  Then a
    model/implementation difference there says nothing: the case is discarded, not reported."""
    base = None
    for _ in range(runs + 1):
        try:
            g, exc = real_outcome(mg, recipe, ops, step, tmpdir)
        except G.Unresolved:
            return True
        inv = G.geoinv(g)
        rd = real_dump(g)
        rd['fresh'] = ModelTie.fresh_flags(None, inv)
        if base is None:
            base = (g, exc, rd)
            continue
        if exc != base[1]:
            return True
        diffs, _, _, _ = compare(g, base[2], rd, rd['fresh'], loose=True)
        if diffs:
            return True
    return False
