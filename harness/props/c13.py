"""C13 — initial-conditions file write/read round trip preserves every block's state.

model      lean/PyTough/Model/Incon.lean (t2incon.read / write / add_incon, t2blockincon, padstring) over
           Model/Fixed.lean (records) and Model/Names.lean (fix/unfix/valid_blockname); layouts from Gen/Specs.lean
theorems   lean/PyTough/Props/C13.lean
tie        translators specs.py (t2incon table) and conventions.py (valid_blockname classes); correspondence facets
           `incon_write` (bytes of write), `incon_read` (canonical dump of read, both on generated files, on
           hand-made/foreign-looking files and on the 7 shipped files), `incon_rewrite` (bytes of the second generation)
oracle     on the real code only: write -> t2incon(file, num_variables) -> compare block by block with values
           recomputed by Python's own '%' formatting (13 / 9 decimals, or the largest smaller precision that fits
           the columns), names, order, nseq/nadd, permeabilities, flavour, timing x reset; write again -> same bytes
"""
import math, struct, json, contextlib, io, os, string, itertools
import core
from core import Result, hexs

ID = 'C13'
MODULE = 'PyTough.Props.C13'
TARGETS = ['PyTough.Props.C13', 'drv_c13']
THEOREMS = ['Props.C13.' + t for t in [
    'layout_ok', 'timing_ok', 'timing_toughreact_ok', 'incon_roundtrip_partial', 'excluded_conv3', 'excluded_toughreact_bare', 'blocks_in_order', 'flavour_preserved',
    'timing_iff_not_reset', 'variables_to_13_decimals', 'porosity_to_9_decimals', 'integers_exact', 'num_variables_needed',
    'name_written_then_read', 'name_read_then_written', 'fixed_names_have_no_blank',
    'rewrite_real_stable_partial', 'fmtE_reprint_stable', 'excluded_reduced_precision_carry', 'excluded_header_double_rounding',
    'header_ok', 'incon_write_fixpoint_partial',
    'real_field_shapes', 'variable_full_precision_iff', 'field15_full_precision_iff', 'fits20_13_of_magnitude', 'fits15_9_of_magnitude',
    'no_precision_lost_iff', 'incon_write_fixpoint_values_partial', 'incon_write_fixpoint_untimed_partial',
    'header_types', 'written_lines_clean', 'read_any_line_ends_partial', 'write_fixpoint_any_line_ends_partial',
    'canonical_name_has_5', 'blockWF_of_canonical', 'excluded_plus_name']]
LEVEL_TEXT = ('Proof: 37 Lean theorems (no sorry) about the executable model of t2incon.read/write. Core: incon_roundtrip_partial - for EVERY '
              'well-formed initial-conditions object (any number of blocks with distinct canonical valid names, n >= 1 real variables per block '
              'with num_variables = n or n <= 4, porosity / nseq-nadd / permeability triples present or absent per block, TOUGH2 or TOUGHREACT, '
              'timing present or absent, reset on or off, either conversion dictionary) whose write succeeds, a fresh read of the written lines '
              'returns exactly the same blocks in the same order with every value replaced by the reading of its own written text, the same '
              'flavour, and the timing iff written; with the C02 field theorems this gives variables to 13 decimals (or the reduced precision '
              'that fits), porosity/permeability to 9, integers exactly. Name quirk proved in both directions for canonical / file-form names. '
              'layout_ok/timing_ok: decide over the t2incon table regenerated from /repo. PARTIAL: (1) incon_roundtrip_partial excludes convention-3 / '
              'invalid names and TOUGHREACT without permeabilities (both known findings, with machine-checked witnesses excluded_*); (2) "writing '
              'it again reproduces the file" is proved for the whole file as incon_write_fixpoint_partial under NoPrecisionLost (no value needed '
              'the width guard, header time stable), values handed back as exact decimals (A-float); the two excluded classes are witnessed '
              '(excluded_reduced_precision_carry, excluded_header_double_rounding) and are known findings. '
              'NoPrecisionLost is characterised on the VALUES: real_field_shapes (decide over the table: value fields 20.13e, all other real fields 15.9e); '
              'variable_full_precision_iff - a variable keeps its 13 decimals iff it is >= 0 with a printed exponent of <= 3 digits or < 0 with a 2-digit one; '
              'field15_full_precision_iff - porosity/permeability/tstart/sumtim keep 9 decimals iff >= 0 with a 2-digit printed exponent; '
              'fits20_13_of_magnitude / fits15_9_of_magnitude - sufficient pure magnitude bounds (0 or 1e-99 <= |r| < 1e99; for r >= 0 in 20.13e: 1e-999 <= r < 1e999, i.e. every non-negative double); '
              'no_precision_lost_iff - NoPrecisionLost <-> ValuesFit (those classes for every written real) and HeaderStable; '
              'incon_write_fixpoint_values_partial - the fixpoint with ValuesFit + HeaderStable instead of a hypothesis on the written text; '
              'incon_write_fixpoint_untimed_partial - without timing or with reset only ValuesFit remains. HeaderStable (12.6e header time printed alike for the in-memory and the re-read sumtim) is still an explicit hypothesis, not characterised on the value. '
              'written_lines_clean - every line write emits for a well-formed object is text without LF/CR followed by one LF (numbers print as digits/sign/./e/blanks; '
              'names accepted by valid_blockname consist of characters of the generated tables, decide: none is a line end; header_types: decide over the table); '
              'read_any_line_ends_partial - hence the text of the written file splits (splitLines, universal newlines) into exactly the written lines, also after replacing every LF '
              'by CRLF or by CR, and read returns the same object for all three texts (partial only through InconWF); write_fixpoint_any_line_ends_partial - the second generation '
              'from the CRLF text is the original lines. Well-formedness: canonical_name_has_5 / blockWF_of_canonical - the 5-character hypothesis follows from Canonical (BlockWF without it); '
              'excluded_plus_name - the no-+++ hypothesis is NOT redundant: the valid canonical name "+++ 1" is written but ends the block loop on read (model witness; same on the real code, not yet replayed by the harness). NOT proved: that splitLines is what Python text mode does (tied by the correspondence); HeaderStable as a value class; '
              'that write succeeds (hypothesis of all theorems: an integer wider than its 5d/6d/3d field raises) is not derived from bounds on the values.')
LEVEL_NOTE = ('Tie: Gen/Specs.lean + Gen/Conventions.lean regenerated every run; compiled model vs real write (bytes), read (canonical dump, incl. '
              'hand-made simulator-style files with CRLF/D exponents/short lines and the 7 shipped files) and second-generation write (bytes, '
              'through an exact model of float() rounding validated against CPython). Trusted: Lean kernel, the models, A-float for the '
              'theorems (they carry exact decimals), harness and oracle. The model works on the list of lines; the split of the text into '
              'lines (universal newlines) is modelled in splitLines (tied by the correspondence) and proved to invert write for LF, CRLF and CR line ends.')
TECHNIQUE = 'Lean 4 proof over an executable model of t2incon.read/write + translators + differential correspondence on files'
ASSUMPTIONS = ['A-float: decimal -> double by CPython float() is correctly rounded; a decimal of <= 15 significant digits survives decimal->double->decimal',
               'ASCII text only', 'the timing dictionary carries all five keys (as read() creates it)']
TRUSTED_EXTRA = ['harness/translate/specs.py, conventions.py (tables dumped from the imported modules / AST of the current tree)']

SHIPPED = [('incon/AUTOUGH2/1/case1.incon', None, True), ('incon/AUTOUGH2/2/case2.incon', None, True),
           ('incon/AUTOUGH2/3/case3.incon', None, False), ('incon/TOUGH2/1/case1.incon', None, False),
           ('incon/TOUGH2/2/INCON', 6, False), ('incon/TOUGH2/3/test.incon', None, False),
           ('incon/TOUGHREACT/1/SAVE_1', None, False)]       # (path, num_variables, big)


def translate(ctx):
    from translate import specs, conventions
    specs.translate(ctx)
    conventions.translate(core.REPO)


def bits(x):
    return struct.pack('>d', x).hex()


# ------------------------------------------------------------------ tokens

def val_token(v):
    if v is None: return 'n'
    if isinstance(v, bool): raise TypeError
    if isinstance(v, int): return 'i%d' % v
    if isinstance(v, float):
        v = float(v)
        if math.isnan(v): return 'nan'
        if math.isinf(v): return 'inf1' if v < 0 else 'inf0'
        if v == 0 and math.copysign(1, v) < 0: return 'z'
        n, d = v.as_integer_ratio()
        return 'r%d/%d' % (n, d)
    if isinstance(v, str): return 's' + hexs(v)
    raise TypeError(type(v))


def canon(v):
    if v is None: return 'n'
    if isinstance(v, bool): return '?bool'
    if isinstance(v, int): return 'i%d' % v
    if isinstance(v, float):
        v = float(v)
        return 'nan' if math.isnan(v) else 'f' + bits(v)
    if isinstance(v, str): return 's' + hexs(v)
    try:
        import numpy as np
        if isinstance(v, np.integer): return 'i%d' % int(v)
    except Exception:
        pass
    return '?' + repr(v)


def canon_model_tok(t):
    if t in ('n', 'nan'): return t
    if t.startswith('inf'): return 'f' + bits(-math.inf if t[3] == '1' else math.inf)
    if t[0] in 'is': return t
    if t[0] == 'f':
        neg, m, e = t[1:].split(',')
        return 'f' + bits(float('%s%se%s' % ('-' if neg == '1' else '', m, e)))
    return '?' + t


def incon_tokens(case):
    toks = ['s' + hexs(case['sim'])]
    if case['timing'] is None: toks.append('n')
    else: toks += ['t'] + [val_token(x) for x in case['timing']]
    toks.append(str(len(case['blocks'])))
    for name, nseq, nadd, por, perm, vs in case['blocks']:
        toks += ['s' + hexs(name), val_token(nseq), val_token(nadd), val_token(por)]
        toks += ['n'] if perm is None else ['p'] + [val_token(k) for k in perm]
        toks.append(str(len(vs)))
        toks += [val_token(x) for x in vs]
    return toks


def parse_model_dump(reply):
    """'ok s<sim> (n | t a b c d e) <nb> {s<name> nseq nadd por (n | p k1 k2 k3) nv vals…}' -> dump dict"""
    w = reply.split()
    if w[0] == 'exc': return 'exc ' + w[1]
    if w[0] != 'ok': return 'bad ' + reply[:80]
    i = 1
    sim = w[i]; i += 1
    if w[i] == 'n': timing = None; i += 1
    else:
        timing = [canon_model_tok(t) for t in w[i + 1:i + 6]]; i += 6
    nb = int(w[i]); i += 1
    blocks = []
    for _ in range(nb):
        name, nseq, nadd, por = w[i], canon_model_tok(w[i + 1]), canon_model_tok(w[i + 2]), canon_model_tok(w[i + 3]); i += 4
        if w[i] == 'n': perm = None; i += 1
        else:
            perm = [canon_model_tok(t) for t in w[i + 1:i + 4]]; i += 4
        nv = int(w[i]); i += 1
        vs = [canon_model_tok(t) for t in w[i:i + nv]]; i += nv
        blocks.append([name, nseq, nadd, por, perm, vs])
    return {'sim': sim, 'timing': timing, 'blocks': blocks}


def dump_real(inc):
    t = inc.timing
    timing = None if t is None else [canon(t.get(k)) for k in ('kcyc', 'iter', 'nm', 'tstart', 'sumtim')]
    blocks = []
    for b in inc._blocklist:
        perm = None if b.permeability is None else [canon(k) for k in list(b.permeability)]
        blocks.append(['s' + hexs(b.block), canon(b.nseq), canon(b.nadd), canon(b.porosity), perm, [canon(x) for x in b.variable]])
    return {'sim': 's' + hexs(inc.simulator), 'timing': timing, 'blocks': blocks}


# ------------------------------------------------------------------ the real code

def build(case):
    import numpy as np
    import t2incons
    inc = t2incons.t2incon()
    inc.simulator = case['sim']
    for name, nseq, nadd, por, perm, vs in case['blocks']:
        inc.add_incon(t2incons.t2blockincon(list(vs), name, por, None if perm is None else np.array(perm), nseq, nadd))
    if case['timing'] is not None:
        inc.timing = dict(zip(('kcyc', 'iter', 'nm', 'tstart', 'sumtim'), case['timing']))
    return inc


class Hang(BaseException):
    """the real read() did not return within the time limit (its value loop spins at end of file when
    num_variables exceeds what the file holds)"""


_fired = [False]


def _on_alarm(signum, frame):
    _fired[0] = True
    raise Hang()


def real_read(path, nv, check, sim0=None, limit=0.5):
    """the real read under a timer.  fortran_float's bare `except:` can swallow the timer's exception (and then
    returns nan, which even lets the spinning loop finish), so a fired timer counts as a hang whatever came back."""
    import t2incons, signal
    _fired[0] = False
    old = signal.signal(signal.SIGALRM, _on_alarm)
    signal.setitimer(signal.ITIMER_REAL, limit, 0.02)
    try:
        try:
            with contextlib.redirect_stdout(io.StringIO()):
                if sim0 is None:
                    inc = t2incons.t2incon(path, num_variables=nv, check_blocknames=check)
                else:
                    inc = t2incons.t2incon()
                    inc.simulator = sim0
                    inc.read(path, nv, check)
        finally:
            signal.setitimer(signal.ITIMER_REAL, 0, 0)
    except Hang:
        raise RuntimeError('HANG')
    except Exception:
        if _fired[0]:
            raise RuntimeError('HANG')
        raise
    finally:
        signal.setitimer(signal.ITIMER_REAL, 0, 0)
        signal.signal(signal.SIGALRM, old)
    if _fired[0]:
        raise RuntimeError('HANG')
    return inc


def read_text(path):
    with open(path, 'rb') as f:
        return f.read().decode('latin-1')


def run_real(case, tmp, tag):
    """write, read back, write again; returns dict(text1=, read=, inc2=, text2=) with 'exc X' strings on exceptions"""
    out = {}
    p1, p2 = os.path.join(tmp, 'a_%s.incon' % tag), os.path.join(tmp, 'b_%s.incon' % tag)
    inc = build(case)
    try:
        with contextlib.redirect_stdout(io.StringIO()):
            inc.write(p1, case['reset'])
        out['text1'] = read_text(p1)
    except Exception as e:
        out['text1'] = 'exc ' + type(e).__name__
        return out
    try:
        inc2 = real_read(p1, case['nv_arg'], case['check'])
        out['read'] = dump_real(inc2)
        out['inc2'] = inc2
    except Exception as e:
        out['read'] = 'exc HANG' if str(e) == 'HANG' else 'exc ' + type(e).__name__
        return out
    try:
        with contextlib.redirect_stdout(io.StringIO()):
            inc2.write(p2, case['reset'])
        out['text2'] = read_text(p2)
    except Exception as e:
        out['text2'] = 'exc ' + type(e).__name__
    return out


# ------------------------------------------------------------------ generators

def fit_float(v, w, p):
    """the double the property expects back for v written in a 'w.pe' field: printed at p decimals, or at the
    largest smaller precision that fits the columns (the C02 guard); None if nothing fits"""
    for q in range(p, -1, -1):
        s = ('%%%d.%de' % (w, q)) % v
        if len(s) <= w:
            return float(s), q
    return None, None


MANT = ['1', '1.5', '9.9999999999999', '9.99999999999995', '1.2345678901234567', '5.0000000000000495', '2.5',
        '9.999999995', '1.23456789015', '7.000000000']


def gen_float(rng, wide=True):
    m = rng.choice(MANT) if rng.random() < 0.6 else '%d.%s' % (rng.randint(1, 9), ''.join(rng.choice('0123456789') for _ in range(rng.choice([1, 3, 9, 13, 14, 16]))))
    if wide:
        e = rng.choice([0, 1, -1, 5, -5, 9, 10, -9, -10, 16, 99, 100, 101, -99, -100, -101, 120, -120, rng.randint(-120, 120)])
    else:
        e = rng.choice([0, 1, -1, 3, 5, -3, -7, -12, -15])
    sg = '-' if rng.random() < 0.3 else ''
    return float('%s%se%d' % (sg, m, e))


def convention_names(rng, conv, n, wf=True):
    """block names produced by the real mulgrid naming functions for one convention (wf: numbers right-justified,
    as every generator of the library does by default; left-justified numbers only in the correspondence stream)"""
    import mulgrids
    with contextlib.redirect_stdout(io.StringIO()):
        geo = mulgrids.mulgrid(convention=conv, atmos_type=rng.choice([0, 1, 2]))
    upper = rng.random() < 0.3
    chars = string.ascii_uppercase if upper else string.ascii_lowercase
    just = rng.choice([str.rjust, str.rjust, str.ljust])
    layjust = str.rjust if (wf and conv == 0) else just
    spaces = rng.random() < 0.8
    surf = [' 0', 'atm', 'at', ' 0'][conv]
    col_max = [18278, 99, 999, 18278][conv]
    lay_max = [99, 18278, 702, 702][conv]
    cols = {1, 2, 26, 27, min(col_max, 702), min(col_max, 703), col_max, min(col_max, 100), min(col_max, 10)}
    cols |= {rng.randint(1, col_max) for _ in range(n)}
    lays = {1, 2, 9, 10, min(lay_max, 26), min(lay_max, 27), lay_max}
    lays |= {rng.randint(1, lay_max) for _ in range(n)}
    colnames = []
    for c in sorted(cols):
        try: colnames.append(geo.column_name_from_number(c, just, chars, spaces))
        except Exception: pass
    laynames = [surf]
    for l in sorted(lays):
        try: laynames.append(geo.layer_name_from_number(l, layjust, chars, spaces))
        except Exception: pass
    if geo.atmosphere_type == 0:
        colnames.append(geo.atmosphere_column_name)
    names = []
    pairs = [(l, c) for l in laynames for c in colnames]
    rng.shuffle(pairs)
    for l, c in pairs:
        nm = geo.block_name(l, c)
        if len(nm) == 5 and nm not in names:
            names.append(nm)
        if len(names) >= n:
            break
    return names


EDGE_NAMES = ['abc07', 'ab1 7', 'ab107', '+++ 1', 'a+- 3', '  1 2', '123 4', '12345', 'AB100', 'a  00', 'ab 00', 'xy 1 ', '     ',
              'ab', 'abcdef', 'ab\t 1', 'a.b 9', '~!@ 5', 'abc 0', '0 0 0', 'abc10', 'ab010', 'a1105']


def gen_case(rng, kind):
    """kind: 'wf' (inside the property's quantifier, fed to the oracle) or 'any' (correspondence only)"""
    wf = kind == 'wf'
    conv = rng.choice([0, 1, 2, 3])
    nb = rng.choice([0, 1, 1, 2, 3, 5, 8, 13])
    names = convention_names(rng, conv, nb, wf) if nb else []
    if not wf and rng.random() < 0.5:
        for k in range(len(names)):
            if rng.random() < 0.3: names[k] = rng.choice(EDGE_NAMES)
        if rng.random() < 0.2 and names: names.append(names[0])            # duplicate: add_incon replaces
    nvars = rng.choice([1, 2, 3, 4, 4, 5, 6, 7, 8, 9, 11, 12])
    tr = rng.random() < 0.35
    perm_mode = rng.choice(['all', 'all', 'some', 'some', 'none']) if tr else 'none'
    if not wf and rng.random() < 0.15:
        tr, perm_mode = rng.choice([(True, 'none'), (False, 'all'), (False, 'some')])   # flavour and permeabilities inconsistent
    seq_mode = rng.choice(['none', 'none', 'all', 'some'])
    por_mode = rng.choice(['all', 'all', 'none', 'some'])
    blocks = []
    for name in names:
        nv = nvars if wf or rng.random() < 0.9 else rng.choice([0, 1, 4, 5, 13])
        vs = [gen_float(rng) for _ in range(nv)]
        if not wf and rng.random() < 0.05 and vs:
            vs[rng.randrange(len(vs))] = rng.choice([math.inf, -math.inf, math.nan, None, 3, -0.0])
        por = None
        if por_mode == 'all' or (por_mode == 'some' and rng.random() < 0.5):
            por = rng.choice([0.1, 0.25, 1.0, 0.0, 0.123456789012, 1e-100, gen_float(rng, False), -0.05])
        perm = None
        if perm_mode == 'all' or (perm_mode == 'some' and rng.random() < 0.5):
            perm = [rng.choice([1e-15, 2.5e-13, 6.51e-14, 0.0, 1.23456789012e-16, 1e-100, 1.0]) for _ in range(3)]
        if perm is not None and not wf and rng.random() < 0.1:
            perm[rng.randrange(3)] = None
        nseq = nadd = None
        if seq_mode == 'all' or (seq_mode == 'some' and rng.random() < 0.5):
            nseq, nadd = rng.choice([0, 1, 3, 99999, 12]), rng.choice([0, 1, 2, 99999, 7])
            if not wf and rng.random() < 0.1:
                nseq = rng.choice([100000, -1, -10000, None])
        blocks.append([name, nseq, nadd, por, perm, vs])
    if perm_mode == 'some' and blocks and all(b[4] is None for b in blocks):
        blocks[0][4] = [1e-15, 1e-15, 2e-15]
    timing = None
    if rng.random() < 0.5:
        big = 999999 if tr else 99999
        timing = [rng.choice([0, 1, 30, big, 11100]), rng.choice([0, 145, big, 40102 if tr else 4010]), rng.choice([1, 34, 999 if tr else 99999]),
                  rng.choice([0.0, 1.5e3, gen_float(rng, False)]), rng.choice([0.106496e17, 52710.494, 1.23456450000000001, 1.2345644999, 0.0, abs(gen_float(rng))])]
        if not wf and rng.random() < 0.15:
            timing[rng.randrange(5)] = rng.choice([None, 1000000, -1.5e-100])
    reset = rng.random() < 0.4
    nv_arg = nvars if (nvars > 4 or rng.random() < 0.5) else None
    if not wf and rng.random() < 0.1:
        nv_arg = rng.choice([None, 1, 4])
    check = True if wf else rng.random() < 0.7
    return {'sim': 'TOUGHREACT' if tr else 'TOUGH2', 'timing': timing, 'reset': reset, 'nv_arg': nv_arg, 'check': check,
            'blocks': blocks, 'conv': conv, 'kind': kind}


# ------------------------------------------------------------------ oracle

def guard_text(v, w, p):
    """what write_values_to_string puts in a 'w.pe' field for v (full precision, else the largest smaller one that fits)"""
    for q in range(p, -1, -1):
        s = ('%%%d.%de' % (w, q)) % v
        if len(s) <= w:
            return s
    return None


def exp_digits(text):
    t = text.strip().lower()
    return len(t.split('e')[1].lstrip('+-')) if 'e' in t else 0


def classify_rewrite(case, t1, t2):
    """keys for a second generation that differs from the first.  Two classes are understood precisely (and only
    they get their own key); any other difference is 'rewrite-differs'."""
    l1, l2 = t1.split('\n'), t2.split('\n')
    if len(l1) != len(l2):
        return [('rewrite-differs', 'second write has %d lines, the first %d' % (len(l2), len(l1)))]
    diffs = [k for k, (a, b) in enumerate(zip(l1, l2)) if a != b]
    out, other = [], []
    pool = [x for b in case['blocks'] for x in ([b[3]] + list(b[4] or []) + list(b[5])) if isinstance(x, float)]
    if case['timing'] is not None:
        pool += [x for x in case['timing'][3:] if isinstance(x, float)]
    body = []
    for k in diffs:
        a, b = l1[k], l2[k]
        if k == 0:
            # long header: the time is printed at 6 decimals from the in-memory value, next time from the 9-decimal one
            st = case['timing'][4] if (case['timing'] is not None and not case['reset']) else None
            ok = False
            if isinstance(st, float) and len(a) == len(b) and a[:-12] == b[:-12]:
                first = guard_text(st, 12, 6)
                nine = guard_text(st, 15, 9)
                second = guard_text(float(nine), 12, 6) if nine is not None else None
                ok = first is not None and a[-12:] == first and b[-12:] == second and first != second
            (out if ok else other).append(('rewrite-differs-header', 'header time printed at 6 decimals differs between generations (double rounding through the 9-decimal timing record): %r vs %r' % (a, b)))
            continue
        if len(a) != len(b):
            other.append(('rewrite-differs', 'line %d: %r vs %r' % (k + 1, a, b))); continue
        if len(a) % 20 == 0 and 0 < len(a) <= 80:
            cols = [(i, i + 20, 13) for i in range(0, len(a), 20)]
        else:
            cols = [(i, i + 15, 9) for i in range(15, len(a), 15)]
            if a[:15] != b[:15]:
                other.append(('rewrite-differs', 'line %d: %r vs %r' % (k + 1, a, b))); continue
        ok = True
        for i, j, p in cols:
            fa, fb = a[i:j], b[i:j]
            if fa == fb: continue
            w = j - i
            try: xa, xb = float(fa), float(fb)
            except ValueError: ok = False; break
            # same value; second generation at full precision; first one reduced by the width guard for a value whose
            # full-precision text had a longer exponent (the carry shortened it)
            src = [x for x in pool if len(('%%%d.%de' % (w, p)) % x) > w and guard_text(x, w, p) == fa]
            if not (same_float(xa, xb) and fb == ('%%%d.%de' % (w, p)) % xa and src and
                    all(exp_digits(('%%%d.%de' % (w, p)) % x) > exp_digits(fa) for x in src)):
                ok = False; break
        (body if ok else other).append(('rewrite-differs-same-values', 'line %d: same values, precision reduced by the width guard in the first generation only (carry to a shorter exponent): %r vs %r' % (k + 1, a, b)))
    res = []
    if out: res.append(out[0])
    if body: res.append(body[0])
    for key, what in other[:1]:
        res.append(('rewrite-differs', 'second write differs from the first (not one of the two understood classes): ' + what))
    return res

def same_float(a, b):
    return (a == b and math.copysign(1, a) == math.copysign(1, b)) or (math.isnan(a) and math.isnan(b))


def oracle(case, real, res=None):
    """the property statement on the real code for one well-formed case"""
    viol = []
    conv = case.get('conv')
    cj = {k: case[k] for k in ('sim', 'timing', 'reset', 'nv_arg', 'check', 'blocks', 'conv')}

    def v(key, what):
        viol.append(dict(key=key, what=what, case=cj))
    t1 = real.get('text1')
    if isinstance(t1, str) and t1.startswith('exc '):
        v('write-raises:' + t1[4:], 'write() raises %s for initial conditions whose values all fit their columns' % t1[4:])
        return viol
    rd = real.get('read')
    names = [b[0] for b in case['blocks']]
    if isinstance(rd, str):
        bad = [n for n in names if not (n[4:5].isdigit())]
        if bad and conv == 3:
            v('conv3-name-rejected-on-read', 'reading back a file written with convention-3 block names (e.g. %r) raises %s with the default check_blocknames'
              % (bad[0], rd[4:]))
        else:
            v('read-raises:' + rd[4:], 'reading back the written file raises %s' % rd[4:])
        return viol
    inc2 = real['inc2']
    got_names = [b.block for b in inc2._blocklist]
    if got_names != names:
        k = next((i for i, (a, b) in enumerate(zip(got_names, names)) if a != b), min(len(got_names), len(names)))
        v('blocks-differ', 'blocks after write/read are %r..., expected %r... (first difference at %d; %d vs %d blocks)'
          % (got_names[k:k + 2], names[k:k + 2], k, len(got_names), len(names)))
        return viol
    tr = case['sim'] == 'TOUGHREACT'
    for (name, nseq, nadd, por, perm, vs), b in zip(case['blocks'], inc2._blocklist):
        if len(b.variable) != len(vs):
            v('variable-count', 'block %r: %d primary variables written, %d read back (num_variables=%r)' % (name, len(vs), len(b.variable), case['nv_arg']))
            break
        for j, (x, y) in enumerate(zip(vs, b.variable)):
            want, q = fit_float(x, 20, 13)
            if res is not None and q != 13: res.count('reduced-precision-variable')
            if not (isinstance(y, float) and same_float(float(y), want)):
                v('variable-value', 'block %r variable %d: wrote %r, read %r, expected %r (to %d decimals)' % (name, j, x, y, want, q))
                return viol
        if por is None:
            if b.porosity is not None:
                v('porosity', 'block %r: no porosity written but %r read' % (name, b.porosity)); break
        else:
            want, q = fit_float(por, 15, 9)
            if not (isinstance(b.porosity, float) and same_float(float(b.porosity), want)):
                v('porosity', 'block %r: porosity %r read back as %r, expected %r' % (name, por, b.porosity, want)); break
        if perm is None or not tr:
            if b.permeability is not None and perm is None:
                v('permeability', 'block %r: no permeability written but %r read' % (name, b.permeability)); break
        else:
            if b.permeability is None or len(b.permeability) != 3:
                v('permeability', 'block %r: permeability %r lost (read %r)' % (name, perm, b.permeability)); break
            for kx, ky in zip(perm, list(b.permeability)):
                want, q = fit_float(kx, 15, 9)
                if not same_float(float(ky), want):
                    v('permeability', 'block %r: permeability %r read back as %r' % (name, perm, list(b.permeability))); break
        if (b.nseq, b.nadd) != (nseq, nadd):
            v('nseq-nadd', 'block %r: (nseq, nadd) = %r read back as %r' % (name, (nseq, nadd), (b.nseq, b.nadd))); break
    if viol: return viol
    tr_noperm = tr and not any(b[4] is not None for b in case['blocks'])
    if inc2.simulator != case['sim']:
        if tr_noperm and inc2.simulator == 'TOUGH2':
            # the file format carries the flavour only through the permeability columns: flavour (and with it the
            # layout of the timing record and of the next write) is lost; everything else was compared above
            v('toughreact-flavour-lost-without-permeability',
              'simulator TOUGHREACT with no block carrying permeabilities reads back as %r%s' % (inc2.simulator,
              '' if (case['timing'] is None or case['reset']) else '; its timing record %r is then parsed with the TOUGH2 layout: %r' % (case['timing'], inc2.timing)))
            return viol
        v('simulator', 'simulator %r read back as %r' % (case['sim'], inc2.simulator))
    if case['timing'] is None or case['reset']:
        if inc2.timing is not None:
            v('timing', 'timing %r read back although %s' % (inc2.timing, 'reset' if case['reset'] else 'none was set'))
    else:
        t = inc2.timing
        if t is None:
            v('timing', 'timing %r lost' % (case['timing'],))
        else:
            kc, it, nm, ts, st = case['timing']
            ok = (t['kcyc'], t['iter'], t['nm']) == (kc, it, nm)
            for a, key in ((ts, 'tstart'), (st, 'sumtim')):
                want, q = fit_float(a, 15, 9)
                ok = ok and isinstance(t[key], float) and same_float(t[key], want)
            if not ok:
                v('timing', 'timing %r read back as %r' % (case['timing'], t))
    t2 = real.get('text2')
    if t2 != t1:
        if isinstance(t2, str) and t2.startswith('exc '):
            v('rewrite-raises', 'writing the re-read initial conditions raises %s' % t2[4:])
        else:
            for key, what in classify_rewrite(case, t1, t2 or ''):
                v(key, what)
    return viol


# ------------------------------------------------------------------ run

def model_requests(case, real):
    """driver lines for one case + what to compare each reply with"""
    lines, meta = [], []
    lines.append('w %d %s' % (1 if case['reset'] else 0, ' '.join(incon_tokens(case))))
    meta.append(('incon_write', real['text1']))
    t1 = real['text1']
    if not t1.startswith('exc ') or not t1[4:5].isupper():
        nv = 'n' if case['nv_arg'] is None else str(case['nv_arg'])
        ck = '1' if case['check'] else '0'
        lines.append('r f s%s %s %s t%s' % (hexs('TOUGH2'), nv, ck, hexs(t1)))
        rd = real['read']
        meta.append(('incon_read', rd if isinstance(rd, str) else {k: rd[k] for k in ('sim', 'timing', 'blocks')}))
        if not isinstance(rd, str):
            lines.append('rw f s%s %s %s %d t%s' % (hexs('TOUGH2'), nv, ck, 1 if case['reset'] else 0, hexs(t1)))
            meta.append(('incon_rewrite', real.get('text2')))
    return lines, meta


def is_exc(s):
    return isinstance(s, str) and s.startswith('exc ') and s[4:5].isupper() and ' ' not in s[4:] and len(s) < 40


def canon_text_reply(reply):
    if reply.startswith('ok t'):
        return bytes.fromhex(reply[4:]).decode('latin-1')
    if reply == 'exc Exception': return reply
    return reply


def compare(facet, reply, want):
    """returns (model value, equal?)"""
    if facet in ('incon_write', 'incon_rewrite'):
        m = canon_text_reply(reply)
        if is_exc(want) and is_exc(m):
            # OverflowError etc. are 'Exception' in the model's coarser enum
            return m, (m == want or m == 'exc Exception' and want[4:] in ('OverflowError', 'Exception'))
        return m, m == want
    m = parse_model_dump(reply)
    if is_exc(want) and isinstance(m, str):
        if m == 'exc NamingConventionError':          # the model's marker for "this loop does not terminate"
            return 'exc HANG', want == 'exc HANG'
        return m, (m == want or m == 'exc Exception' and want[4:] in ('OverflowError', 'Exception'))
    return m, m == want


def foreign_files(rng, n):
    """hand-made files in the styles simulators write (Fortran E formats, D exponents, missing letter, CRLF,
    short lines, no trailing newline, +++ with and without timing)"""
    out = []
    for _ in range(n):
        nv = rng.choice([1, 2, 3, 4, 5, 6, 8, 9, 12])
        nb = rng.choice([0, 1, 2, 4, 7])
        tr = rng.random() < 0.3
        eol = rng.choice(['\n', '\n', '\r\n'])
        lines = [rng.choice(['INCON', 'INCON -- INITIAL CONDITIONS FOR %4d ELEMENTS AT TIME  0.527105E+05' % nb, ''])]
        for k in range(nb):
            name = rng.choice(['A1 %2d' % (k + 1), 'ab1%2d' % (k + 1), '  a%2d' % (k + 1), 'ATM 0', 'AB%03d' % (k + 1)] + EDGE_NAMES[:8])
            l = name.ljust(5)[:5]
            if rng.random() < 0.3: l += '%5d%5d' % (rng.randint(0, 99), rng.randint(0, 9))
            else: l += ' ' * 10
            if rng.random() < 0.8:
                l += rng.choice(['%15.8E' % rng.random(), ' 0.19999998E+00', '0.100000000E+00', '               '])
                if tr: l += ''.join(rng.choice([' 0.65100000E-13', '%15.8E' % 1e-15, ' 0.1000000-100']) for _ in range(3))
            lines.append(l if rng.random() < 0.8 else l.rstrip())
            vs = []
            for j in range(nv):
                x = gen_float(rng)
                s = rng.choice(['%20.13E' % x, ' %19.12E' % x, ('%20.13E' % x).replace('E', 'D'), '%20.13e' % x])
                if abs(x) != 0 and (abs(x) < 1e-99 or abs(x) >= 1e100) and rng.random() < 0.7:
                    s = ('%21.13E' % x).replace('E', '')[-20:]
                vs.append(s[-20:].rjust(20))
            for j in range(0, nv, 4):
                l = ''.join(vs[j:j + 4])
                lines.append(l if rng.random() < 0.9 else l.rstrip())
        term = rng.choice(['blank', 'blank2', '+++', '+++only', 'eof'])
        if term == 'blank': lines.append('')
        elif term == 'blank2': lines += ['', '']
        elif term == '+++':
            lines.append('+++  ')
            lines.append((' %5d %5d%3d' if tr else '%5d%5d%5d') % (11100, 4010, 1) + ' 0.00000000E+00 0.52710494E+05')
        elif term == '+++only': lines.append('+++')
        text = eol.join(lines) + (eol if rng.random() < 0.85 else '')
        out.append((text, nv if (nv > 4 or rng.random() < 0.5) else None, rng.random() < 0.8))
    return out


def run(ctx, only_oracle=False):
    import importlib
    with contextlib.redirect_stdout(io.StringIO()):
        import mulgrids, fixed_format_file, t2incons
        for m in (fixed_format_file, mulgrids, t2incons):
            importlib.reload(m)
    res = Result()
    res.rule = ('one case = an initial-conditions object (names from the real naming functions of conventions 0-3 / edge names, 0..13 blocks, '
                '1..12 variables from the sign x exponent x mantissa lattice, porosity/permeability/nseq-nadd/timing present or absent, reset on/off, '
                'num_variables given or not), a hand-made simulator-style file, or a shipped file; non-trivial = distinct case with at least one block')
    tmp = str(ctx.tmp)
    fw, fr, frw = res.facet('incon_write'), res.facet('incon_read'), res.facet('incon_rewrite')
    n_wf, n_any, n_foreign = ctx.n(350, 5000), ctx.n(250, 4000), ctx.n(150, 3000)
    lines, meta = [], []
    rng = ctx.rng('incon_rw')
    wf_ok = 0
    for k in range(n_wf + n_any):
        kind = 'wf' if k < n_wf else 'any'
        case = gen_case(rng, kind)
        real = run_real(case, tmp, 'g')
        res.evaluations += 1
        res.count('kind:' + kind)
        res.count('blocks:%d' % len(case['blocks']))
        res.count('conv:%d' % case['conv'])
        res.count('sim:' + case['sim'])
        res.count('timing:%s/reset:%s' % (case['timing'] is not None, case['reset']))
        if case['blocks']:
            res.count('nvars:%d' % len(case['blocks'][0][5]))
            res.distinct.add(json.dumps([case[x] for x in ('sim', 'timing', 'reset', 'nv_arg', 'blocks')], default=repr))
        for key in ('text1', 'read', 'text2'):
            val = real.get(key)
            if is_exc(val): res.count('%s:%s' % (key, val))
        if kind == 'wf':
            viol = oracle(case, real, res)
            res.violations += viol
            if not viol: wf_ok += 1
        if k % 97 == 0:
            res.sample({k2: case[k2] for k2 in ('sim', 'timing', 'reset', 'nv_arg', 'conv')} | {'blocks': case['blocks'][:2], 'first_lines': (real.get('text1') or '')[:200]})
        ls, ms = model_requests(case, real)
        for l, (facet, want) in zip(ls, ms):
            lines.append(l)
            meta.append((facet, want, {'kind': kind, 'case': {k2: case[k2] for k2 in ('sim', 'timing', 'reset', 'nv_arg', 'check', 'blocks')}}))
    res.hyp['WFinc (conventions 0-2 names, equal variable counts >= 1, flavour consistent with permeabilities, values that fit): hypothesis of incon_roundtrip'] = [wf_ok, n_wf]

    # files in the simulators' own styles: read only (+ rewrite)
    rng2 = ctx.rng('incon_foreign')
    for idx, (text, nv, check) in enumerate(foreign_files(rng2, n_foreign)):
        p = os.path.join(tmp, 'f.incon')
        with open(p, 'wb') as f: f.write(text.encode('latin-1'))
        sim0 = rng2.choice([None, None, 'TOUGHREACT'])
        try:
            inc = real_read(p, nv, check, sim0)
            rd = dump_real(inc)
        except Exception as e:
            inc, rd = None, ('exc HANG' if str(e) == 'HANG' else 'exc ' + type(e).__name__)
        res.evaluations += 1
        res.count('kind:foreign')
        if is_exc(rd): res.count('foreign-read:' + rd)
        res.distinct.add(text)
        lines.append('r f s%s %s %d t%s' % (hexs(sim0 or 'TOUGH2'), 'n' if nv is None else str(nv), 1 if check else 0, hexs(text)))
        meta.append(('incon_read', rd, {'kind': 'foreign', 'text': text, 'nv': nv, 'check': check, 'sim0': sim0}))
        if inc is not None:
            reset = rng2.random() < 0.5
            p2 = os.path.join(tmp, 'f2.incon')
            try:
                with contextlib.redirect_stdout(io.StringIO()): inc.write(p2, reset)
                t2 = read_text(p2)
            except Exception as e:
                t2 = 'exc ' + type(e).__name__
            lines.append('rw f s%s %s %d %d t%s' % (hexs(sim0 or 'TOUGH2'), 'n' if nv is None else str(nv), 1 if check else 0, 1 if reset else 0, hexs(text)))
            meta.append(('incon_rewrite', t2, {'kind': 'foreign', 'text': text, 'nv': nv, 'check': check, 'sim0': sim0, 'reset': reset}))

    # the shipped files
    for rel, nv, big in SHIPPED:
        path = str(core.REPO / 'tests' / rel)
        text = read_text(path)
        case = {'shipped': rel, 'nv': nv}
        res.evaluations += 1
        res.count('kind:shipped')
        res.distinct.add('shipped:' + rel)
        reset = False
        p2, p3 = os.path.join(tmp, 's2.incon'), os.path.join(tmp, 's3.incon')
        rd = t2 = None
        step = 'read'
        try:
            inc = real_read(path, nv, True, limit=120)
            rd = dump_real(inc)
            step = 'write'
            with contextlib.redirect_stdout(io.StringIO()): inc.write(p2, reset)
            t2 = read_text(p2)
            step = 'read of the written file'
            inc3 = real_read(p2, nv, True, limit=120)
            d3 = dump_real(inc3)
            step = 'second write'
            with contextlib.redirect_stdout(io.StringIO()): inc3.write(p3, reset)
            t3 = read_text(p3)
            if d3 != rd:
                res.violations.append(dict(key='shipped-roundtrip', what='%s: read -> write -> read gives a different state' % rel, case=case))
            if t3 != t2:
                res.violations.append(dict(key='shipped-rewrite', what='%s: the second written generation differs from the first' % rel, case=case))
        except Exception as e:
            name = 'HANG' if str(e) == 'HANG' else type(e).__name__
            res.violations.append(dict(key='shipped-raises:' + name, what='%s: %s raises %s' % (rel, step, name), case=case))
            if rd is None: rd = 'exc ' + name
            if t2 is None and step != 'read': t2 = 'exc ' + name
        if (not big) or not ctx.quick:
            lines.append('r f s%s %s 1 t%s' % (hexs('TOUGH2'), 'n' if nv is None else str(nv), hexs(text)))
            meta.append(('incon_read', rd, {'kind': 'shipped', 'file': rel}))
            if t2 is not None:
                lines.append('rw f s%s %s 1 0 t%s' % (hexs('TOUGH2'), 'n' if nv is None else str(nv), hexs(text)))
                meta.append(('incon_rewrite', t2, {'kind': 'shipped', 'file': rel}))

    if ctx.model_ok and not only_oracle:
        out = core.run_driver('drv_c13', lines)
        for reply, (facet, want, info) in zip(out, meta):
            fac = res.facet(facet)
            fac['cases'] += 1
            m, same = compare(facet, reply, want)
            if not same:
                fac['disagreements'] += 1
                short = lambda x: (x if isinstance(x, str) else json.dumps(x))[:600]
                if 'text' in info: info = dict(info, text=info['text'][:2000])
                res.disagreements.append(dict(facet=facet, case=info, model=short(m), impl=short(want)))
    res.exhaustive = False
    return res


def search(ctx, seconds, res):
    import time
    found = list(res.violations)
    t0, k = time.time(), 0
    while not found and time.time() - t0 < seconds:
        k += 1
        c2 = core.Ctx(ctx.prop, ctx.tier, ctx.seed + 1000 * k)
        c2.model_ok = False
        try:
            r = run(c2, only_oracle=True)
        finally:
            c2.cleanup()
        found = r.violations
    return found


def replay(ctx, payload):
    c = payload.get('case') or {}
    if 'shipped' in c:
        import t2incons
        path = str(core.REPO / 'tests' / c['shipped'])
        p2, p3 = os.path.join(str(ctx.tmp), 'r2.incon'), os.path.join(str(ctx.tmp), 'r3.incon')
        try:
            inc = real_read(path, c.get('nv'), True, limit=120)
            with contextlib.redirect_stdout(io.StringIO()): inc.write(p2, False)
            inc3 = real_read(p2, c.get('nv'), True, limit=120)
            with contextlib.redirect_stdout(io.StringIO()): inc3.write(p3, False)
            bad = dump_real(inc3) != dump_real(inc) or read_text(p2) != read_text(p3)
            return bad, '%s: read -> write -> read -> write %s' % (c['shipped'], 'differs' if bad else 'is stable')
        except Exception as e:
            return True, '%s: raises %s' % (c['shipped'], 'HANG' if str(e) == 'HANG' else type(e).__name__)
    if 'blocks' not in c:
        return False, 'replay file names what no longer checks: %s' % payload.get('broken')
    case = dict(c)
    case['blocks'] = [[b[0], b[1], b[2], b[3], b[4], list(b[5])] for b in c['blocks']]
    real = run_real(case, str(ctx.tmp), 'r')
    viol = oracle(case, real)
    rd = real.get('read')
    txt = 'write -> %s ; read -> %s' % ((real.get('text1') or '')[:300].replace('\n', '\\n'),
                                        rd if isinstance(rd, str) else '%d blocks, simulator %s, timing %s' % (len(rd['blocks']), real['inc2'].simulator, real['inc2'].timing))
    return bool(viol), txt + ''.join('\n  ' + x['what'] for x in viol)
