"""C01 support: an independent Fortran-style writer of TOUGH2 input records.

Layouts are written down here from the TOUGH2 input formats (A5, I5, E10.4, E20.14, 4E14.7 ...), not taken
from PyTOUGH's tables; reals are printed the way Fortran's E editing does (`0.1234E+05`, no leading digit
before the point, upper-case E, blank for an absent value).  The file is handed to `t2data(filename)`; what
it must read is the value each text denotes.
"""
from decimal import Decimal
from props.c01_objs import norm_name


def A(s, w=5):
    s = '' if s is None else str(s)
    assert len(s) <= w
    return s.ljust(w)


def I(n, w=5):
    if n is None: return ' ' * w
    t = '%d' % n
    assert len(t) <= w
    return t.rjust(w)


def E(x, w=10, d=4):
    """Fortran Ew.d: 0.dddd E+ee"""
    if x is None: return ' ' * w
    if x == 0:
        t = '0.' + '0' * d + 'E+00'
        return t.rjust(w)
    dx = Decimal(repr(float(x)))
    sign = '-' if dx < 0 else ''
    dx = abs(dx)
    e = dx.adjusted() + 1
    m = dx.scaleb(-e)                          # 0.1 <= m < 1
    q = m.quantize(Decimal(1).scaleb(-d))
    if q >= 1:
        q = (q / 10).quantize(Decimal(1).scaleb(-d)); e += 1
    digs = str(q).split('.')[1]
    t = '%s0.%sE%s%02d' % (sign, digs, '-' if e < 0 else '+', abs(e))
    if len(t) > w and t.startswith(sign + '0.'):
        t = sign + t[len(sign) + 1:]           # Fortran drops the optional leading zero when short of room
    assert len(t) <= w, (x, t)
    return t.rjust(w)


def chunks(vals, n, f):
    out = []
    for i in range(0, len(vals), n):
        out.append(''.join(f(v) for v in vals[i:i + n]))
    return out


def fortran_file(spec):
    """text of a TOUGH2 input file for a spec (TOUGH2 flavour, mesh in file)"""
    L = [spec.get('title', '')]
    rocks = spec.get('rocks', [])
    if rocks:
        L.append('ROCKS----1----*----2----*----3----*----4----*----5----*----6----*----7----*----8')
        for r in rocks:
            L.append(A(r['name']) + I(r['nad']) + E(r['density']) + E(r['porosity']) + ''.join(E(k) for k in r['permeability'])
                     + E(r['conductivity']) + E(r['specific_heat']))
            nad = r['nad'] or 0
            if nad >= 1:
                L.append(''.join(E(r.get(k)) for k in ('compressibility', 'expansivity', 'dry_conductivity', 'tortuosity',
                                                       'klinkenberg', 'xkd3', 'xkd4')))
            if nad >= 2:
                for key in ('rp', 'cp'):
                    L.append(I(r[key]['type']) + ' ' * 5 + ''.join(E(v, 10, 3) for v in r[key]['parameters']))
        L.append('')
    if spec.get('start'):
        L.append('START----1----*----2----*----3----*----4----*----5----*----6----*----7----*----8')
    p = spec.get('parameter', {})
    L.append('PARAM----1----*----2----*----3----*----4----*----5----*----6----*----7----*----8')
    opts = ''.join(str(o) for o in p.get('option', [0] * 25)[1:25])
    L.append(I(p.get('max_iterations'), 2) + I(p.get('print_level'), 2) + I(p.get('max_timesteps'), 4) + I(p.get('max_duration'), 4)
             + I(p.get('print_interval'), 4) + opts + E(p.get('texp'), 10, 3) + E(p.get('be'), 10, 3))
    L.append(E(p.get('tstart'), 10, 3) + E(p.get('tstop'), 10, 3) + E(p.get('const_timestep'), 10, 3) + E(p.get('max_timestep'), 10, 3)
             + A(p.get('print_block')) + ' ' * 5 + E(p.get('gravity')) + E(p.get('timestep_reduction')) + E(p.get('scale')))
    ct = p.get('const_timestep')
    if ct is not None and ct < 0:
        ts = list(p.get('timestep', []))
        lines = chunks(ts, 8, E)
        lines += [''] * (int(-ct) - len(lines))
        L += lines
    L.append(''.join(E(p.get(k)) for k in ('relative_error', 'absolute_error', 'pivot', 'upstream_weight', 'newton_weight',
                                           'derivative_increment')))
    di = list(p.get('default_incons', []))
    L += chunks(di, 4, lambda v: E(v, 20, 13)) if di else ['']
    if len(di) > 0 and len(di) % 4 == 0 and False:
        L.append('')
    m = spec.get('multi', {})
    if m:
        L.append('MULTI----1----*----2----*----3----*----4----*----5----*----6----*----7----*----8')
        L.append(''.join(I(m.get(k)) for k in ('num_components', 'num_equations', 'num_phases', 'num_secondary_parameters', 'num_inc')))
    ot = spec.get('output_times', {})
    if ot:
        L.append('TIMES----1----*----2----*----3----*----4----*----5----*----6----*----7----*----8')
        L.append(I(ot.get('num_times_specified')) + I(ot.get('num_times')) + E(ot.get('max_timestep')) + E(ot.get('time_increment')))
        L += chunks(list(ot['time']), 8, E)
    blocks = spec.get('blocks', [])
    L.append('ELEME')
    for b in blocks:
        c = b.get('centre') or [None] * 3
        L.append(A(b['name']) + I(b.get('nseq')) + I(b.get('nadd')) + A(b['rocktype']) + E(b['volume']) + E(b.get('ahtx')) + E(b.get('pmx'))
                 + ''.join(E(x, 10, 3) for x in c))
    L.append('')
    L.append('CONNE')
    for c in spec.get('connections', []):
        dc = c['dircos']
        L.append(A(c['block'][0]) + A(c['block'][1]) + I(c.get('nseq')) + I(c.get('nad1')) + I(c.get('nad2')) + I(c['direction'])
                 + E(c['distance'][0]) + E(c['distance'][1]) + E(c['area']) + ('%10.4f' % dc if dc is not None else ' ' * 10)
                 + E(c.get('sigma'), 10, 3))
    L.append('+++' if spec.get('connections') and spec.get('plusplus') else '')
    gens = spec.get('generators', [])
    if gens:
        L.append('GENER')
        for g in gens:
            L.append(A(g['block']) + A(g['name']) + I(g.get('nseq')) + I(g.get('nadd')) + I(g.get('nads')) + I(g.get('ltab')) + ' ' * 5
                     + A(g['type'], 4) + A(g['itab'], 1) + ''.join(E(g.get(k), 10, 3) for k in ('gx', 'ex', 'hg', 'fg')))
            n = abs(g['ltab'] or 0)
            if n > 1 and g['type'] != 'DELV':
                for key in ('time', 'rate') + (('enthalpy',) if g['itab'].strip() else ()):
                    L += chunks(list(g[key]), 4, lambda v: E(v, 14, 7))
        L.append('')
    inc = spec.get('incon', [])
    if inc:
        L.append('INCON')
        for name, por, vs, nseq, nadd, n in inc:
            L.append(A(name) + I(nseq) + I(nadd) + E(por, 15, 9))
            L.append(''.join(E(v, 20, 13) for v in vs))
        L.append('')
    fo = spec.get('history_block', [])
    if fo:
        L.append('FOFT ')
        L += [A(x if isinstance(x, str) else x[1]) for x in fo]
        L.append('')
    L.append(spec.get('end_keyword', 'ENDCY'))
    return '\n'.join(L) + '\n'


def round_sig(x, d):
    """x to d significant digits, kept within two-digit exponents (three-digit ones are written without the
    letter E by Fortran: C16's subject, and need the Fortran read functions)"""
    if x is None or x == 0: return x
    y = float('%.*e' % (d - 1, x))
    if abs(y) >= 1e98 or abs(y) < 1e-98:
        mant = ('%.*e' % (d - 1, abs(y))).split('e')[0]
        y = (1 if y > 0 else -1) * float(mant)
    return y


def fortranise(spec):
    """restrict a generated spec to what this writer emits, with values that the Fortran fields hold exactly"""
    s = {'title': spec.get('title', '').strip()[:80], 'simulator': '', 'end_keyword': spec.get('end_keyword', 'ENDCY'),
         'more_option': [0] * 22, 'start': bool(spec.get('start'))}
    def r4(x): return round_sig(x, 4)
    def r3(x): return round_sig(x, 3)
    rocks = []
    for r in spec.get('rocks', []):
        e = dict(r)
        for k in ('density', 'porosity', 'conductivity', 'specific_heat'): e[k] = r4(r[k])
        e['permeability'] = [r4(x) for x in r['permeability']]
        for k in ('compressibility', 'expansivity', 'dry_conductivity', 'tortuosity', 'klinkenberg', 'xkd3', 'xkd4'):
            if k in e: e[k] = r4(e[k])
        for key in ('rp', 'cp'):
            if e.get(key): e[key] = {'type': e[key]['type'], 'parameters': [r3(v) for v in e[key]['parameters']]}
        rocks.append(e)
    s['rocks'] = rocks
    p = dict(spec.get('parameter', {}))
    p.pop('diff0', None)
    for k in ('texp', 'be', 'tstart', 'tstop', 'max_timestep'):
        if k in p: p[k] = r3(p[k])
    if p.get('const_timestep', 0) >= 0 and 'const_timestep' in p: p['const_timestep'] = r3(p['const_timestep'])
    for k in ('gravity', 'timestep_reduction', 'scale', 'relative_error', 'absolute_error', 'pivot', 'upstream_weight',
              'newton_weight', 'derivative_increment'):
        if k in p: p[k] = r4(p[k])
    if 'timestep' in p: p['timestep'] = [r4(v) for v in p['timestep']]
    p['default_incons'] = [round_sig(v, 13) for v in p.get('default_incons', [])]
    s['parameter'] = p
    m = dict((k, v) for k, v in spec.get('multi', {}).items() if k != 'eos')
    if m: s['multi'] = m
    ot = spec.get('output_times', {})
    if ot:
        o = dict(ot)
        for k in ('max_timestep', 'time_increment'):
            if k in o: o[k] = r4(o[k])
        o['time'] = [r4(v) for v in ot['time']]
        s['output_times'] = o
    s['blocks'] = [dict(b, volume=r4(b['volume']), ahtx=r4(b.get('ahtx')), pmx=r4(b.get('pmx')),
                        centre=([r3(x) for x in b['centre']] if b.get('centre') else None)) for b in spec.get('blocks', [])]
    s['connections'] = [dict(c, distance=[r4(x) for x in c['distance']], area=r4(c['area']),
                             dircos=(round(c['dircos'], 4) if c['dircos'] is not None else None), sigma=r3(c.get('sigma')))
                        for c in spec.get('connections', [])]
    gens = []
    for g in spec.get('generators', []):
        e = dict(g)
        for k in ('gx', 'ex', 'hg', 'fg'): e[k] = r3(g.get(k))
        for k in ('time', 'rate', 'enthalpy'): e[k] = [round_sig(v, 7) for v in g.get(k, [])]
        gens.append(e)
    s['generators'] = gens
    s['incon'] = [[n, round_sig(por, 9), [round_sig(v, 13) for v in vs], a, b, k] for n, por, vs, a, b, k in spec.get('incon', [])]
    if spec.get('history_block'): s['history_block'] = list(spec['history_block'])
    return s
