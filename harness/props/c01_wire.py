"""C01 support: the positional tree format shared with lean/Drv/C01.lean.

  to_tokens(dump)            dump of a real object (c01_objs.dump)  ->  request tokens
  from_tokens(tokens)        reply tokens of the driver             ->  the same dump form
Leaves: n | i<int> | r<num>/<den> | z | inf0 | inf1 | nan | s<hex>;  lists: L<n> + n trees.
"""
import math
from fractions import Fraction
from props.c01_objs import ROCK_EXTRA, GEN_KEYS, py


def leaf(v):
    v = py(v)
    if v is None: return 'n'
    if isinstance(v, bool): return 'i%d' % int(v)
    if isinstance(v, int): return 'i%d' % v
    if isinstance(v, float):
        if math.isnan(v): return 'nan'
        if math.isinf(v): return 'inf1' if v < 0 else 'inf0'
        if v == 0 and math.copysign(1, v) < 0: return 'z'
        n, d = v.as_integer_ratio()
        return 'r%d/%d' % (n, d)
    if isinstance(v, str): return 's' + v.encode('latin-1').hex()
    raise TypeError('no wire form for %r' % (v,))


class L(list):
    pass


def flat(t, out):
    if isinstance(t, L):
        out.append('L%d' % len(t))
        for x in t: flat(x, out)
    else:
        out.append(t)
    return out


def vs(xs): return L(leaf(x) for x in xs)
def ss(xs): return L(leaf(str(x)) for x in xs)
def dic(d): return L(L([leaf(k), leaf(v)]) for k, v in d.items())
def opt(x, f=lambda y: y): return L([]) if x is None else L([f(x)])
def rp(d): return L([]) if not d else L([leaf(d.get('type')), vs(d.get('parameters', []))])


def to_tree(s, extra_precision=(), echo=True):
    p = s['parameter']
    scal = dict((k, v) for k, v in p.items() if k not in ('option', 'timestep', 'default_incons', '_option_str'))
    ot = s.get('output_times', {})
    so = s.get('short_output', {})
    sel = s.get('selection', {})
    def hist(it):
        return L([leaf(1), leaf(it[1])]) if isinstance(it, list) else L([leaf(0), leaf(it)])
    def hconn(it):
        return L([leaf(1), leaf(it[1]), leaf(it[2])]) if it[0] == 'obj' and len(it) == 3 else L([leaf(0), leaf(it[0]), leaf(it[1])])
    def mm(m):
        if m[0] == 'rz2d':
            return L([leaf('rz2d'), L(L([leaf(k), (vs(sub[k]) if k in ('radii', 'layer') else dic(sub))]) for k, sub in m[1])])
        if m[0] == 'xyz':
            return L([leaf('xyz'), leaf(m[1][0]), L(L([leaf(x.get('ntype')), leaf(x.get('no')), leaf(x.get('del')),
                                                       opt(x.get('deli'), vs)]) for x in m[1][1:])])
        x = m[1]
        return L([leaf('minc'), leaf(x['type']), leaf(x['dual']), leaf(x['num_continua']), leaf(x['where']), vs(x['spacing']), vs(x['vol'])])
    return L([
        leaf(s['title']), leaf(s['simulator']), leaf(s['end_keyword']), ss(s.get('sections', [])), ss(extra_precision), leaf(1 if echo else 0),
        L(L([leaf(r['name']), leaf(r['nad']), leaf(r['density']), leaf(r['porosity']), vs(r['permeability']), leaf(r['conductivity']),
             leaf(r['specific_heat']), dic(dict((k, r[k]) for k in ROCK_EXTRA if k in r)), rp(r.get('rp')), rp(r.get('cp'))]) for r in s['rocks']),
        dic(scal), vs(p['option']), vs(p.get('timestep', [])), vs(p.get('default_incons', [])), vs(s['more_option']),
        dic(s.get('multi', {})), leaf(1 if s.get('start') else 0), leaf(1 if s.get('noversion') else 0),
        rp(s.get('relative_permeability')), rp(s.get('capillarity')), dic(s.get('lineq', {})), dic(s.get('solver', {})),
        dic(dict((k, v) for k, v in ot.items() if k != 'time')), opt(ot.get('time'), vs),
        L(L([leaf(b['name']), leaf(b['nseq']), leaf(b['nadd']), leaf(b['rocktype']), leaf(b['volume']), leaf(b['ahtx']), leaf(b['pmx']),
             opt(b['centre'], vs)]) for b in s['blocks']),
        L(L([leaf(c['block'][0]), leaf(c['block'][1]), leaf(c['nseq']), leaf(c['nad1']), leaf(c['nad2']), leaf(c['direction']),
             vs(c['distance']), leaf(c['area']), leaf(c['dircos']), leaf(c['sigma'])]) for c in s['connections']),
        L(L([leaf(g[k]) for k in ('block', 'name', 'nseq', 'nadd', 'nads', 'ltab', 'type', 'itab', 'gx', 'ex', 'hg', 'fg')] +
            [vs(g['time']), vs(g['rate']), vs(g['enthalpy'])]) for g in s['generators']),
        L([(L([leaf(so['frequency'])]) if 'frequency' in so else L([])),
           opt(so.get('block'), ss), opt(so.get('connection'), lambda x: L(L([leaf(a), leaf(b)]) for a, b in x)),
           opt(so.get('generator'), lambda x: L(L([leaf(a), leaf(b)]) for a, b in x))]),
        L(hist(x) for x in s.get('history_block', [])), L(hconn(x) for x in s.get('history_connection', [])),
        L(hist(x) for x in s.get('history_generator', [])),
        L(L([leaf(e[0]), leaf(e[1]), vs(e[2]), (L([L([leaf(e[3]), leaf(e[4])])]) if e[5] >= 4 else L([]))]) for e in s.get('incon', [])),
        L(L([leaf(k), vs(v)]) for k, v in s.get('indom', [])),
        L(vs(r) for r in s.get('diffusion', [])),
        L([L([vs(sel['integer']), vs(sel['float'])])]) if sel else L([]),
        L(mm(m) for m in s.get('meshmaker', []))])


def to_tokens(s, extra_precision=(), echo=True):
    return flat(to_tree(s, extra_precision, echo), [])


# ------------------------------------------------------------------ decoding

def parse_leaf(t):
    if t == 'n': return None
    if t == 'z': return -0.0
    if t == 'nan': return math.nan
    if t == 'inf0': return math.inf
    if t == 'inf1': return -math.inf
    c = t[0]
    if c == 'i': return int(t[1:])
    if c == 's': return bytes.fromhex(t[1:]).decode('latin-1')
    if c == 'r':
        a, b = t[1:].split('/')
        return float(Fraction(int(a), int(b)))         # exact decimal -> nearest double (A-float)
    raise ValueError('bad leaf %r' % t)


def parse_tree(tokens, pos=0):
    t = tokens[pos]
    if t[0] == 'L' and t[1:].isdigit():
        n = int(t[1:])
        out = []
        pos += 1
        for _ in range(n):
            x, pos = parse_tree(tokens, pos)
            out.append(x)
        return out, pos
    return parse_leaf(t), pos + 1


def from_tokens(tokens):
    """reply tokens -> (dump-form dict, extra_precision, echo)"""
    t, pos = parse_tree(tokens)
    if pos != len(tokens):
        raise ValueError('trailing tokens in a driver reply')
    def dct(x): return dict((k, v) for k, v in x)
    def rpd(x): return {} if not x else {'type': x[0], 'parameters': x[1]}
    def o(x): return x[0] if x else None
    s = {'title': t[0], 'simulator': t[1], 'end_keyword': t[2], 'sections': t[3]}
    rocks = []
    for r in t[6]:
        e = {'name': r[0], 'nad': r[1], 'density': r[2], 'porosity': r[3], 'permeability': r[4], 'conductivity': r[5], 'specific_heat': r[6]}
        e.update(dct(r[7]))
        e['rp'], e['cp'] = rpd(r[8]), rpd(r[9])
        rocks.append(e)
    s['rocks'] = rocks
    p = dct(t[7])
    p['option'], p['timestep'], p['default_incons'] = t[8], t[9], t[10]
    s['parameter'] = p
    s['more_option'] = t[11]
    s['multi'], s['start'], s['noversion'] = dct(t[12]), bool(t[13]), bool(t[14])
    s['relative_permeability'], s['capillarity'] = rpd(t[15]), rpd(t[16])
    s['lineq'], s['solver'] = dct(t[17]), dct(t[18])
    ot = dct(t[19])
    if t[20]: ot['time'] = t[20][0]
    s['output_times'] = ot
    s['blocks'] = [{'name': b[0], 'nseq': b[1], 'nadd': b[2], 'rocktype': b[3], 'volume': b[4], 'ahtx': b[5], 'pmx': b[6], 'centre': o(b[7])} for b in t[21]]
    s['connections'] = [{'block': [c[0], c[1]], 'nseq': c[2], 'nad1': c[3], 'nad2': c[4], 'direction': c[5], 'distance': c[6],
                         'area': c[7], 'dircos': c[8], 'sigma': c[9]} for c in t[22]]
    gens = []
    for g in t[23]:
        e = dict(zip(('block', 'name', 'nseq', 'nadd', 'nads', 'ltab', 'type', 'itab', 'gx', 'ex', 'hg', 'fg'), g[:12]))
        e['time'], e['rate'], e['enthalpy'] = g[12], g[13], g[14]
        gens.append(e)
    s['generators'] = gens
    so = {}
    f, b, c, g = t[24]
    if f: so['frequency'] = f[0]
    if b: so['block'] = b[0]
    if c: so['connection'] = [list(x) for x in c[0]]
    if g: so['generator'] = [list(x) for x in g[0]]
    s['short_output'] = so
    s['history_block'] = [(['obj', x[1]] if x[0] else x[1]) for x in t[25]]
    s['history_connection'] = [(['obj', x[1], x[2]] if x[0] else [x[1], x[2]]) for x in t[26]]
    s['history_generator'] = [(['obj', x[1]] if x[0] else x[1]) for x in t[27]]
    s['incon'] = [[e[0], e[1], e[2], (e[3][0][0] if e[3] else None), (e[3][0][1] if e[3] else None), 4 if e[3] else 2] for e in t[28]]
    s['indom'] = [[e[0], e[1]] for e in t[29]]
    s['diffusion'] = t[30]
    s['selection'] = {'integer': t[31][0][0], 'float': t[31][0][1]} if t[31] else {}
    mm = []
    for m in t[32]:
        if m[0] == 'rz2d':
            mm.append(['rz2d', [[x[0], ({x[0]: x[1]} if x[0] in ('radii', 'layer') else dct(x[1]))] for x in m[1]]])
        elif m[0] == 'xyz':
            subs = []
            for x in m[2]:
                e = {'ntype': x[0], 'no': x[1], 'del': x[2]}
                if x[3]: e['deli'] = x[3][0]
                subs.append(e)
            mm.append(['xyz', [m[1]] + subs])
        else:
            mm.append(['minc', {'type': m[1], 'dual': m[2], 'num_continua': m[3], 'where': m[4], 'spacing': m[5], 'vol': m[6]}])
    s['meshmaker'] = mm
    return s, t[4], bool(t[5])
