"""C04 — geometry -> TOUGH2 grid conversion is geometrically exact and index-consistent.

model      lean/PyTough/Model/FromGeo.lean  (fromgeo, the two name-list loops, block_surface/volume/centre,
           connection_params, polygon_area, line_projection, tilt_vector; exact rationals, square roots symbolic)
theorems   lean/PyTough/Props/C04.lean
tie        correspondence facet `fromgeo`: the real t2grid().fromgeo(geo, blockmap) and the real cached name lists
           vs the compiled model on the same geometry (names/orders exactly, numbers to 1e-9 relative)
oracle     the property statement evaluated on the real grid with independent Fraction geometry (shoelace areas,
           cross-product perpendicular distances, telescoped column volumes)
"""
import math, json, contextlib, io, copy, time
from fractions import Fraction as F
import core
from core import Result

ID = 'C04'
MODULE = 'PyTough.Props.C04'
TARGETS = ['PyTough.Props.C04', 'drv_c04']
THEOREMS = ['Props.C04.' + t for t in [
    'fromgeo_blocks_eq_namelist', 'fromgeo_connections_eq_namelist', 'fromgeo_consistent',
    'fromgeo_succeeds', 'grid_block_data', 'grid_connection_origin', 'layer_stack_adjacent',
    'block_volume_formula', 'column_volume_telescopes', 'total_volume', 'polygon_area_is_shoelace',
    'vertical_connection_geometry', 'vertical_connection_atmosphere',
    'grid_block_volume', 'grid_vertical_distances_add_up',
    'untilted_tilt_vector', 'gravity_cosine_vertical', 'gravity_cosine_horizontal', 'gravity_cosine_truncated',
    'horizontal_connection_geometry', 'direction_by_permeability_angle', 'perpendicular_is_shortest']]
LEVEL_TEXT = ('Proof over exact arithmetic: 22 Lean theorems about an executable model of fromgeo and the geometry helpers '
              '(fromgeo returns on every well-formed geometry; block list and connection list equal the announced name lists, in order (distinctness of the announced pairs is derived, not assumed); the grid satisfies the C08 consistency clauses; '
              'and orientation, for every geometry, naming convention, atmosphere type, block order and injective block map; every block '
              'carries block_volume/block_centre of its layer and column and every connection comes from one of the two loop bodies; volume '
              'formula and telescoping to area x depth; vertical/atmosphere connection distances; gravity cosines; horizontal area = edge x '
              'lower height, distances perpendicular and minimal), no sorry; hypotheses are decidable predicates evaluated on every explored case; tied to /repo by a correspondence run of the real fromgeo against '
              'the compiled model on rectangular, shipped-irregular, refined and rotated geometries, plus an independent Fraction oracle.')
LEVEL_NOTE = ('Trusted: Lean kernel (+propext, Classical.choice, Quot.sound); the hand model (tied by the correspondence); IEEE rounding is '
              'outside the model (numbers compared to 1e-9 relative, cosines 1e-12 absolute); square roots are symbolic (squares compared); '
              'rotation angles other than right angles only through the float comparison.')
TECHNIQUE = 'Lean 4 proof over an executable rational model of fromgeo + differential correspondence with the real code + independent exact oracle'
ASSUMPTIONS = [
    'exact arithmetic: IEEE rounding of the real code is not modelled (tolerance 1e-9 relative, 1e-12 absolute on cosines)',
    'the geometry satisfies its own invariants (names are dict keys, connections refer to columns of the geometry, layer tops chain, name caches refreshed by setup_block_name_index / setup_block_connection_name_index as every library operation does)',
    'column surfaces are numbers (set_default_surface / read always set them)',
]
TRUSTED_EXTRA = ['Model/FromGeo.lean as a model of fromgeo and helpers: diffed against the real code on every run (facet fromgeo)']

HYPS = ['Fresh (cached block_name_list up to date)', 'LayersWF (flat atmosphere layer, tops chain, distinct layer names)',
        'Nodup of the mapped block names', 'Nodup of the mapped announced connection names (now a consequence, still evaluated)',
        'parseOk (every block name parses back to its layer and column)',
        'ConnsWF (one geometry connection per ordered column pair, joining two different columns)']
RTOL = 1e-9
CTOL = 1e-12
SHIPPED = ['g1.dat', 'g2.dat', 'g3.dat', 'g4.dat', 'g5.dat', 'g6.dat', 'g7.dat']


# ------------------------------------------------------------------ helpers

@contextlib.contextmanager
def quiet():
    import numpy as np
    with contextlib.redirect_stdout(io.StringIO()), np.errstate(all='ignore'):
        yield


def fr(x):
    return F(float(x))


def enc_rat(x):
    f = x if isinstance(x, F) else F(float(x))
    return str(f.numerator) if f.denominator == 1 else '%d/%d' % (f.numerator, f.denominator)


def enc_name(s):
    return 'x' + s.encode('latin-1').hex()


def dec_name(t):
    return bytes.fromhex(t[1:]).decode('latin-1')


def dec_rat(t):
    return F(t)


def close(a, b, rel=RTOL, abs_=0.0):
    a, b = float(a), float(b)
    if a == b:
        return True
    if math.isnan(a) or math.isnan(b):
        return False
    return abs(a - b) <= max(rel * max(abs(a), abs(b)), abs_)


_geo_cache = {}


def load_shipped(name):
    import mulgrids
    if name not in _geo_cache:
        with quiet():
            _geo_cache[name] = mulgrids.mulgrid(str(core.REPO / 'tests' / 'mulgrid' / name))
    return _geo_cache[name]


# ------------------------------------------------------------------ generators (recipes are JSON-able and replayable)

def gen_spacing(rng):
    return rng.choice([0.25, 0.5, 1.0, 1.0, 1.5, 2.0, 3.0, 4.75, 10.0, rng.randint(1, 64) / 4.0])


def gen_surfaces(rng, ncols, nlay):
    """surface specification per column: None (leave default) or [kind, layer index (1-based), numerator of /4]"""
    mode = rng.choice(['default', 'some', 'all', 'all', 'slope'])
    out = []
    for i in range(ncols):
        if mode == 'default' or (mode == 'some' and rng.random() < 0.6):
            out.append(None)
            continue
        r = rng.random()
        if mode == 'slope':
            k = 1 + (i * 7 // max(ncols, 1)) % nlay
            out.append(['in', k, rng.choice([0, 1, 2, 3, 4])])
        elif r < 0.12:
            out.append(['above', 0, rng.choice([1, 2, 4, 10, 33])])
        elif r < 0.2:
            out.append(['below', nlay, rng.choice([0, 1, 5])])
        else:
            out.append(['in', rng.randint(1, nlay), rng.choice([0, 0, 1, 2, 3, 4, 4])])
    return out


def gen_map(rng):
    r = rng.random()
    if r < 0.4:
        return None
    return {'frac': rng.choice([0.1, 0.5, 1.0]), 'seed': rng.randint(0, 10 ** 6), 'collide': rng.random() < 0.08}


def gen_motion(rng):
    angle = rng.choice([0, 0, 0, 90, 180, 270, 30, 45, 33.3, -60])
    shift = rng.choice([None, [0.0, 0.0, 0.0], [rng.randint(-4096, 4096) / 4.0, rng.randint(-4096, 4096) / 4.0, rng.randint(-400, 400) / 4.0]])
    perm = rng.choice([0.0, 0.0, 30.0, 45.0, 90.0, -float(angle)])
    tilt = rng.choice([None] * 8 + [[0.0, 0.0], [None, 0.0], [1.0, 0.0], [0.0, 1.0], [0.0, -1.0], [0.125, 0.25]])
    return angle, shift, perm, tilt


def gen_rect(rng, big=False):
    hi = 7 if big else 5
    nx, ny, nz = rng.randint(1, hi), rng.randint(1, hi), rng.randint(1, hi)
    angle, shift, perm, tilt = gen_motion(rng)
    return {
        'gen': 'rect',
        'dx': [gen_spacing(rng) for _ in range(nx)], 'dy': [gen_spacing(rng) for _ in range(ny)],
        'dz': [gen_spacing(rng) for _ in range(nz)],
        'origin': rng.choice([[0.0, 0.0, 0.0], [rng.randint(-400, 400) / 4.0, rng.randint(-400, 400) / 4.0, rng.randint(-400, 400) / 4.0]]),
        'conv': rng.randint(0, 3), 'atm': rng.randint(0, 2), 'order': rng.choice([None, None, 'layer_column', 'dmplex']),
        'justify': rng.choice(['r', 'r', 'l']), 'case': rng.choice([None, None, 'u', 'l']),
        'surf': gen_surfaces(rng, nx * ny, nz),
        'angle': angle, 'shift': shift, 'perm': perm, 'tilt': tilt,
        'atmvol': rng.choice([1.e25, 1.e30, 0.0, 50.0]), 'atmconn': rng.choice([1.e-6, 0.5, 1.0]),
        'map': gen_map(rng),
        # outside the property's quantifier (oracle skipped, correspondence only): a name alphabet with digits, on which
        # fix_blockname fires and block names no longer parse back; a stale block_name_list cache (surfaces changed
        # after the last setup_block_name_index)
        'chars': rng.choice([None] * 14 + ['ab12', 'xyz0123456789']),
        'stale': (gen_surfaces(rng, nx * ny, nz) if rng.random() < 0.07 else None),
    }


def gen_shipped(rng, whole=None):
    name = whole or rng.choice(SHIPPED)
    geo = load_shipped(name)
    nlay = rng.randint(1, min(5, geo.num_layers - 1))
    ncols = rng.randint(2, 30)
    angle, shift, perm, tilt = gen_motion(rng)
    rec = {
        'gen': 'shipped', 'file': name, 'seedcol': rng.randrange(geo.num_columns), 'ncols': ncols, 'nlay': nlay,
        'atm': rng.choice([None, 0, 1, 2]), 'order': rng.choice([None, None, 'dmplex']),
        'surf': gen_surfaces(rng, ncols, nlay) if rng.random() < 0.7 else None,
        'refine': ([rng.randrange(ncols) for _ in range(rng.randint(1, 4))] if rng.random() < 0.35 else None),
        'angle': angle, 'shift': shift, 'perm': rng.choice([None, perm]), 'tilt': tilt, 'map': gen_map(rng),
    }
    if whole:
        rec.update({'ncols': geo.num_columns, 'nlay': geo.num_layers - 1, 'whole': True, 'refine': None})
    return rec


def surface_value(geo, spec):
    kind, k, q = spec
    lays = geo.layerlist
    if kind == 'above':
        return lays[0].bottom + q / 4.0
    if kind == 'below':
        return lays[-1].bottom - q / 4.0
    lay = lays[max(1, min(k, len(lays) - 1))]
    if q == 0: return lay.bottom
    if q == 4: return lay.top
    return lay.bottom + (q / 4.0) * (lay.top - lay.bottom)


def apply_surfaces(geo, specs):
    if specs is None:
        return
    for col, spec in zip(geo.columnlist, specs):
        if spec is not None:
            col.surface = surface_value(geo, spec)
    for col in geo.columnlist:
        geo.set_column_num_layers(col)
    geo.setup_block_name_index()
    geo.setup_block_connection_name_index()


def patch_of(geo, seedcol, ncols, nlay):
    """a connected patch of a shipped geometry, rebuilt through the public constructors (as mulgrid.read does)"""
    import mulgrids, numpy as np
    adj = {}
    for con in geo.connectionlist:
        a, b = con.column
        adj.setdefault(a.name, []).append(b.name)
        adj.setdefault(b.name, []).append(a.name)
    start = geo.columnlist[seedcol % geo.num_columns].name
    seen, queue = [start], [start]
    while queue and len(seen) < ncols:
        c = queue.pop(0)
        for n in adj.get(c, []):
            if n not in seen and len(seen) < ncols:
                seen.append(n); queue.append(n)
    keep = set(seen)
    sub = mulgrids.mulgrid(convention=geo.convention, atmos_type=geo.atmosphere_type, atmos_volume=geo.atmosphere_volume,
                           atmos_connection=geo.atmosphere_connection, permeability_angle=geo.permeability_angle)
    cols = [c for c in geo.columnlist if c.name in keep]
    used = set(n.name for c in cols for n in c.node)
    for n in geo.nodelist:
        if n.name in used:
            sub.add_node(mulgrids.node(n.name, np.array(n.pos, dtype=float)))
    for c in cols:
        centre = np.array(c.centre, dtype=float) if c.centre_specified else None
        sub.add_column(mulgrids.column(c.name, [sub.node[n.name] for n in c.node], centre, c.surface))
    for con in geo.connectionlist:
        a, b = con.column
        if a.name in keep and b.name in keep:
            sub.add_connection(mulgrids.connection([sub.column[a.name], sub.column[b.name]]))
    for lay in geo.layerlist[0:1 + nlay]:
        sub.add_layer(mulgrids.layer(lay.name, lay.bottom, lay.centre, lay.top))
    for col in sub.columnlist:
        if col.surface is None:
            col.surface = sub.layerlist[0].bottom
            col.default_surface = True
        sub.set_column_num_layers(col)
    sub.identify_neighbours()
    sub.setup_block_name_index()
    sub.setup_block_connection_name_index()
    return sub


def build(rec):
    """recipe -> (geo, blockmap, injective)"""
    import mulgrids, numpy as np, random
    with quiet():
        if rec['gen'] == 'rect':
            kw = {'chars': rec['chars']} if rec.get('chars') else {}
            geo = mulgrids.mulgrid().rectangular(rec['dx'], rec['dy'], rec['dz'], convention=rec['conv'], atmos_type=rec['atm'],
                                                 origin=list(rec['origin']), justify=rec['justify'], case=rec['case'],
                                                 block_order=rec['order'], **kw)
            geo.atmosphere_volume = rec['atmvol']
            geo.atmosphere_connection = rec['atmconn']
            apply_surfaces(geo, rec['surf'])
        else:
            base = load_shipped(rec['file'])

            def fresh():
                if rec.get('whole'):
                    g = mulgrids.mulgrid(str(core.REPO / 'tests' / 'mulgrid' / rec['file']))
                else:
                    g = patch_of(base, rec['seedcol'], rec['ncols'], rec['nlay'])
                if rec['atm'] is not None:
                    g.atmosphere_type = rec['atm']
                apply_surfaces(g, rec['surf'])
                return g
            geo = fresh()
            if rec['refine']:
                try:
                    geo.refine([geo.columnlist[i % geo.num_columns] for i in sorted(set(rec['refine']))])
                except Exception:
                    geo = fresh()      # refinement itself is C10/C11's business; fall back to the unrefined patch
            if rec['order'] == 'dmplex' and all(c.num_nodes in (3, 4) for c in geo.columnlist):
                geo.block_order = 'dmplex'
        if rec['perm'] is not None:
            geo.permeability_angle = rec['perm']
        if rec['angle']:
            geo.rotate(rec['angle'], np.zeros(2))
        if rec['shift'] is not None:
            geo.translate(np.array(rec['shift']))
        if rec['tilt'] is not None:
            geo.gdcx, geo.gdcy = rec['tilt']
        # caches as every library operation leaves them
        geo.setup_block_name_index()
        geo.setup_block_connection_name_index()
        if rec.get('stale'):
            for col, spec in zip(geo.columnlist, rec['stale']):
                if spec is not None:
                    col.surface = surface_value(geo, spec)       # ... and no refresh of the name caches
    blockmap, injective = {}, True
    if rec['map']:
        r = random.Random(rec['map']['seed'])
        names = list(geo.block_name_list)
        chosen = [n for n in names if r.random() < rec['map']['frac']]
        for i, n in enumerate(chosen):
            blockmap[n] = '#%04d' % i
        if rec['map']['collide'] and len(chosen) >= 2:
            blockmap[chosen[-1]] = blockmap[chosen[0]]
            injective = False
    return geo, blockmap, injective


# ------------------------------------------------------------------ the real code

def observe(grid):
    B = [(b.name, None if b.volume is None else float(b.volume),
          None if b.centre is None else tuple(float(v) for v in b.centre), bool(b.atmosphere)) for b in grid.blocklist]
    K = [((c.block[0].name, c.block[1].name), int(c.direction), (float(c.distance[0]), float(c.distance[1])),
          float(c.area), float(c.dircos)) for c in grid.connectionlist]
    return B, K


def run_real(geo, blockmap):
    import t2grids
    try:
        with quiet():
            grid = t2grids.t2grid().fromgeo(geo, blockmap)
        return ('ok', grid)
    except Exception as e:
        return ('exc', type(e).__name__)


# ------------------------------------------------------------------ the model

def encode(geo, blockmap):
    t = ['fromgeo', str(geo.convention), str(geo.atmosphere_type), enc_rat(geo.atmosphere_volume), enc_rat(geo.atmosphere_connection),
         '1' if geo.block_order == 'dmplex' else '0',
         '-' if geo.gdcx is None else enc_rat(geo.gdcx), '-' if geo.gdcy is None else enc_rat(geo.gdcy)]
    t += [enc_rat(x) for x in geo.tilt_vector]
    a = math.radians(geo.permeability_angle)
    t += [enc_rat(math.cos(a)), enc_rat(math.sin(a))]
    t.append(str(len(geo.layerlist)))
    for l in geo.layerlist:
        t += [enc_name(l.name), enc_rat(l.bottom), enc_rat(l.centre), enc_rat(l.top)]
    t.append(str(len(geo.columnlist)))
    index = {}
    for i, c in enumerate(geo.columnlist):
        index[id(c)] = i
        t += [enc_name(c.name), str(len(c.node))]
        for n in c.node:
            t += [enc_rat(n.pos[0]), enc_rat(n.pos[1])]
        t += [enc_rat(c.centre[0]), enc_rat(c.centre[1]), enc_rat(c.surface)]
    t.append(str(len(geo.connectionlist)))
    for k in geo.connectionlist:
        t += [str(index[id(k.column[0])]), str(index[id(k.column[1])]),
              enc_rat(k.node[0].pos[0]), enc_rat(k.node[0].pos[1]), enc_rat(k.node[1].pos[0]), enc_rat(k.node[1].pos[1])]
    t.append(str(len(geo.block_name_list)))
    t += [enc_name(n) for n in geo.block_name_list]
    t.append(str(len(blockmap)))
    for k, v in blockmap.items():
        t += [enc_name(k), enc_name(v)]
    return ' '.join(t)


class Reply:
    pass


def decode(line):
    w = line.split()
    r = Reply()
    r.raw = None
    if w[0] != 'ok':
        r.raw = line
        return r
    p = [1]

    def tok():
        p[0] += 1
        return w[p[0] - 1]
    r.hyp = [c == '1' for c in tok()]
    assert tok() == 'T'
    r.tilt_exact = tok() == '1'
    r.tilt = tuple(dec_rat(tok()) for _ in range(3))
    assert tok() == 'NL'
    if tok() == 'ok':
        n = int(tok())
        r.names = ('ok', [dec_name(tok()) for _ in range(n)])
    else:
        r.names = ('exc', tok())
    assert tok() == 'CL'
    if tok() == 'ok':
        n = int(tok())
        r.cnames = ('ok', [(dec_name(tok()), dec_name(tok())) for _ in range(n)])
    else:
        r.cnames = ('exc', tok())
    assert tok() == 'G'
    if tok() == 'ok':
        assert tok() == 'B'
        n = int(tok())
        B = []
        for _ in range(n):
            name = dec_name(tok())
            v = tok()
            vol = None if v == '-' else dec_rat(v)
            c = tok()
            centre = None if c == '-' else (dec_rat(c), dec_rat(tok()), dec_rat(tok()))
            B.append((name, vol, centre, tok() == '1'))
        assert tok() == 'K'
        n = int(tok())
        K = []
        for _ in range(n):
            a, b, d = dec_name(tok()), dec_name(tok()), int(tok())
            s = [(dec_rat(tok()), dec_rat(tok())) for _ in range(4)]
            K.append(((a, b), d, s[0], s[1], s[2], s[3]))
        r.grid = ('ok', B, K)
    else:
        r.grid = ('exc', tok())
    return r


def surd_val(s):
    c, r = s
    return float(c) * math.sqrt(float(r)) if r >= 0 else float('nan')


def direction_margin(geo, c0, c1):
    a = math.radians(geo.permeability_angle)
    c, s = math.cos(a), math.sin(a)
    dx, dy = c1[0] - c0[0], c1[1] - c0[1]
    u, v = abs(c * dx + s * dy), abs(-s * dx + c * dy)
    return abs(u - v) <= RTOL * max(u, v, 1e-300)


def compare(geo, blockmap, real, rep, res, stale=False):
    """correspondence: list of differences (strings); empty = agree"""
    diffs = []
    # the cached name lists vs the model's recomputation
    if stale:
        pass        # the model recomputes the lists; the real caches are deliberately out of date
    elif rep.names != ('ok', list(geo.block_name_list)):
        diffs.append('block_name_list: model %s vs real %s' % (str(rep.names)[:120], str(geo.block_name_list)[:120]))
    if not stale and rep.cnames != ('ok', [tuple(c) for c in geo.block_connection_name_list]):
        diffs.append('block_connection_name_list: model %s vs real %s' % (str(rep.cnames)[:120], str(geo.block_connection_name_list)[:120]))
    tv = [float(x) for x in geo.tilt_vector]
    if rep.tilt_exact and not all(close(a, b, RTOL, 1e-15) for a, b in zip(tv, rep.tilt)):
        diffs.append('tilt_vector: model %s real %s' % (rep.tilt, tv))
    if real[0] == 'exc' or rep.grid[0] == 'exc':
        a = real[1] if real[0] == 'exc' else 'ok'
        b = rep.grid[1] if rep.grid[0] == 'exc' else 'ok'
        if a != b:
            diffs.append('fromgeo outcome: model %s real %s' % (b, a))
        return diffs
    B, K = observe(real[1])
    mB, mK = rep.grid[1], rep.grid[2]
    if [b[0] for b in B] != [b[0] for b in mB]:
        diffs.append('block names/order: model %s real %s' % ([b[0] for b in mB][:12], [b[0] for b in B][:12]))
        return diffs
    for (n, v, c, atm), (_, mv, mc, matm) in zip(B, mB):
        if (v is None) != (mv is None) or (v is not None and not close(v, mv)):
            diffs.append('volume of %r: model %s real %r' % (n, mv, v)); break
        if (c is None) != (mc is None) or (c is not None and not all(close(x, y, RTOL, 1e-12) for x, y in zip(c, mc))):
            diffs.append('centre of %r: model %s real %r' % (n, mc, c)); break
        if atm != matm:
            diffs.append('atmosphere flag of %r' % n); break
    if [k[0] for k in K] != [k[0] for k in mK]:
        diffs.append('connection names/order: model %s real %s' % ([k[0] for k in mK][:8], [k[0] for k in K][:8]))
        return diffs
    cen = dict((b[0], b[2]) for b in B)
    for (nm, d, dist, area, dc), (_, md, m0, m1, ma, mc) in zip(K, mK):
        if d != md:
            c0, c1 = cen.get(nm[0]), cen.get(nm[1])
            if d != 3 and md != 3 and c0 and c1 and direction_margin(geo, c0, c1):
                res.unstable += 1
            else:
                diffs.append('direction of %r: model %d real %d' % (nm, md, d)); break
        if not (close(dist[0], surd_val(m0)) and close(dist[1], surd_val(m1))):
            diffs.append('distance of %r: model (%r, %r) real %r' % (nm, surd_val(m0), surd_val(m1), dist)); break
        if not close(area, surd_val(ma)):
            diffs.append('area of %r: model %r real %r' % (nm, surd_val(ma), area)); break
        if math.isnan(dc) and cen.get(nm[0]) is not None and cen.get(nm[0]) == cen.get(nm[1]):
            # coincident centres (two blocks collapsed by a non-injective block map): 0/0 in numpy, x/0 = 0 in the model
            res.count('degenerate:coincident-centres')
            continue
        if not close(dc, surd_val(mc), RTOL, CTOL):
            diffs.append('dircos of %r: model %r real %r' % (nm, surd_val(mc), dc)); break
    return diffs


# ------------------------------------------------------------------ the oracle (property statement on the real code)

def shoelace(pts):
    n = len(pts)
    s = F(0)
    for i in range(n):
        x1, y1 = pts[i]
        x2, y2 = pts[(i + 1) % n]
        s += x1 * y2 - x2 * y1
    return abs(s) / 2


def untilted(geo):
    return (geo.gdcx is None or geo.gdcx == 0) and (geo.gdcy is None or geo.gdcy == 0)


def geo_valid(geo):
    """the invariants a geometry built by the library has (the quantifier's 'valid geometries')"""
    ll = geo.layerlist
    if len(ll) < 2: return False
    if ll[0].top != ll[0].bottom: return False
    for above, this in zip(ll, ll[1:]):
        if this.top != above.bottom or not (this.bottom < this.top): return False
    return True


def oracle(geo, blockmap, real, injective, rec):
    """returns list of violations dict(key, what, case)"""
    out = []

    def bad(key, what):
        out.append(dict(key=key, what=what, case=rec))
        return out
    if not geo_valid(geo) or not injective or rec.get('chars') or rec.get('stale'):
        return out
    if real[0] == 'exc':
        return bad('fromgeo-raises:' + real[1], 'fromgeo raises %s on a valid geometry' % real[1])
    grid = real[1]
    mp = lambda n: blockmap.get(n, n)
    names = list(geo.block_name_list)
    if len(set(mp(n) for n in names)) != len(names):
        return out          # names not unique: not a valid geometry / map
    got_b = [b.name for b in grid.blocklist]
    want_b = [mp(n) for n in names]
    if got_b != want_b:
        i = next((i for i, (a, b) in enumerate(zip(got_b, want_b)) if a != b), min(len(got_b), len(want_b)))
        return bad('block-names', 'block list differs from block_name_list at index %d (%d blocks vs %d announced): %r vs %r'
                   % (i, len(got_b), len(want_b), got_b[i:i + 2], want_b[i:i + 2]))
    got_c = [tuple(b.name for b in c.block) for c in grid.connectionlist]
    want_c = [(mp(a), mp(b)) for (a, b) in geo.block_connection_name_list]
    if got_c != want_c:
        i = next((i for i, (a, b) in enumerate(zip(got_c, want_c)) if a != b), min(len(got_c), len(want_c)))
        return bad('connection-names', 'connection list differs from block_connection_name_list at index %d (%d vs %d announced): %r vs %r'
                   % (i, len(got_c), len(want_c), got_c[i:i + 2], want_c[i:i + 2]))
    # where each announced name lives
    where, atm_names = {}, set()
    lays = geo.layerlist
    if geo.atmosphere_type == 0: atm_names.add(names[0])
    elif geo.atmosphere_type == 1:
        for col in geo.columnlist: atm_names.add(geo.block_name(lays[0].name, col.name))
    for lay in lays[1:]:
        for col in geo.columnlist:
            n = geo.block_name(lay.name, col.name)
            if n in where or n in atm_names:
                return out      # ambiguous naming: outside 'valid geometries'
            where[n] = (lay, col)
    area = dict((col.name, shoelace([(fr(n.pos[0]), fr(n.pos[1])) for n in col.node])) for col in geo.columnlist)
    lowest = fr(lays[-1].bottom)
    top_layer = {}
    for col in geo.columnlist:
        for lay in lays[1:]:
            if fr(lay.bottom) < fr(col.surface):
                top_layer[col.name] = lay.name
                break

    def height(lay, col):
        top = fr(col.surface) if top_layer.get(col.name) == lay.name else fr(lay.top)
        return top - fr(lay.bottom)
    untilt = untilted(geo)
    blk = grid.block
    # volumes
    total = F(0)
    for n in names:
        if n in atm_names: continue
        if n not in where:
            return bad('unknown-block', 'announced block %r is not a (layer, column) block' % n)
        lay, col = where[n]
        want = area[col.name] * height(lay, col)
        got = blk[mp(n)].volume
        if got is None or not close(got, want):
            return bad('block-volume', 'volume of block %r (layer %r, column %r, surface %r) is %r, area x height = %r'
                       % (mp(n), lay.name, col.name, float(col.surface), got, float(want)))
        total += fr(got)
    want_total = sum((area[c.name] * (fr(c.surface) - lowest) for c in geo.columnlist if fr(c.surface) > lowest), F(0))
    if not close(total, want_total):
        return bad('total-volume', 'total rock volume %r, sum of area x depth = %r' % (float(total), float(want_total)))
    # connections
    for (a, b), con in zip(geo.block_connection_name_list, grid.connectionlist):
        la, ca = where[a]
        ba, bb = blk[mp(a)], blk[mp(b)]
        d0, d1 = float(con.distance[0]), float(con.distance[1])
        if b in atm_names:
            if not close(con.area, area[ca.name]):
                return bad('vertical-area', 'atmosphere connection %r area %r, column area %r' % ((mp(a), mp(b)), con.area, float(area[ca.name])))
            want0 = fr(ca.surface) - fr(ba.centre[2])
            if not (close(d0, want0, RTOL, 1e-12) and close(d1, geo.atmosphere_connection)):
                return bad('atmosphere-distance', 'atmosphere connection %r distances %r, expected (surface - centre, atmosphere_connection) = (%r, %r)'
                           % ((mp(a), mp(b)), (d0, d1), float(want0), geo.atmosphere_connection))
            if untilt and not close(con.dircos, -1.0, RTOL, CTOL):
                return bad('vertical-cosine', 'atmosphere connection %r gravity cosine %r, expected -1' % ((mp(a), mp(b)), con.dircos))
            continue
        lb, cb = where[b]
        if ca is cb:
            if not close(con.area, area[ca.name]):
                return bad('vertical-area', 'vertical connection %r area %r, column area %r' % ((mp(a), mp(b)), con.area, float(area[ca.name])))
            sep = fr(bb.centre[2]) - fr(ba.centre[2])
            if not (sep > 0):
                return bad('vertical-orientation', 'vertical connection %r is not lower-to-upper' % ((mp(a), mp(b)),))
            if not close(fr(d0) + fr(d1), sep, RTOL, 1e-12) or d0 < 0 or d1 < 0:
                return bad('vertical-distance', 'vertical connection %r distances %r add up to %r, centre separation %r'
                           % ((mp(a), mp(b)), (d0, d1), d0 + d1, float(sep)))
            if untilt and not close(con.dircos, -1.0, RTOL, CTOL):
                return bad('vertical-cosine', 'vertical connection %r gravity cosine %r, expected -1' % ((mp(a), mp(b)), con.dircos))
        elif la is lb:
            gc = geo.connection.get((ca.name, cb.name))
            if gc is None:
                return bad('unknown-connection', 'horizontal connection %r has no geometry connection' % ((mp(a), mp(b)),))
            n0 = (fr(gc.node[0].pos[0]), fr(gc.node[0].pos[1]))
            n1 = (fr(gc.node[1].pos[0]), fr(gc.node[1].pos[1]))
            ex, ey = n1[0] - n0[0], n1[1] - n0[1]
            e2 = ex * ex + ey * ey
            h = min(height(la, ca), height(la, cb))
            if con.area < 0 or not close(con.area * con.area, e2 * h * h, 2 * RTOL):
                return bad('horizontal-area', 'horizontal connection %r area %r, edge x lower height = %r'
                           % ((mp(a), mp(b)), con.area, math.sqrt(float(e2)) * float(h)))
            for d, col in ((d0, ca), (d1, cb)):
                px, py = fr(col.centre[0]) - n0[0], fr(col.centre[1]) - n0[1]
                cr = ex * py - ey * px
                if d < 0 or not close(d * d, cr * cr / e2, 2 * RTOL):
                    return bad('horizontal-distance', 'horizontal connection %r distance %r, perpendicular distance of column %r centre to the edge = %r'
                               % ((mp(a), mp(b)), d, col.name, math.sqrt(float(cr * cr / e2))))
            if untilt:
                dv = [fr(bb.centre[i]) - fr(ba.centre[i]) for i in range(3)]
                nn = math.sqrt(float(dv[0] * dv[0] + dv[1] * dv[1] + dv[2] * dv[2]))
                want = -float(dv[2]) / nn
                if not close(con.dircos, want, RTOL, CTOL) or ((dv[2] == 0) != (con.dircos == 0)):
                    return bad('horizontal-cosine', 'horizontal connection %r gravity cosine %r, centre-to-centre line gives %r'
                               % ((mp(a), mp(b)), con.dircos, want))
                # "non-zero beside a truncated surface block": one block cut by its surface, the other a full block
                sa, sb, top, bot = fr(ca.surface), fr(cb.surface), fr(la.top), fr(la.bottom)
                if fr(la.centre) == (top + bot) / 2 and ((bot < sa < top and sb >= top) or (bot < sb < top and sa >= top)) and con.dircos == 0:
                    return bad('truncated-cosine', 'horizontal connection %r beside a truncated surface block has gravity cosine 0' % ((mp(a), mp(b)),))
        else:
            return bad('unknown-connection', 'connection %r is neither vertical nor horizontal' % ((mp(a), mp(b)),))
    return out


# ------------------------------------------------------------------ sequence facet (hidden state)
#
# The property quantifies over geometries, not over how a geometry came to be: a conversion of a mulgrid that has been
# converted before and edited since must be as exact as the conversion of a freshly built one.  A sequence case is
#   {'gen': 'seq', 'base': <rect / shipped recipe>, 'steps': [step, ...]}
# replayed on ONE mulgrid object in ONE process.  Steps (all through the public API, caches refreshed as the library's
# own editing operations leave them):
#   ['convert']                     t2grid().fromgeo(geo) on the object as it is now (judged like a fresh conversion)
#   ['refine', [i, ...] | None]     geo.refine(columns)           (None = all columns)
#   ['move', i, fx, fy]             node i moved by (fx, fy)/8 of the shortest edge at it; the touching columns get
#                                   centre = centroid and get_area(), exactly as mulgrid.optimize() finishes
#   ['swap', i, j]                  columns i and j deleted and re-added with each other's name (i == j: same name),
#                                   missing connections re-added as refine() does
#   ['surface', i, spec]            column surface changed, set_column_num_layers
#   ['rotate', angle] / ['translate', [dx, dy, dz]]
# Every conversion in the history is judged by the independent exact oracle on the state the object has at that moment,
# and additionally against the conversion of a FRESH object rebuilt from that state through the public constructors.

SEQ_MAX_COLS = 150


def gen_seq_base(rng):
    if rng.random() < 0.6:
        rec = gen_rect(rng)
        rec['dx'], rec['dy'], rec['dz'] = rec['dx'][:3], rec['dy'][:3], rec['dz'][:3]
        if len(rec['dx']) * len(rec['dy']) < 2:
            rec['dx'] = rec['dx'] + [gen_spacing(rng)]
        rec['surf'] = gen_surfaces(rng, len(rec['dx']) * len(rec['dy']), len(rec['dz']))
        rec.update({'chars': None, 'stale': None})
    else:
        rec = gen_shipped(rng)
        rec['ncols'] = min(rec['ncols'], 12)
        rec['nlay'] = min(rec['nlay'], 3)
        if rec['surf'] is not None:
            rec['surf'] = gen_surfaces(rng, rec['ncols'], rec['nlay'])
    rec['map'] = None
    return rec


def gen_edit(rng, kind=None):
    kind = kind or rng.choice(['refine', 'refine', 'move', 'move', 'swap', 'surface', 'rotate', 'translate'])
    if kind == 'refine':
        return ['refine', None if rng.random() < 0.5 else [rng.randrange(1000) for _ in range(rng.randint(1, 3))]]
    if kind == 'move':
        return ['move', rng.randrange(1000), rng.choice([-2, -1, 1, 2]), rng.choice([-2, -1, 0, 1, 2])]
    if kind == 'swap':
        i = rng.randrange(1000)
        return ['swap', i, i if rng.random() < 0.3 else rng.randrange(1000)]
    if kind == 'surface':
        return ['surface', rng.randrange(1000), ['in', rng.randint(1, 3), rng.choice([0, 1, 2, 3, 4])]]
    if kind == 'rotate':
        return ['rotate', rng.choice([90, 180, 270, 30, 45, -60])]
    return ['translate', [rng.randint(-400, 400) / 4.0, rng.randint(-400, 400) / 4.0, rng.randint(-40, 40) / 4.0]]


def gen_seq(rng):
    base = gen_seq_base(rng)
    r = rng.random()
    if r < 0.2:       # convert, refine, refine again, convert (freed names are taken again by the second refinement)
        edits = [gen_edit(rng, 'refine'), gen_edit(rng, 'refine')]
    elif r < 0.4:     # convert, node moves as in optimize(), convert
        edits = [gen_edit(rng, 'move') for _ in range(rng.randint(1, 3))]
    elif r < 0.5:     # convert, delete + re-add columns re-using names, convert
        edits = [gen_edit(rng, 'swap') for _ in range(rng.randint(1, 2))]
    else:
        edits = [gen_edit(rng) for _ in range(rng.randint(1, 5))]
    steps = [['convert']] if rng.random() < 0.9 else []
    for e in edits:
        steps.append(e)
        if rng.random() < 0.35:
            steps.append(['convert'])
    if steps[-1] != ['convert']:
        steps.append(['convert'])
    return {'gen': 'seq', 'base': base, 'steps': steps}


def refresh(geo):
    geo.setup_block_name_index()
    geo.setup_block_connection_name_index()


def apply_step(geo, step):
    """one edit on the same object; returns a short tag of what happened (deterministic given the object's state)"""
    import mulgrids, numpy as np
    kind = step[0]
    nc = geo.num_columns
    if kind == 'refine':
        cols = [] if step[1] is None else [geo.columnlist[i % nc] for i in sorted(set(k % nc for k in step[1]))]
        if (4 * nc if step[1] is None else nc + 12 * len(cols)) > SEQ_MAX_COLS:
            return 'refine-skipped(size)'
        if not all(c.num_nodes in (3, 4) for c in geo.columnlist):
            return 'refine-skipped(polygons)'     # refine() supports 3- and 4-sided columns only (C11's business)
        geo.refine(cols)
        return 'refine-all' if step[1] is None else 'refine-some'
    if kind == 'move':
        nd = geo.nodelist[step[1] % geo.num_nodes]
        cols = list(nd.column)
        m = None
        for c in cols:
            k = c.node.index(nd)
            for other in (c.node[k - 1], c.node[(k + 1) % c.num_nodes]):
                d = float(np.linalg.norm(other.pos - nd.pos))
                m = d if m is None else min(m, d)
        if not m:
            return 'move-skipped'
        old = (nd.pos, [(c, c.centre, c.area) for c in cols])
        nd.pos = nd.pos + np.array([step[2] * m / 8.0, step[3] * m / 8.0])
        for c in cols:
            c.centre = c.centroid
            c.get_area()
        if not all(c.area > 1e-3 * m * m and c.contains_point(c.centre) for c in cols):
            nd.pos = old[0]                       # the move would turn a column inside out: not a valid geometry; undo
            for c, centre, area in old[1]:
                c.centre, c.area = centre, area
            return 'move-undone'
        return 'move'
    if kind == 'swap':
        a, b = geo.columnlist[step[1] % nc], geo.columnlist[step[2] % nc]
        pair = [a] if a is b else [a, b]
        saved = [(c.name, list(c.node), c.surface) for c in pair]
        for c in pair:
            geo.delete_column(c.name)
        names = [s[0] for s in saved][::-1]
        for name, (_, nodes, surface) in zip(names, saved):
            geo.add_column(mulgrids.column(name, nodes, surface=surface))
            geo.set_column_num_layers(geo.columnlist[-1])
        for con in sorted(geo.missing_connections, key=lambda k: tuple(c.name for c in k.column)):
            geo.add_connection(con)
        geo.identify_neighbours()
        refresh(geo)
        return 'readd-same-name' if a is b else 'readd-swapped-names'
    if kind == 'surface':
        col = geo.columnlist[step[1] % nc]
        col.surface = surface_value(geo, step[2])
        geo.set_column_num_layers(col)
        refresh(geo)
        return 'surface'
    if kind == 'rotate':
        geo.rotate(step[1], np.zeros(2))
        return 'rotate'
    if kind == 'translate':
        geo.translate(np.array(step[1]))
        refresh(geo)
        return 'translate'
    raise ValueError('unknown step %r' % (step,))


def rebuild_fresh(geo):
    """a new mulgrid object with the state `geo` has now, through the public constructors (as mulgrid.read does)"""
    import mulgrids, numpy as np
    g = mulgrids.mulgrid(convention=geo.convention, atmos_type=geo.atmosphere_type, atmos_volume=geo.atmosphere_volume,
                         atmos_connection=geo.atmosphere_connection, permeability_angle=geo.permeability_angle,
                         block_order=geo.block_order)
    g.gdcx, g.gdcy = geo.gdcx, geo.gdcy
    for n in geo.nodelist:
        g.add_node(mulgrids.node(n.name, np.array(n.pos, dtype=float)))
    for c in geo.columnlist:
        g.add_column(mulgrids.column(c.name, [g.node[n.name] for n in c.node], np.array(c.centre, dtype=float), float(c.surface)))
    for con in geo.connectionlist:
        g.add_connection(mulgrids.connection([g.column[c.name] for c in con.column]))
    for lay in geo.layerlist:
        g.add_layer(mulgrids.layer(lay.name, lay.bottom, lay.centre, lay.top))
    for col in g.columnlist:
        g.set_column_num_layers(col)
    g.identify_neighbours()
    refresh(g)
    return g


def fresh_differences(geo, real, rec):
    """the same-object conversion against the conversion of a fresh object with the same state; only quantities the
    property fixes (names and order, volumes, areas, distances; gravity cosines of an untilted geometry)"""
    with quiet():
        g = rebuild_fresh(geo)
    if [c.name for c in g.columnlist] != [c.name for c in geo.columnlist] or len(g.connectionlist) != len(geo.connectionlist):
        return []       # the rebuild did not reproduce the state (duplicate names ...): nothing to compare with
    fresh = run_real(g, {})
    if fresh[0] != real[0]:
        return [dict(key='sequence-vs-fresh', case=rec,
                     what='fromgeo on the edited object: %s, on a fresh object with the same state: %s'
                          % (real[1] if real[0] == 'exc' else 'ok', fresh[1] if fresh[0] == 'exc' else 'ok'))]
    if real[0] == 'exc':
        return []
    (B, K), (fB, fK) = observe(real[1]), observe(fresh[1])

    def bad(what):
        return [dict(key='sequence-vs-fresh', case=rec, what=what + ' (same state, fresh mulgrid object)')]
    if [b[0] for b in B] != [b[0] for b in fB]:
        return bad('block names/order differ from those of a fresh conversion: %r vs %r' % ([b[0] for b in B][:6], [b[0] for b in fB][:6]))
    if [k[0] for k in K] != [k[0] for k in fK]:
        return bad('connection names/order differ from those of a fresh conversion: %r vs %r' % ([k[0] for k in K][:4], [k[0] for k in fK][:4]))
    for (n, v, c, atm), (_, fv, fc, fatm) in zip(B, fB):
        if (v is None) != (fv is None) or (v is not None and not close(v, fv)):
            return bad('volume of block %r is %r, fresh conversion gives %r' % (n, v, fv))
    untilt = untilted(geo)
    for (nm, d, dist, area, dc), (_, fd, fdist, farea, fdc) in zip(K, fK):
        if not close(area, farea, RTOL, 1e-12):
            return bad('area of connection %r is %r, fresh conversion gives %r' % (nm, area, farea))
        if not (close(dist[0], fdist[0], RTOL, 1e-12) and close(dist[1], fdist[1], RTOL, 1e-12)):
            return bad('distances of connection %r are %r, fresh conversion gives %r' % (nm, dist, fdist))
        if untilt and not (math.isnan(dc) and math.isnan(fdc)) and not close(dc, fdc, RTOL, CTOL):
            return bad('gravity cosine of connection %r is %r, fresh conversion gives %r' % (nm, dc, fdc))
    return []


def run_sequence(rec, res=None):
    """replays a sequence case on one object; returns the violations of the first conversion that breaks the property"""
    base = dict(rec['base'])
    with quiet():
        geo, _, _ = build(base)
    tags, nconv = [], 0
    for i, step in enumerate(rec['steps']):
        if step[0] != 'convert':
            try:
                with quiet():
                    tags.append(apply_step(geo, step))
            except Exception as e:
                # the edit itself failed (naming convention exhausted ...): that is C10/C11's business, and the object
                # may be half edited - not a valid geometry any more
                tags.append('%s-raised:%s' % (step[0], type(e).__name__))
                break
            continue
        nconv += 1
        if not geo_valid(geo):
            break
        real = run_real(geo, {})
        v = oracle(geo, {}, real, True, rec)
        if not v:
            v = fresh_differences(geo, real, rec)
        if v:
            hist = ' -> '.join(['convert' if s[0] == 'convert' else s[0] for s in rec['steps'][:i + 1]])
            for x in v:
                x['what'] = 'after the history [%s] on one mulgrid object: %s' % (hist, x['what'])
                if not x['key'].startswith('sequence-'):
                    x['key'] = 'sequence:' + x['key']
            if res is not None:
                for t in tags: res.count('seq-step:' + t)
            return v, tags, nconv
    if res is not None:
        for t in tags: res.count('seq-step:' + t)
    return [], tags, nconv


def describe_seq(rec):
    return 'sequence on %s: %s' % (describe(rec['base']), ' '.join(s[0] for s in rec['steps']))


def run_sequences(ctx, res, scale=1.0):
    rng = ctx.rng('sequence')
    facet = res.facet('sequence')
    n = max(1, int(ctx.n(60, 800) * scale))
    for _ in range(n):
        rec = gen_seq(rng)
        v, tags, nconv = run_sequence(rec, res)
        facet['cases'] += 1
        res.evaluations += nconv
        res.count('sequence cases')
        res.count('sequence conversions judged', nconv)
        res.count('seq-base:' + (rec['base']['gen'] if rec['base']['gen'] == 'rect' else rec['base']['file']))
        res.violations += v


# ------------------------------------------------------------------ measured reach (thorough tier)

EVIDENCE_EXTRA = {}


def anchored_functions():
    import t2grids, mulgrids, geometry
    G, M = t2grids.t2grid, mulgrids.mulgrid
    return [G.fromgeo, G.add_blocks, G.add_atmosphereblocks, G.add_underground_blocks, G.add_connections,
            G.add_vertical_layer_connections, G.add_horizontal_layer_connections, G.add_block, G.add_connection,
            M.block_surface, M.block_volume, M.block_centre, M.connection_params, M.get_tilt_vector, M.block_name,
            M.setup_block_name_index, M.block_name_list_layer_column, M.block_name_list_dmplex,
            M.setup_block_connection_name_index, M.column_name, M.layer_name, mulgrids.fix_blockname,
            geometry.polygon_area, geometry.line_projection]


def measure_reach(thunk, functions):
    """run thunk() under `coverage` and report, for the anchored functions, which body lines it executed"""
    import coverage, inspect
    files = sorted(set(inspect.getsourcefile(f) for f in functions))
    cov = coverage.Coverage(data_file=None, include=files)
    cov.start()
    try:
        thunk()
    finally:
        cov.stop()
    per, tot, hit, missing_all = {}, 0, 0, []
    for f in functions:
        src, start = inspect.getsourcelines(f)
        fn = inspect.getsourcefile(f)
        _, executable, _, missing, _ = cov.analysis2(fn)
        body = range(start + 1, start + len(src))
        ex = [l for l in executable if l in body]
        ms = [l for l in missing if l in body]
        per[f.__qualname__] = '%d/%d' % (len(ex) - len(ms), len(ex)) + (' missing lines %s' % ms if ms else '')
        tot += len(ex); hit += len(ex) - len(ms)
        missing_all += ['%s:%d' % (fn.split('/')[-1], l) for l in ms]
    return {'lines_executed': hit, 'lines_total': tot, 'fraction': round(hit / max(tot, 1), 4), 'per_function': per,
            'unexecuted_lines': missing_all}


# ------------------------------------------------------------------ run

def nontrivial(geo, blockmap):
    ll = geo.layerlist
    return any(c.surface != ll[0].bottom for c in geo.columnlist) or bool(blockmap)


def gen_cases(ctx, rng, scale=1.0):
    n_rect = int(ctx.n(110, 2500) * scale)
    n_ship = int(ctx.n(45, 1200) * scale)
    cases = []
    for i in range(n_rect):
        cases.append(gen_rect(rng, big=(i % 10 == 0)))
    for i in range(n_ship):
        cases.append(gen_shipped(rng))
    cases.append(gen_shipped(rng, whole='g7.dat'))
    # the shipped geometries as they are: property oracle on the whole grid (up to 29 000 blocks / 80 000 connections);
    # the Lean model's quadratic add_block/add_connection makes whole files slow, so only g5 goes through it (thorough)
    for name in (['g1.dat', 'g3.dat', 'g5.dat', 'g6.dat'] if ctx.quick else SHIPPED[:6]):
        rec = gen_shipped(rng, whole=name)
        rec.update({'atm': None, 'order': None, 'surf': None, 'angle': 0, 'shift': None, 'perm': None, 'tilt': None, 'map': None,
                    'nomodel': not (name == 'g5.dat' and not ctx.quick)})
        cases.append(rec)
    return cases


def describe(rec):
    if rec['gen'] == 'rect':
        return 'rect %dx%dx%d conv %d atm %d order %s angle %s map %s' % (len(rec['dx']), len(rec['dy']), len(rec['dz']), rec['conv'], rec['atm'],
                                                                         rec['order'], rec['angle'], bool(rec['map']))
    return '%s patch %d cols %d layers atm %s refine %s angle %s map %s' % (rec['file'], rec['ncols'], rec['nlay'], rec['atm'], bool(rec['refine']),
                                                                         rec['angle'], bool(rec['map']))


def run(ctx, scale=1.0, oracle_only=False):
    res = Result()
    res.rule = ('cases = geometries built with the real constructors (rectangular with dyadic spacings/origins; connected patches of the 7 shipped '
                'irregular geometries rebuilt column by column, some refined with the real refine(); all g7.dat) x conventions x atmosphere types x '
                'block orders x permeability angles x rotation/translation x tilt x block maps, column surfaces on a lattice from below the bottom '
                'layer to above the top; non-trivial = distinct request lines with at least one non-default column surface or a non-empty block map; '
                'facet sequence (oracle only): edit histories (refine / node move + centre and area update / delete and re-add columns under '
                're-used names / surface change / rotate / translate) with fromgeo called on the SAME mulgrid object before and between the edits, '
                'every conversion judged by the exact oracle and against a fresh object rebuilt from the same state')
    rng = ctx.rng('fromgeo')
    cases = gen_cases(ctx, rng, scale)
    facet = res.facet('fromgeo')
    built, lines, modelled = [], [], []
    for rec in cases:
        geo, blockmap, injective = build(rec)
        real = run_real(geo, blockmap)
        built.append((rec, geo, blockmap, injective, real))
        res.evaluations += 1
        res.count('gen:' + (rec['gen'] if rec['gen'] == 'rect' else rec['file']))
        res.count('atm:%d' % geo.atmosphere_type)
        res.count('conv:%d' % geo.convention)
        res.count('order:%s' % geo.block_order)
        res.count('blockmap:' + ('none' if not blockmap else 'injective' if injective else 'colliding'))
        res.count('rotation:%s' % rec['angle'])
        res.count('tilt:' + ('untilted' if untilted(geo) else 'tilted'))
        res.count('in-quantifier:' + ('no (digit name alphabet)' if rec.get('chars') else 'no (stale name cache)' if rec.get('stale') else
                                      'no (colliding block map)' if not injective else 'yes'))
        res.count('outcome:' + (real[0] if real[0] == 'ok' else real[1]))
        ll = geo.layerlist
        for c in geo.columnlist:
            s = c.surface
            k = ('above-top' if s > ll[0].bottom else 'default' if s == ll[0].bottom else 'below-bottom' if s <= ll[-1].bottom else
                 'at-layer-boundary' if any(s == l.bottom for l in ll) else 'inside-layer')
            res.count('surface:' + k)
        if real[0] == 'ok':
            res.count('blocks', len(real[1].blocklist))
            res.count('connections', len(real[1].connectionlist))
        res.violations += oracle(geo, blockmap, real, injective, rec)
        if not oracle_only and ctx.model_ok and not rec.get('nomodel'):
            lines.append(encode(geo, blockmap))
            modelled.append(built[-1])
        elif rec.get('nomodel'):
            res.count('oracle-only whole file')
            built[-1] = (rec, None, None, injective, None)      # free the big grid
    if not oracle_only and ctx.model_ok:
        replies = core.run_driver('drv_c04', lines)
        for (rec, geo, blockmap, injective, real), line, rep in zip(modelled, lines, replies):
            facet['cases'] += 1
            r = decode(rep)
            if r.raw is not None:
                raise RuntimeError('driver reply: ' + r.raw[:200])
            res.count('model-tilt:' + ('exact' if r.tilt_exact else 'irrational (real tilt vector used)'))
            diffs = compare(geo, blockmap, real, r, res, stale=bool(rec.get('stale')))
            for name, ok in zip(HYPS, r.hyp):
                h = res.hyp.setdefault(name, [0, 0])
                h[0] += 1 if ok else 0
                h[1] += 1
            if diffs:
                facet['disagreements'] += 1
                res.disagreements.append(dict(facet='fromgeo', case=rec, model=diffs[0][:300], impl='(see model field: first difference)'))
            if nontrivial(geo, blockmap):
                res.distinct.add(hash(line))
            if facet['cases'] % 23 == 1:
                res.sample({'case': describe(rec), 'blocks': len(real[1].blocklist) if real[0] == 'ok' else real[1],
                            'connections': len(real[1].connectionlist) if real[0] == 'ok' else None, 'agree': not diffs})
    else:
        for rec, geo, blockmap, injective, real in built[:6]:
            res.sample({'case': describe(rec)})
    run_sequences(ctx, res, scale)
    if not ctx.quick and not oracle_only:
        sub = [c for c in cases if not c.get('whole')][:150]

        def thunk():
            for rec in sub:
                geo, blockmap, injective = build(rec)
                run_real(geo, blockmap)
        EVIDENCE_EXTRA['measured_reach'] = measure_reach(thunk, anchored_functions())
    return res


def search(ctx, seconds, res):
    found = list(res.violations)
    t0 = time.time()
    k = 0
    while not found and time.time() - t0 < seconds:
        k += 1
        c2 = core.Ctx(ctx.prop, ctx.tier, ctx.seed + 1000 * k)
        try:
            r = run(c2, scale=0.5, oracle_only=True)
        finally:
            c2.cleanup()
        found = r.violations
    return found


def replay(ctx, payload):
    rec = payload.get('case')
    if not isinstance(rec, dict) or 'gen' not in rec:
        return False, 'replay file names what no longer checks: %s' % payload.get('broken')
    if rec['gen'] == 'seq':
        v, tags, nconv = run_sequence(rec)
        return bool(v), describe_seq(rec) + ' -> ' + (v[0]['what'] if v else 'property holds at each of the %d conversions' % nconv)
    geo, blockmap, injective = build(rec)
    real = run_real(geo, blockmap)
    v = oracle(geo, blockmap, real, injective, rec)
    txt = describe(rec) + ' -> ' + (v[0]['what'] if v else 'property holds')
    return bool(v), txt
