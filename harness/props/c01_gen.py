"""C01 support: generator of data-object specs and write/read configurations.

Every random choice comes from the rng handed in (seeded by VERIF_SEED through ctx.rng).
Values are drawn so that they *fit their fields* (the property's quantifier): names have the width of
their field, integers fit the I-field, reals are arbitrary doubles in a range whose exponent fits.
"""
import math
from props.c01_objs import SECTIONS, XP_SECTIONS, norm_name

KEYWORDS = set(SECTIONS) | {'ENDCY', 'ENDFI', 'MESHM'}
LENS = [0, 1, 3, 4, 5, 7, 8, 9, 12, 16, 17]
ALNUM = 'ABCDEFGHIJKLMNOPQRSTUVWXYZabcdefghijklmnopqrstuvwxyz0123456789'


def pick_len(rng, lo, hi):
    c = [n for n in LENS if lo <= n <= hi]
    return rng.choice(c) if c and rng.random() < 0.85 else rng.randint(lo, hi)


def gen_real(rng, p=4, kind=None):
    """a double; kind: 'pos' (> 0), 'frac' (in [-1, 1]), 'any'"""
    kind = kind or 'any'
    if kind == 'frac':
        c = rng.random()
        if c < 0.2: return rng.choice([0.0, 1.0, -1.0, 0.5, -0.5])
        return round(rng.uniform(-1, 1), rng.choice([1, 3, 7, 9, 12]))
    c = rng.random()
    if c < 0.08:
        return 0.0
    nd = rng.choice([1, 2, p, p + 1, p + 1, p + 2, p + 5, 17])
    mant = rng.randint(10 ** (nd - 1), 10 ** nd - 1) if nd > 1 else rng.randint(1, 9)
    if rng.random() < 0.15:
        mant = int('9' * nd)                       # carries on rounding
    e = rng.choice([0, 0, 1, 2, 3, 5, -1, -3, -5, -12, -15, 9, 10, 25, rng.randint(-30, 30)])
    if rng.random() < 0.04:
        # three-digit exponents are written with reduced precision; a mantissa that rounds across the
        # power of ten there would change the width of its own text (outside "fits its field")
        e = rng.choice([99, 100, 101, -99, -100, -101, 150, -150])
        mant = int(str(mant).replace('9', '4'))
    x = float('%de%d' % (mant, e - nd + 1))
    if kind == 'any' and rng.random() < 0.2:
        x = -x
    return x


def opt(rng, v, pnone=0.25):
    return None if rng.random() < pnone else v


def gen_int(rng, w, lo=0):
    hi = 10 ** w - 1
    c = rng.random()
    if c < 0.3: return rng.randint(lo, min(hi, 9))
    if c < 0.4: return hi
    if c < 0.5 and w >= 2: return 10 ** (w - 1)
    return rng.randint(lo, hi)


def gen_block_name(rng):
    while True:
        style = rng.random()
        a = ''.join(rng.choice(ALNUM) for _ in range(3))
        if style < 0.35:
            n = a + '%2d' % rng.randint(0, 99)
        elif style < 0.55:
            n = a + '%02d' % rng.randint(0, 99)
        elif style < 0.7:
            n = rng.choice([' ', a[0]]) + rng.choice(ALNUM) + rng.choice('0123456789') + rng.choice([' ', '0']) + rng.choice('0123456789')
        elif style < 0.85:
            n = a + ''.join(rng.choice(ALNUM) for _ in range(2))
        else:
            n = rng.choice([' ', a[0]]) + rng.choice([' ', a[1]]) + a[2] + rng.choice([' ', '1']) + rng.choice('0123456789')
        if n.strip() and n not in KEYWORDS and not n.startswith('+++') and len(n) == 5:
            return n


def gen_names(rng, n, maker, key=lambda x: x):
    out, seen = [], set()
    while len(out) < n:
        x = maker(rng)
        if key(x) in seen or key(x).strip() != key(x).strip('\n'):
            continue
        seen.add(key(x))
        out.append(x)
    return out


def gen_rock_name(rng):
    while True:
        c = rng.random()
        if c < 0.7:
            n = ''.join(rng.choice(ALNUM[:52]) for _ in range(5))
        elif c < 0.85:
            n = ''.join(rng.choice(ALNUM) for _ in range(4)) + ' '
        else:
            n = ' ' + ''.join(rng.choice(ALNUM) for _ in range(4))
        if n not in KEYWORDS and n.strip() and not n.strip().isdigit():
            return n


def gen_rp(rng, p=3):
    n = rng.choice([0, 1, 3, 4, 6, 7, 7])
    return {'type': opt(rng, gen_int(rng, 2), 0.1), 'parameters': [gen_real(rng, p, 'pos') if rng.random() > 0.1 or i == n - 1 else None for i in range(n)]}


def gen_spec(rng, cfg):
    """cfg: dict(flavour, mesh, xp, echo) -> spec"""
    autough2 = cfg['flavour'] == 'AUTOUGH2'
    binary = cfg['mesh'] == 'binary'
    infile_mesh = cfg['mesh'] == 'in'
    want = lambda p=0.5: rng.random() < p
    s = {}
    s['title'] = rng.choice(['', 'test problem', '  padded title  ', '*r1q* --- 1-D radial', 'x' * 80, 'PARAM is a word'])
    s['simulator'] = rng.choice(['AUTOUGH2.2EW', 'AUTOUGH2.2EWAV', 'AUTOUGH2']) if autough2 else ''
    s['end_keyword'] = rng.choice(['ENDCY', 'ENDCY', 'ENDFI'])

    # --- rocks
    nr = pick_len(rng, 0, 5) if not binary else pick_len(rng, 1, 5)
    nb = 0
    if nr > 0:
        nb = pick_len(rng, 0, 9) if not binary else pick_len(rng, 1, 9)
    rocks = []
    for name in gen_names(rng, nr, gen_rock_name):
        nad = rng.choice([None, 0, 1, 2, 2, 3])
        r = {'name': name, 'nad': nad, 'density': gen_real(rng, 4, 'pos'), 'porosity': opt(rng, gen_real(rng, 4, 'pos'), 0.1),
             'permeability': [gen_real(rng, 4) for _ in range(3)], 'conductivity': gen_real(rng, 4), 'specific_heat': opt(rng, gen_real(rng, 4), 0.1)}
        if (nad or 0) >= 1:
            for k in ('compressibility', 'expansivity', 'dry_conductivity', 'tortuosity'):
                r[k] = gen_real(rng, 4)
            for k in ('klinkenberg', 'xkd3', 'xkd4'):
                if want(0.3): r[k] = gen_real(rng, 4)
        if (nad or 0) >= 2:
            r['rp'], r['cp'] = gen_rp(rng), gen_rp(rng)
            if r['rp']['type'] is None: r['rp']['type'] = 1
            if r['cp']['type'] is None: r['cp']['type'] = 1
        else:
            r['rp'], r['cp'] = {}, {}
        rocks.append(r)
    s['rocks'] = rocks

    # --- parameters
    p = {}
    for k, w in (('max_iterations', 2), ('print_level', 2), ('max_timesteps', 4), ('max_duration', 4), ('print_interval', 4)):
        if want(0.6): p[k] = gen_int(rng, w)
    for k in ('texp', 'be') + (('diff0',) if autough2 else ()):
        if want(0.3): p[k] = gen_real(rng, 3)
    if want(0.7): p['tstart'] = gen_real(rng, 3, 'pos')
    if want(0.6): p['tstop'] = gen_real(rng, 3, 'pos')
    if want(0.5): p['max_timestep'] = gen_real(rng, 3, 'pos')
    if want(0.7): p['gravity'] = rng.choice([9.81, 9.8065, 0.0, gen_real(rng, 4)])
    for k in ('timestep_reduction', 'scale', 'relative_error', 'absolute_error', 'pivot', 'upstream_weight', 'newton_weight', 'derivative_increment'):
        if want(0.35): p[k] = gen_real(rng, 4, 'pos')
    c = rng.random()
    if c < 0.45:
        p['const_timestep'] = gen_real(rng, 3, 'pos')
    elif c < 0.85:
        k = rng.choice([1, 1, 2, 3])
        p['const_timestep'] = float(-k)
        n = rng.choice([x for x in (1, 3, 7, 8, 9, 12, 15, 16, 17, 24) if 8 * (k - 1) < x <= 8 * k])
        p['timestep'] = [gen_real(rng, 4, 'pos') for _ in range(n)]
    opts = [0] * 25
    if want(0.8):
        for i in range(1, 25):
            if want(0.4): opts[i] = rng.randint(0, 9)
    p['option'] = opts
    ndi = rng.choice([0, 0, 1, 2, 3, 4, 4, 5, 7, 8, 9, 12])
    p['default_incons'] = [gen_real(rng, 14) for i in range(ndi)]
    s['parameter'] = p
    mo = [0] * 22
    if want(0.35):
        for i in range(1, 22):
            if want(0.4): mo[i] = rng.randint(0, 9)
    s['more_option'] = mo
    s['start'], s['noversion'] = want(0.4), want(0.3)
    if want(0.5):
        m = {}
        for k in ('num_components', 'num_equations', 'num_phases', 'num_secondary_parameters'):
            if want(0.85): m[k] = rng.randint(1, 8)
        if autough2:
            if want(0.8): m['eos'] = rng.choice(['EW', 'EWAV', 'EWC', 'EWA', 'W'])
        elif want(0.5): m['num_inc'] = rng.randint(1, 8)
        if m: s['multi'] = m
    if want(0.45):
        s['relative_permeability'], s['capillarity'] = gen_rp(rng), gen_rp(rng)
        for k in ('relative_permeability', 'capillarity'):
            if s[k]['type'] is None and want(0.5): s[k]['type'] = 3
    if want(0.35):
        l = {}
        for k, w in (('type', 2), ('max_iterations', 4), ('gauss', 1), ('num_orthog', 4)):
            if want(0.7): l[k] = gen_int(rng, w)
        if want(0.7): l['epsilon'] = gen_real(rng, 4, 'pos')
        if l: s['lineq'] = l
    if want(0.35):
        l = {}
        if want(0.8): l['type'] = rng.randint(1, 6)
        if want(0.7): l['z_precond'] = rng.choice(['Z0', 'Z1', 'Z4'])
        if want(0.7): l['o_precond'] = rng.choice(['O0', 'O2', 'O4'])
        if want(0.7): l['relative_max_iterations'] = gen_real(rng, 4, 'pos')
        if want(0.7): l['closure'] = gen_real(rng, 4, 'pos')
        if l: s['solver'] = l
    if want(0.45):
        n = pick_len(rng, 1, 17)
        ot = {'num_times_specified': n, 'time': [gen_real(rng, 4, 'pos') for _ in range(n)]}
        if want(0.6): ot['num_times'] = n + rng.choice([0, 0, 3])
        if want(0.4): ot['max_timestep'] = gen_real(rng, 4, 'pos')
        if want(0.4): ot['time_increment'] = gen_real(rng, 4, 'pos')
        s['output_times'] = ot
    if want(0.3):
        nl = rng.choice([0, 1, 1, 2, 3])
        ints = [nl] + [opt(rng, gen_int(rng, 4), 0.5) for _ in range(rng.choice([0, 3, 15, 15]))]
        nf = rng.choice([x for x in (0, 1, 7, 8, 9, 16, 17, 24) if (8 * (nl - 1) < x <= 8 * nl) or (nl == 0 and x == 0)])
        fl = [gen_real(rng, 3) if (rng.random() > 0.15 or i == nf - 1) else None for i in range(nf)]
        s['selection'] = {'integer': ints, 'float': fl}
    if 'multi' in s and 'num_components' in s['multi'] and 'num_phases' in s['multi'] and want(0.6):
        s['diffusion'] = [[gen_real(rng, 3, 'pos') for _ in range(s['multi']['num_phases'])] for _ in range(s['multi']['num_components'])]

    # --- grid
    names = gen_names(rng, nb, gen_block_name, key=norm_name)
    blocks = []
    for n in names:
        has_centre = binary or want(0.5)
        b = {'name': n, 'volume': gen_real(rng, 4, 'pos'), 'rocktype': rng.choice(rocks)['name'],
             'centre': [gen_real(rng, 3) for _ in range(3)] if has_centre else None,
             'ahtx': opt(rng, gen_real(rng, 4, 'pos'), 0.5), 'pmx': opt(rng, gen_real(rng, 4, 'pos'), 0.6),
             'nseq': None if binary else opt(rng, rng.randint(1, 99), 0.7), 'nadd': None if binary else opt(rng, rng.randint(1, 99), 0.7)}
        blocks.append(b)
    s['blocks'] = blocks
    cons, seen = [], set()
    if nb >= 2:
        for _ in range(pick_len(rng, 0, 12)):
            a, b = rng.sample(names, 2)
            if (norm_name(a), norm_name(b)) in seen: continue
            seen.add((norm_name(a), norm_name(b)))
            cons.append({'block': [a, b], 'direction': rng.randint(1, 3), 'distance': [gen_real(rng, 4, 'pos'), gen_real(rng, 4, 'pos')],
                         'area': gen_real(rng, 4, 'pos'), 'dircos': gen_real(rng, 7, 'frac'), 'sigma': opt(rng, gen_real(rng, 3, 'pos'), 0.6),
                         'nseq': None if binary else opt(rng, rng.randint(1, 99), 0.7),
                         'nad1': None if binary else opt(rng, rng.randint(1, 99), 0.7),
                         'nad2': None if binary else opt(rng, rng.randint(1, 99), 0.7)})
    s['connections'] = cons

    # --- generators
    gens = []
    gnames = set()
    for _ in range(rng.choice([0, 0, 1, 2, 4, 6])):
        blk = rng.choice(names) if (names and want(0.8)) else gen_block_name(rng)
        nm = gen_block_name(rng)
        if (norm_name(blk), norm_name(nm)) in gnames: continue
        gnames.add((norm_name(blk), norm_name(nm)))
        typ = rng.choice(['MASS', 'HEAT', 'COM1', 'COM2', 'DELV', 'DELG', 'CO2 ', 'WATE'])
        g = {'block': blk, 'name': nm, 'nseq': opt(rng, rng.randint(1, 99), 0.7), 'nadd': opt(rng, rng.randint(1, 99), 0.7),
             'nads': opt(rng, rng.randint(1, 99), 0.7), 'type': typ, 'ltab': 0, 'itab': '',
             'gx': opt(rng, gen_real(rng, 3), 0.15), 'ex': opt(rng, gen_real(rng, 3), 0.3),
             'hg': opt(rng, gen_real(rng, 3), 0.6), 'fg': opt(rng, gen_real(rng, 3), 0.7), 'time': [], 'rate': [], 'enthalpy': []}
        c = rng.random()
        if typ == 'DELV':
            g['ltab'] = rng.choice([0, 1, 2, 5])
        elif c < 0.5:
            n = pick_len(rng, 1, 12)
            if n == 0: n = 1
            g['ltab'] = n if want(0.85) else -n
            if n > 1:
                g['time'] = [gen_real(rng, 7, 'pos') for _ in range(n)]
                g['rate'] = [gen_real(rng, 7) for _ in range(n)]
                if want(0.5):
                    g['itab'] = rng.choice(['E', 'x', '1'])
                    g['enthalpy'] = [gen_real(rng, 7, 'pos') for _ in range(n)]
        elif c < 0.6:
            g['ltab'] = rng.choice([None, 1])
        gens.append(g)
    s['generators'] = gens

    # --- output selections
    if infile_mesh and nb and want(0.35):
        so = {}
        if want(0.5): so['frequency'] = rng.choice([1, 5, 10, 99])
        if want(0.7): so['block'] = [rng.choice(names) for _ in range(pick_len(rng, 0, 5))]
        if cons and want(0.6): so['connection'] = [list(rng.choice(cons)['block']) for _ in range(pick_len(rng, 0, 4))]
        if gens and want(0.6): so['generator'] = [[g['block'], g['name']] for g in rng.sample(gens, rng.randint(0, len(gens)))]
        if so: s['short_output'] = so
    if want(0.4):
        if nb and want(0.8):
            s['history_block'] = [(['obj', n] if want(0.6) else n) for n in (rng.choice(names) for _ in range(pick_len(rng, 1, 5)))]
        elif not infile_mesh or not nb:
            s['history_block'] = gen_names(rng, rng.randint(1, 3), gen_block_name)
    if cons and want(0.3):
        s['history_connection'] = [(['obj'] + list(c['block']) if want(0.6) else list(c['block'])) for c in (rng.choice(cons) for _ in range(pick_len(rng, 1, 4)))]
    if nb and want(0.3):
        s['history_generator'] = [(['obj', n] if want(0.6) else n) for n in (rng.choice(names) for _ in range(pick_len(rng, 1, 4)))]
    if nb and want(0.45):
        inc = []
        for n in rng.sample(names, rng.randint(1, nb)):
            nv = rng.choice([1, 2, 3, 4])
            full = want(0.3)
            inc.append([n, opt(rng, gen_real(rng, 9, 'pos'), 0.4), [gen_real(rng, 14) for _ in range(nv)],
                        rng.randint(1, 99) if full else None, opt(rng, rng.randint(1, 99), 0.3) if full else None, 4 if full else 2])
        s['incon'] = inc
    if want(0.25):
        rn = [r['name'] for r in rocks] or gen_names(rng, 2, gen_rock_name)
        s['indom'] = [[n, [gen_real(rng, 13) for _ in range(rng.choice([1, 2, 3, 4]))]] for n in rng.sample(rn, rng.randint(1, len(rn)))]

    # --- meshmaker
    if want(0.3):
        mm = []
        for _ in range(rng.choice([1, 1, 2, 3])):
            k = rng.choice(['rz2d', 'xyz', 'minc'])
            if k == 'rz2d':
                subs = []
                for _ in range(rng.randint(0, 4)):
                    kk = rng.choice(['radii', 'equid', 'logar'])
                    if kk == 'radii':
                        subs.append(['radii', {'radii': [gen_real(rng, 4, 'pos') for _ in range(pick_len(rng, 1, 17))]}])
                    elif kk == 'equid':
                        e = {'nequ': rng.randint(1, 999)}
                        if want(0.8): e['dr'] = gen_real(rng, 4, 'pos')
                        subs.append(['equid', e])
                    else:
                        e = {'nlog': rng.randint(1, 999)}
                        if want(0.8): e['rlog'] = gen_real(rng, 4, 'pos')
                        if want(0.5): e['dr'] = gen_real(rng, 4, 'pos')
                        subs.append(['logar', e])
                subs.append(['layer', {'layer': [gen_real(rng, 4, 'pos') for _ in range(pick_len(rng, 1, 17))]}])
                mm.append(['rz2d', subs])
            elif k == 'xyz':
                subs = [gen_real(rng, 4, 'frac') * 90]
                for _ in range(rng.randint(1, 4)):
                    no = pick_len(rng, 1, 17)
                    if want(0.5):
                        subs.append({'ntype': rng.choice(['NX', 'NY', 'NZ']), 'no': no, 'del': 0.0, 'deli': [gen_real(rng, 4, 'pos') for _ in range(no)]})
                    else:
                        d = gen_real(rng, 4, 'pos')
                        subs.append({'ntype': rng.choice(['NX', 'NY', 'NZ']), 'no': no, 'del': d if d != 0 else 1.0})
                mm.append(['xyz', subs])
            else:
                mm.append(['minc', {'type': rng.choice(['ONE-D', 'TWO-D', 'THRED', 'STANA']), 'dual': rng.choice(['MMVER', 'MMALL', '     ']),
                                    'num_continua': rng.randint(1, 20), 'where': rng.choice(['OUT ', 'IN  ', 'OUT', 'IN']),
                                    'spacing': [gen_real(rng, 4, 'pos') for _ in range(rng.choice([0, 1, 3, 7]))],
                                    'vol': [gen_real(rng, 4, 'pos') for _ in range(pick_len(rng, 1, 17))]}])
        s['meshmaker'] = mm
    return s


def fix_stable(n):
    return not (n[2].isdigit() and n[4].isdigit() and n[3] == ' ')


def gen_edits(rng, spec):
    """edits made through the public API between construction and write (cfg['edits'])"""
    ed = []
    rocks = [r['name'] for r in spec.get('rocks', [])]
    blocks = [b['name'] for b in spec.get('blocks', [])]
    cons = [list(c['block']) for c in spec.get('connections', [])]
    gens = spec.get('generators', [])
    want = lambda p: rng.random() < p
    # --- rock types
    if len(rocks) >= 2:
        if want(0.5):
            old = rng.choice(rocks)
            new = next(n for n in (gen_rock_name(rng) for _ in range(100)) if n not in rocks)
            ed.append(['rename_rock', old, new]); rocks[rocks.index(old)] = new
        if want(0.3):
            n = rng.choice(rocks); ed.append(['readd_rock', n]); rocks.remove(n); rocks.append(n)
        if want(0.6): ed.append(['sort_rocks'])
        # (with no block at all clean_rocktypes empties ROCKS: extra precision for a section without content is outside the property)
        if want(0.2) and not spec.get('indom') and blocks: ed.append(['clean_rocks'])
    # --- blocks
    if len(blocks) >= 2:
        connected = set(x for c in cons for x in c)
        if want(0.3):
            free = [b for b in blocks if b not in connected]
            if free:
                n = rng.choice(free); ed.append(['readd_block', n]); blocks.remove(n); blocks.append(n)
        if want(0.3):
            k = rng.sample(blocks, rng.randint(1, 2)); ed.append(['demote_block', k])
            for n in k: blocks.remove(n); blocks.append(n)
        if want(0.6):
            perm = list(blocks); rng.shuffle(perm); ed.append(['reorder_blocks', perm]); blocks = perm
    if len(cons) >= 2 and want(0.6):
        bare = set(tuple(x) for x in spec.get('history_connection', []) if x[0] != 'obj')
        perm = [list(c) for c in cons]; rng.shuffle(perm)
        perm = [(c[::-1] if (want(0.3) and tuple(c) not in bare and c[::-1] not in cons) else c) for c in perm]
        ed.append(['reorder_conns', perm])
    if blocks and want(0.3):
        taken = set(norm_name(b) for b in blocks) | set(norm_name(g['block']) for g in gens)
        mp = {}
        for old in rng.sample(blocks, min(len(blocks), rng.randint(1, 3))):
            if not fix_stable(old): continue
            new = next((n for n in (gen_block_name(rng) for _ in range(100)) if norm_name(n) not in taken and fix_stable(n)
                        and norm_name(n) == n), None)
            if new is None: continue
            taken.add(norm_name(new)); mp[old] = new
        if mp: ed.append(['rename_blocks', mp])
        ren = lambda n: mp.get(n, n)
    else:
        ren = lambda n: n
    # --- generators (keys after a possible block renaming)
    keys = [(ren(g['block']), g['name']) for g in gens]
    if gens and want(0.4):
        k = rng.choice(keys)
        if keys.count(k) == 1: ed.append(['readd_gen', list(k)])
    if gens and want(0.3):
        k = rng.choice(keys); ed.append(['dup_gen', list(k), gen_real(rng, 3)])
    return ed


def fix_cfg(cfg, spec):
    """an extra-precision request only names sections that have content (extra precision for an absent
    section is not a configuration of the property)"""
    if cfg.get('xp') is None: return cfg
    have = {'ROCKS': bool(spec.get('rocks')), 'ELEME': True, 'CONNE': True,
            'RPCAP': bool(spec.get('relative_permeability')), 'GENER': bool(spec.get('generators'))}
    xp = list(XP_SECTIONS) if cfg['xp'] is True else list(cfg['xp'])
    xp2 = [x for x in xp if have[x]]
    if cfg['xp'] is True and xp2 == xp: return cfg
    return dict(cfg, xp=xp2 or None, echo=(cfg['echo'] if xp2 else None))


def gen_cfg(rng):
    flavour = rng.choice(['TOUGH2', 'AUTOUGH2'])
    mesh = rng.choice(['in', 'in', 'in', 'ascii', 'binary'])
    xp, echo = None, None
    if flavour == 'AUTOUGH2' and mesh == 'in' and rng.random() < 0.5:
        c = rng.random()
        if c < 0.3: xp = True
        else:
            xp = [x for x in XP_SECTIONS if rng.random() < 0.5] or ['ROCKS']
            # the companion file is read before the main file: a section in it must not need one that is not
            if 'CONNE' in xp and 'ELEME' not in xp: xp.insert(xp.index('CONNE'), 'ELEME')
            if 'ELEME' in xp and 'ROCKS' not in xp: xp.insert(0, 'ROCKS')
        echo = rng.random() < 0.5
    return {'flavour': flavour, 'mesh': mesh, 'xp': xp, 'echo': echo, 'permute': rng.random() < 0.35, 'pseed': rng.randint(0, 10 ** 9),
            'edit': rng.random() < 0.5}
