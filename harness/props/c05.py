"""C05 — listing tables hold exactly the numbers printed in the listing file.

This module also carries the machinery shared with C06 and C07 (corpus of the 37 shipped listing
files, the independent scanner of printed tables, value-perturbed / truncated variants, the worker
pool that runs the real reader under a timeout, and the plumbing to the Lean driver `drv_c05`).

model      lean/PyTough/Model/Listing.lean      (row layer: start_of_values, key_positions, parse_table_line,
                                                 read_table_line_*, key_from_line; whole-file reader machine)
theorems   lean/PyTough/Props/C05.lean
tie        correspondence facets `listing_rows` (every printed row of the explored tables: model row layer vs the
           cells the real reader exposes) and `listing_file` (whole-file model vs real reader, every table)
oracle     an independent tokenizer of the printed rows (regular expressions for Fortran reals, keys in fixed
           columns) vs the tables the real reader exposes; skip-table independence; addressing agreement
"""
import os, re, sys, json, time, struct, hashlib, traceback, itertools
import multiprocessing as mp
from multiprocessing.connection import wait as mp_wait
from pathlib import Path
from collections import Counter
import core
from core import Result, hexs

ID = 'C05'
MODULE = 'PyTough.Props.C05'
TARGETS = ['PyTough.Props.C05', 'drv_c05']

# ====================================================================== corpus

FAMILIES = ['AUTOUGH2', 'TOUGH2', 'TOUGH2-MP', 'TOUGH3', 'TOUGHREACT', 'TOUGHplus']


def listing_base():
    return core.REPO / 'tests' / 'listing'


def corpus():
    """the shipped listing files: [(relative path, family)], editor backups (`~`) and .npy reference arrays excluded"""
    base = listing_base()
    out = []
    for r, d, fs in os.walk(base):
        for x in fs:
            if x.endswith('.npy') or x.endswith('~'):
                continue
            p = Path(r) / x
            rel = str(p.relative_to(base))
            out.append((rel, rel.split('/')[0]))
    out.sort()
    return out


# ====================================================================== independent scanner of printed tables
#
# Nothing below uses /repo.  A printed row is recognised by its shape alone: key names in fixed
# 5-character columns, an integer index, then nothing but numbers up to the end of the line.

ESTYLE = r'[-+]?\d?\.\d+(?:[EeDd][-+]\d\d|[-+]\d\d\d)'      # 0.12345E+05  -.12345E+05  1.2345E+05  0.12345-105
ESTYLE3 = r'[-+]?\d?\.\d+[EeDd][-+]\d\d\d(?![\d.])'          # 0.1234E+105 (three exponent digits after the letter)
FSTYLE = r'[-+]?\d+\.\d*|[-+]?\.\d+'                         # 45.0000  834.23
E_RE = re.compile('(?:%s)|(?:%s)' % (ESTYLE3, ESTYLE))
F_RE = re.compile(FSTYLE)
TOK = re.compile(r'(?:%s)|(?:%s)|(?:%s)|[-+]?\d+|\*+|NaN|[-+]?Infinity' % (ESTYLE3, ESTYLE, FSTYLE))
NUM_PARTS = re.compile(r'^([-+]?)(\d*)\.(\d*)(?:([EeDd])([-+]?)(\d+)|([-+])(\d+))?$')
FLAGS = ' *+'


def split_lines(data):
    """lines as a binary readline() sees them: split on \\n only, decoded latin-1, terminator kept off"""
    ls = data.decode('latin-1').split('\n')
    if ls and ls[-1] == '':
        ls.pop()
    return ls


def printed_value(text):
    """value of a printed Fortran number (independent of fixed_format_file.fortran_float); None if not a number"""
    m = NUM_PARTS.match(text)
    if not m:
        if re.match(r'^[-+]?\d+$', text):
            return float(int(text))
        return None
    sign, ip, fp, letter, es1, ed1, es2, ed2 = m.groups()
    if ip == '' and fp == '':
        return None
    e = 0
    if letter:
        e = int(ed1) * (-1 if es1 == '-' else 1)
    elif es2:
        e = int(ed2) * (-1 if es2 == '-' else 1)
    return float('%s%s.%se%d' % ('-' if sign == '-' else '', ip or '0', fp or '0', e))


def first_value(body):
    """start of the leftmost printed real number.  A Fortran E-style number (at most one digit before the
    point) wins over an F-style reading that would swallow the digits of an index printed right against it."""
    me = E_RE.search(body, 1)
    mf = F_RE.search(body, 1)
    if me and mf:
        if mf.start() < me.start() and mf.end() > me.start():
            return me.start()
        return min(me.start(), mf.start())
    if me: return me.start()
    if mf: return mf.start()
    return None


def tokenise_row(line, has_i):
    """(prefix, first, tokens, index start) of a printed row, or None when the line is not a row"""
    body = line.rstrip('\r\n')
    first = first_value(body)
    if first is None:
        return None
    toks = []
    pos = first
    while pos < len(body):
        if body[pos] == ' ':
            pos += 1
            continue
        mm = TOK.match(body, pos)
        if not mm or mm.end() == pos:
            return None
        toks.append((mm.group(0), mm.start(), mm.end()))
        pos = mm.end()
    prefix = body[:first]
    if has_i:                                   # ECO2M: an integer phase index is the first column
        mi = re.search(r'(\d+)\s*$', prefix)
        if not mi:
            return None
        toks.insert(0, (mi.group(1), mi.start(1), mi.end(1)))
        prefix = prefix[:mi.start(1)]
    mi = re.search(r'(\d+|\*+)\s*$', prefix)
    if not mi:
        return None
    return prefix, first, toks, mi.start(1)


class Tab:
    """one printed table at one result time"""
    def __init__(self, kind, nkeys, has_i, hline, words):
        self.kind, self.nkeys, self.has_i, self.hline, self.words = kind, nkeys, has_i, hline, words
        self.raw = []       # (lineno, prefix, first, toks, idxstart)
        self.rows = []      # (lineno, keys, idx text, toks)
        self.name = None
        self.kpos = None

    def finish(self):
        """keys sit in fixed columns; an index that grows into the key field can only make the key area look
        shorter, so the true end of the key area is the largest one seen"""
        if not self.raw:
            return
        kend = max(len(prefix[:ist].rstrip(FLAGS)) for (ln, prefix, first, toks, ist) in self.raw)
        kpos = [kend - 5]
        if self.nkeys == 2:
            k1 = max(len(prefix[:kend - 5].rstrip(FLAGS)) for (ln, prefix, first, toks, ist) in self.raw)
            kpos = [k1 - 5, kend - 5]
        self.kpos = kpos
        for (ln, prefix, first, toks, ist) in self.raw:
            keys = tuple(prefix[k:k + 5] if k >= 0 else '' for k in kpos)
            idx = prefix[kend:].strip(FLAGS)
            self.rows.append((ln, keys, idx, toks))


def header_info(line):
    w = line.split()
    if len(w) < 3 or not w[0].lstrip('\f01').startswith('ELEM'):
        return None
    if w[1] in ('INDEX', 'IND.'): nkeys = 1
    elif w[2] in ('INDEX', 'IND.'): nkeys = 2
    else: return None
    words = w[nkeys + 1:]
    if nkeys == 2:
        kind = 'generation' if w[1] == 'SOURCE' else 'connection'
    elif words and words[0] == 'X1': kind = 'primary'
    else: kind = 'element'
    has_i = bool(words) and words[0] == 'I'
    return kind, nkeys, has_i, words


def scan_region(lines, lo, hi):
    """tables printed between lines lo and hi"""
    tabs = []
    cur = None
    state = None
    skipped = blanks = 0
    for i in range(lo, hi):
        line = lines[i]
        h = header_info(line)
        if h:
            if cur is not None and state is not None and h[3] == cur.words and h[0] == cur.kind:
                state = 'hdr'; skipped = 0          # the column header repeated inside a long table
                continue
            cur = Tab(h[0], h[1], h[2], i, h[3])
            tabs.append(cur)
            state = 'hdr'; skipped = 0; blanks = 0
            continue
        if cur is None or state is None:
            continue
        r = tokenise_row(line, cur.has_i)
        if r:
            cur.raw.append((i,) + r)
            state = 'rows'; blanks = 0
            continue
        if state == 'hdr':                          # units line, rule, blank line under a header
            skipped += 1
            if skipped > 6:
                state = None
            continue
        if not line.strip():
            blanks += 1
            if blanks >= 2:
                state = None
            continue
        state = None                                # anything else ends the table
    for t in tabs:
        t.finish()
    return [t for t in tabs if t.rows]


def name_tables(tabs):
    """names as the reader announces them: the first table is the element table, further element tables
    (TOUGH+) are numbered"""
    ne = 0
    for k, t in enumerate(tabs):
        if k == 0:
            t.name = 'element'
        elif t.kind == 'element':
            ne += 1
            t.name = 'element%d' % ne
        else:
            t.name = t.kind
    return tabs


def kwline(line):
    """AUTOUGH2 keyword line from column 2: 'E', 'C', 'G' (EEEEE / CCCCC / GGGGG: full results) or
    'ESHORT', 'CSHORT', 'GSHORT' (short output), else None"""
    s = line[1:7]
    if len(s) >= 5 and s[0] in 'ECG':
        if s[:5] == s[0] * 5:
            return s[0]
        if s == s[0] + 'SHORT':
            return s
    return None


class Scan:
    """lines of a listing and, per full result time, its printed tables"""
    def __init__(self, data, family):
        self.family = family
        self.lines = split_lines(data)
        self.block_start = []            # first line of each full result block (for truncation)
        self.blocks = []
        self.outputs = []                # AUTOUGH2: every output in file order: dict(short=bool, tabs={name: Tab}, line=)
        if family == 'AUTOUGH2':
            self._autough2()
        else:
            self._tough2()

    def _tough2(self):
        lines = self.lines
        starts = [i for i, l in enumerate(lines) if 'output data after' in l.lower()]
        for k, s in enumerate(starts):
            e = starts[k + 1] if k + 1 < len(starts) else len(lines)
            self.blocks.append(name_tables(scan_region(lines, s, e)))
            self.block_start.append(s)

    def _autough2(self):
        lines = self.lines
        names = {'E': 'element', 'C': 'connection', 'G': 'generation'}
        i, n = 0, len(lines)
        first_short = None
        while i < n:
            c = kwline(lines[i])
            if not c:
                i += 1
                continue
            j = i + 1
            while j < n and kwline(lines[j]) != c: j += 1      # end of the title box
            k = j + 1
            while k < n and kwline(lines[k]) != c: k += 1      # end of the table
            if k >= n:
                break
            tabs = scan_region(lines, j + 1, k)
            short = len(c) > 1
            if short and first_short is None:
                first_short = c
            if c == 'E':
                self.blocks.append([])
                self.block_start.append(i)
                self.outputs.append(dict(short=False, tabs={}, line=i))
            elif short and c == first_short:
                self.outputs.append(dict(short=True, tabs={}, line=i))
            if tabs and self.outputs and self.outputs[-1]['short'] == short:
                t = tabs[0]
                for t2 in tabs[1:]:
                    t.rows += t2.rows
                t.name = names[c[0]]
                self.outputs[-1]['tabs'][t.name] = t
                if not short:
                    self.blocks[-1].append(t)
            i = k + 1

    def tokens(self):
        """every value token of every printed table row: (block, table name, lineno, k, text, start, end)"""
        for b, tabs in enumerate(self.blocks):
            for t in tabs:
                for (ln, keys, idx, toks) in t.rows:
                    for k, (text, s, e) in enumerate(toks):
                        yield b, t, ln, k, text, s, e


def fix_name(name):
    """the reader announces names through mulgrids.fix_blockname ('AA  1' stays, 'AA1 1' -> 'AA101'); the rule
    is restated here so that the oracle does not import it"""
    if len(name) == 5 and name[2].isdigit() and name[4].isdigit() and name[3] == ' ':
        return name[0:3] + '0' + name[4]
    return name


def expected_rows(tab, family):
    """what the property demands of a table given its printed rows:
    list of (key, [candidate printed rows]) in table order.  AUTOUGH2 prints rows in table order;
    the other simulators print an index: rows are ordered by it and rows printed more than once
    (TOUGH2-MP prints a row once per processor holding it) are one row."""
    def key_of(keys):
        k = tuple(fix_name(x) for x in keys)
        return k[0] if len(k) == 1 else k
    if family == 'AUTOUGH2':
        return [(key_of(keys), [(ln, toks)]) for (ln, keys, idx, toks) in tab.rows]
    byidx = {}
    auto = -1
    for (ln, keys, idx, toks) in tab.rows:
        try: ii = int(idx) - 1
        except ValueError: ii = auto + 1           # '*****' in the index field: indices continue
        auto = ii
        byidx.setdefault(ii, []).append((ln, keys, toks))
    out = []
    for ii in sorted(byidx):
        cands = byidx[ii]
        out.append((key_of(cands[-1][1]), [(ln, toks) for (ln, keys, toks) in cands]))
    return out


# ====================================================================== variants

PERTURB_MODES = ['digits', 'zero', 'neg', 'exp3', 'E3']


def _rand_digits(rng, n, nonzero_first=True):
    if n <= 0: return ''
    s = ''.join(rng.choice('0123456789') for _ in range(n))
    if nonzero_first and s[0] == '0':
        s = rng.choice('123456789') + s[1:]
    return s


def perturb_token(text, pre, post, rng, mode):
    """another number in the same printed form.  returns (new text, shift) where shift=1 means the new text
    starts one column earlier (a minus sign in the blank the field leaves in front), or None if the mode does
    not apply.  `pre` is the two characters before the token, `post` the character after it."""
    m = NUM_PARTS.match(text)
    if not m:
        return None
    sign, ip, fp, letter, es1, ed1, es2, ed2 = m.groups()
    W = len(text)
    is_e = bool(letter or es2)
    if is_e and len(ip) > 1:
        return None
    room = len(pre) == 2 and pre[1] == ' '              # a blank directly in front
    if is_e:
        esign = es1 if letter else es2
        if esign == '': esign = '+'
        L = letter or 'E'
        onep = ip not in ('', '0')                      # 1P style (TOUGH+): one non-zero digit before the point
        def build(sign, ip, fp, tail):
            return sign + ip + '.' + fp + tail
        if mode == 'digits':
            nip = rng.choice('123456789') if onep else ip
            tail = (L + rng.choice('+-') + _rand_digits(rng, 2, False)) if letter else (rng.choice('+-') + rng.choice('12') + _rand_digits(rng, 2, False))
            return build(sign, nip, _rand_digits(rng, len(fp)), tail), 0
        if mode == 'zero':
            nip = '0' if onep else ip
            tail = (L + '+00') if letter else None
            if tail is None: return None
            return build(sign, nip, '0' * len(fp), tail), 0
        tail = text[len(sign) + len(ip) + 1 + len(fp):]
        if mode == 'neg':
            if sign == '-':                              # make it positive
                if ip == '': return '0.' + fp + tail, 0
                return ' ' + ip + '.' + fp + tail, 0
            if sign == '+': return None
            if ip == '0' and rng.random() < 0.5:         # Fortran drops the leading zero when there is no room
                return '-.' + fp + tail, 0
            if room:
                return '-' + text, 1
            if ip == '0': return '-.' + fp + tail, 0
            return None
        if mode == 'exp3':                               # three exponent digits, no letter (Fortran's own form)
            e3 = rng.choice('+-') + rng.choice('12') + _rand_digits(rng, 2, False)
            if letter:
                if len(ed1) != 2: return None
                return build(sign, ip, fp, e3), 0
            return build(sign, ip, _rand_digits(rng, len(fp)), e3), 0
        if mode == 'E3':                                 # three exponent digits and the letter: one mantissa digit less
            if not letter or len(ed1) != 2 or len(fp) < 2 or post not in (' ', ''):
                return None
            return build(sign, ip, fp[:-1], L + rng.choice('+-') + rng.choice('12') + _rand_digits(rng, 2, False)), 0
        return None
    # F style
    if mode == 'digits':
        nip = _rand_digits(rng, len(ip), len(ip) > 1)
        return sign + nip + '.' + _rand_digits(rng, len(fp), False), 0
    if mode == 'zero':
        if sign: return None
        if len(ip) == 0: return '.' + '0' * len(fp), 0
        return ' ' * (len(ip) - 1) + '0.' + '0' * len(fp), 0
    if mode == 'neg':
        if sign == '-': return ' ' + text[1:], 0
        if sign == '+' or not room: return None
        return '-' + text, 1
    return None


def perturb(data, family, spec):
    """value-perturbed variant: same bytes except that printed table values are replaced by other numbers of
    the same printed form.  spec: dict(seed=, frac=, modes=[...], first_rows=bool).  returns (bytes, counts)"""
    import random
    rng = random.Random(spec['seed'])
    sc = Scan(data, family)
    lines = [list(l) for l in sc.lines]
    modes = spec.get('modes') or PERTURB_MODES
    frac = spec.get('frac', 0.2)
    first_rows = spec.get('first_rows', False)
    counts = Counter()
    done = {}
    for b, tabs in enumerate(sc.blocks):
        for t in tabs:
            for r, (ln, keys, idx, toks) in enumerate(t.rows):
                force = first_rows and r == 0
                parity = spec.get('parity')
                # right to left, so that a sign put in front of a token never meets an edited neighbour
                for k in range(len(toks) - 1, -1, -1):
                    text, s, e = toks[k]
                    if t.has_i and k == 0:
                        continue
                    if force and parity is not None and k % 2 != parity:
                        continue
                    if not force and rng.random() >= frac:
                        continue
                    line = lines[ln]
                    cur = ''.join(line[s:e])
                    if cur != text:
                        continue
                    pre = ''.join(line[max(0, s - 2):s])
                    post = ''.join(line[e:e + 1]).replace('\r', '')
                    mode = rng.choice(modes)
                    res = perturb_token(text, pre, post, rng, mode)
                    if res is None:
                        counts['inapplicable:' + mode] += 1
                        continue
                    new, shift = res
                    if shift and k == 0 and not spec.get('sign_against_index', True):
                        continue
                    if len(new) != len(text) + shift:
                        raise RuntimeError('perturbation changed the width: %r -> %r' % (text, new))
                    line[s - shift:e] = list(new)
                    counts[mode] += 1
    out = '\n'.join(''.join(l) for l in lines)
    if data.endswith(b'\n'):
        out += '\n'
    new = out.encode('latin-1')
    if len(new) != len(data):
        raise RuntimeError('perturbed file differs in length')
    return new, dict(counts)


def truncate(data, family, keep):
    """copy with only the first `keep` full result times (cut just before the next result block starts)"""
    sc = Scan(data, family)
    if keep >= len(sc.blocks):
        return data
    cut = sc.block_start[keep]
    if family != 'AUTOUGH2':
        # the block starts a few lines earlier with a form feed and the title line
        lo = max(cut - 4, sc.block_start[keep - 1] + 1 if keep > 0 else 0)
        for i in range(cut - 1, lo - 1, -1):
            if '\f' in sc.lines[i]:
                cut = i
                break
    else:
        # short-output blocks printed between two full blocks stay with the earlier one
        pass
    out = '\n'.join(sc.lines[:cut]) + '\n'
    return out.encode('latin-1')


def cut(data, spec):
    """broken copy: the file cut after `line` lines (optionally in the middle of that line); outside the property's
    quantifier — used only to compare the model with the reader on their error and non-termination paths"""
    lines = data.split(b'\n')
    k = max(1, min(len(lines) - 1, spec['line']))
    out = b'\n'.join(lines[:k]) + b'\n'
    if spec.get('partial'):
        out += lines[k][:max(1, len(lines[k]) // 2)]
    return out


def variant_bytes(rel, family, vspec):
    """bytes of a variant of a shipped file.  vspec: {'kind': 'orig'} | {'kind': 'perturb', ...} |
    {'kind': 'truncate', 'keep': k} | {'kind':'perturb+truncate', ...}"""
    data = (listing_base() / rel).read_bytes()
    kind = vspec.get('kind', 'orig')
    info = {}
    if 'perturb' in kind:
        data, info = perturb(data, family, vspec)
    if 'truncate' in kind:
        data = truncate(data, family, vspec['keep'])
    if kind == 'cut':
        data = cut(data, vspec)
    return data, info


def variant_path(tmp, rel, family, vspec):
    """path of the variant on disk (the shipped file itself for 'orig'); the base name is kept because the
    reader recognises TOUGH2-MP by it"""
    if vspec.get('kind', 'orig') == 'orig':
        return listing_base() / rel, {}
    data, info = variant_bytes(rel, family, vspec)
    h = hashlib.sha256(json.dumps([rel, vspec], sort_keys=True).encode()).hexdigest()[:16]
    d = Path(tmp) / ('v_' + h)
    d.mkdir(parents=True, exist_ok=True)
    p = d / Path(rel).name
    if not p.exists():
        p.write_bytes(data)
    return p, info


# ====================================================================== the real reader, observed through its public interface

def open_listing(path, skip_tables=None):
    import io, contextlib, warnings
    with contextlib.redirect_stdout(io.StringIO()), warnings.catch_warnings():
        warnings.simplefilter('ignore')
        import t2listing
        return t2listing.t2listing(str(path), skip_tables=list(skip_tables or []))


def table_of(lst, name):
    return getattr(lst, name, None)


def table_matrix(t):
    """all cells of a table through the public interface (columns by name); falls back to row dictionaries
    when column names repeat"""
    import numpy as np
    cols = list(t.column_name)
    if len(set(cols)) == len(cols):
        if not cols:
            return np.zeros((t.num_rows, 0))
        return np.column_stack([np.asarray(t[c], dtype=float) for c in cols]) if t.num_rows else np.zeros((0, len(cols)))
    return np.array([[t[i][c] for c in cols] for i in range(t.num_rows)], dtype=float)


def dump_view(lst):
    """(index, time, step, {table: (row names, column names, matrix copy)})"""
    import numpy as np
    tabs = {}
    for name in lst.table_names:
        t = table_of(lst, name)
        tabs[name] = (list(t.row_name), list(t.column_name), np.array(table_matrix(t), dtype=float, copy=True))
    return lst.index, float(lst.time), int(lst.step), tabs


def bits(x):
    return struct.pack('>d', float(x)).hex()


def same_float(a, b):
    return a == b or (a != a and b != b)


def matrices_equal(a, b):
    import numpy as np
    return a.shape == b.shape and bool(np.all((a == b) | (np.isnan(a) & np.isnan(b))))


def view_digest(view):
    index, time_, step, tabs = view
    h = hashlib.sha256()
    h.update(repr((index, bits(time_), step)).encode())
    for name in sorted(tabs):
        rows, cols, m = tabs[name]
        h.update(repr((name, rows, cols)).encode())
        h.update(m.tobytes())
    return h.hexdigest()[:20]


def views_equal(v1, v2, with_index=True):
    """None when equal, else a short description of the first difference"""
    i1, t1, s1, tb1 = v1
    i2, t2, s2, tb2 = v2
    if with_index and i1 != i2: return 'index %r != %r' % (i1, i2)
    if not same_float(t1, t2): return 'time %r != %r' % (t1, t2)
    if s1 != s2: return 'step %r != %r' % (s1, s2)
    if sorted(tb1) != sorted(tb2): return 'tables %r != %r' % (sorted(tb1), sorted(tb2))
    for name in sorted(tb1):
        r1, c1, m1 = tb1[name]
        r2, c2, m2 = tb2[name]
        if r1 != r2: return 'table %s: row names differ' % name
        if c1 != c2: return 'table %s: column names differ' % name
        if not matrices_equal(m1, m2):
            import numpy as np
            bad = np.argwhere(~((m1 == m2) | (np.isnan(m1) & np.isnan(m2))))
            r, c = (int(x) for x in bad[0])
            return 'table %s: cell [%d (%r)][%s] %r != %r (%d cells differ)' % (name, r, r1[r], c1[c], float(m1[r, c]), float(m2[r, c]), len(bad))
    return None


def pick_indices(n, how, rng=None):
    if how == 'all' or n <= 3:
        return list(range(n))
    idx = {0, n // 2, n - 1}
    if rng is not None and n > 3:
        idx.add(rng.randrange(n))
    return sorted(idx)


# messages of the reader's own `raise Exception(...)` when it cannot make sense of a table
READER_REJECTS = ('Unable to parse table line', 'Error parsing ')

# ---------------------------------------------------------------------- the C05 oracle on one opened file

def check_table_against_print(tab, family, rows, cols, m, lines):
    """compare one exposed table (row names, column names, matrix) with its printed rows.
    returns (violations as (key, text, detail), stats Counter)"""
    st = Counter()
    out = []
    exp = expected_rows(tab, family)
    names = [k for k, c in exp]
    if names != list(rows):
        n_exp, n_got = len(names), len(rows)
        first = next((i for i, (a, b) in enumerate(zip(names, rows)) if a != b), min(n_exp, n_got))
        a = names[first] if first < n_exp else None
        b = rows[first] if first < n_got else None
        ln = exp[first][1][0][0] if first < n_exp else None
        out.append(('rows', 'table has %d rows, %d distinct rows are printed; first difference at row %d: table key %r, printed key %r%s'
                    % (n_got, n_exp, first, b, a, '' if ln is None else ' (line %d: %r)' % (ln + 1, lines[ln][:60])),
                    {'row': first}))
        return out, st
    nc = len(cols)
    # right edges of the printed columns, from the fullest row: a row with fewer numbers must fill the leading columns
    full = max((c[0][1] for k, c in exp), key=len, default=[])
    ends = [e for (_, s, e) in full]
    for r, (key, cands) in enumerate(exp):
        ok_any = False
        detail = None
        unsure = False
        for (ln, toks) in cands:
            if len(toks) > nc:
                detail = (r, None, 'more numbers printed (%d) than the table has columns (%d)' % (len(toks), nc), ln)
                continue
            if len(toks) < len(ends) and any(abs(e - ends[k]) > 1 for k, (_, s, e) in enumerate(toks)):
                unsure = True           # blanks that are not trailing: the oracle does not guess the columns
                continue
            good = True
            for c in range(nc):
                if c < len(toks):
                    want = printed_value(toks[c][0])
                    if want is None:
                        st['cells-not-a-number'] += 1
                        continue
                else:
                    want = 0.0
                    st['blank-trailing-cells'] += 1
                got = float(m[r, c])
                if not same_float(got, want):
                    good = False
                    if detail is None or len(cands) == 1:
                        detail = (r, c, 'cell is %r, printed %r' % (got, toks[c][0] if c < len(toks) else '(blank)'), ln)
                    break
            if good:
                ok_any = True
                break
        st['rows-checked'] += 1
        st['cells-checked'] += nc
        if len(cands) > 1: st['rows-printed-more-than-once'] += 1
        if ok_any:
            continue
        if unsure and detail is None:
            st['rows-oracle-unsure'] += 1
            continue
        if detail:
            rr, cc, text, ln = detail
            out.append(('cell', 'row %d (%r)%s: %s; line %d: %r' % (rr, key, '' if cc is None else ' column %d (%r)' % (cc, cols[cc]), text, ln + 1, lines[ln].rstrip('\r')[:200]),
                        {'row': rr, 'col': cc}))
            if len(out) >= 3:
                break
    return out, st


def check_addressing(t, rows, cols, m, rng, n_samples):
    """row-index, row-name and column-name addressing agree (sampled cells + first/last)"""
    out = []
    st = Counter()
    nr, nc = len(rows), len(cols)
    if nr == 0 or nc == 0:
        return out, st
    cnt = Counter(rows)
    colcnt = Counter(cols)
    picks = {(0, 0), (nr - 1, nc - 1), (0, nc - 1), (nr - 1, 0)}
    for _ in range(n_samples):
        picks.add((rng.randrange(nr), rng.randrange(nc)))
    for (r, c) in sorted(picks):
        col = cols[c]
        if colcnt[col] > 1:
            continue
        by_index = t[r]
        v_index = by_index[col]
        v_col = t[col][r]
        st['addressing-cells'] += 1
        if by_index['key'] != rows[r]:
            out.append(('addr', 'row %d announces key %r but row_name[%d] is %r' % (r, by_index['key'], r, rows[r]), {'row': r, 'col': c}))
            continue
        if not same_float(v_index, v_col):
            out.append(('addr', 'table[%d][%r] = %r but table[%r][%d] = %r' % (r, col, v_index, col, r, v_col), {'row': r, 'col': c}))
            continue
        if cnt[rows[r]] == 1:
            by_name = t[rows[r]]
            if by_name is None or not same_float(by_name[col], v_index) or by_name['key'] != rows[r]:
                out.append(('addr', 'table[%r][%r] = %r but table[%d][%r] = %r' % (rows[r], col, None if by_name is None else by_name[col], r, col, v_index),
                            {'row': r, 'col': c}))
        else:
            st['addressing-duplicate-row-name'] += 1
    return out, st


def enc_key(key):
    hx = lambda t: hexs(t) if t else '-'
    if isinstance(key, int):
        return 'i:%d' % key
    if isinstance(key, (list, tuple)):
        return 'n:' + ';'.join(hx(x) for x in key)
    return 'n:' + hx(key)


def canon_got(v):
    """canonical form of what table[key] returned"""
    import numpy as np
    if v is None:
        return ['none']
    if isinstance(v, dict):
        k = v.get('key')
        return ['row', list(k) if isinstance(k, tuple) else [k], [[c, bits(x)] for c, x in v.items() if c != 'key']]
    return ['col', [bits(x) for x in np.asarray(v, dtype=float)]]


def sample_lookups(lst, view, rng):
    """table[key] for a spread of keys (row index incl. negative / out of range, row name, reversed name, column
    name, names that are not there), on the real tables: [(table, encoded key, canonical result)]"""
    out = []
    for name in lst.table_names:
        t = table_of(lst, name)
        rows, cols, m = view[3][name]
        nr = len(rows)
        keys = [0, nr - 1, -1, -nr, nr, -nr - 1]
        if nr:
            for _ in range(2):
                keys.append(rows[rng.randrange(nr)])
            r = rows[rng.randrange(nr)]
            keys.append(r[::-1])                          # reversed tuple (connection) or reversed string
            if isinstance(r, tuple):
                keys.append(r[0])                         # a single name on a two-key table
                keys.append((r[0], 'zzzzz'))
            else:
                keys.append('zzzzz')
        if cols:
            keys.append(cols[rng.randrange(len(cols))])
        for k in keys:
            try:
                got = canon_got(t[k])
            except Exception as e:
                got = ['exc', type(e).__name__]
            out.append([name, enc_key(k), got])
    return out


def icolumn_case(tab0):
    """the known finding: an ECO2M table (integer column 'I' first) whose FIRST row at the first result time prints a
    negative first real right against the integer (' 2-0.221166E+08'): parse_table_line bounds the I column by the first
    blank after the digit, which then lies behind the pressure"""
    if tab0 is None or not tab0.has_i or not tab0.rows:
        return False
    toks = tab0.rows[0][3]
    return len(toks) >= 2 and toks[1][0].startswith('-') and toks[1][1] == toks[0][2]


def job_c05(job):
    """runs in a worker: open one (variant of a) listing with the real reader, compare every exposed table at the
    chosen result times with the printed rows, check skip-table independence and addressing.
    job: dict(rel, family, vspec, tmp, indices, skips, seed, dump)"""
    import random
    import numpy as np
    rel, family, vspec = job['rel'], job['family'], job['vspec']
    rng = random.Random(job.get('seed', 0))
    path, pinfo = variant_path(job['tmp'], rel, family, vspec)
    data = Path(path).read_bytes()
    sc = Scan(data, family)
    res = dict(rel=rel, family=family, vspec=vspec, violations=[], stats=Counter(), path=str(path), perturbed=pinfo,
               tables={}, ntimes=len(sc.blocks), samples=[], dumps=[])
    st = res['stats']
    case0 = dict(file=rel, variant=vspec)

    def viol(key, what, **extra):
        c = dict(case0)
        c.update(extra)
        res['violations'].append(dict(key=key, what='%s [%s]: %s' % (rel, vspec.get('kind', 'orig'), what), case=c))

    try:
        lst = open_listing(path)
    except Exception as e:
        msg = str(e)[:150].replace('\n', ' | ')
        if vspec.get('kind', 'orig') != 'orig':
            # the reader refuses the variant loudly: no table is exposed, the property says nothing about it;
            # counted by exception class, and the model must refuse the same files with the same class (correspondence)
            st['variant-rejected-by-reader'] += 1
            st['variant-rejected:' + type(e).__name__] += 1
            res['rejected'] = msg
            res['rejected_class'] = type(e).__name__
            return res
        viol('open-raises:%s:%s' % (family, type(e).__name__), 'opening the listing raises %s: %s' % (type(e).__name__, msg))
        return res
    n = lst.num_fulltimes
    if n != len(sc.blocks):
        viol('result-times:%s' % family, 'the reader finds %d result times, %d are printed' % (n, len(sc.blocks)))
        lst.close()
        return res
    res['tablenames'] = list(lst.table_names)
    # modelling assumption: every file position the reader remembers is the start of a line (the model's positions are
    # line numbers); read from the private list only to report it
    fp = getattr(lst, '_fullpos', None)
    if fp is not None:
        st['positions-remembered'] += len(fp)
        st['positions-at-line-start'] += sum(1 for q in fp if q == 0 or data[q - 1:q] == b'\n')
    indices = pick_indices(n, job.get('indices', 'some'), rng)
    base_views = {}
    for i in indices:
        # "at any result time": the last and first result times are also reached the other public ways
        how = 'index=%d' % i
        if n > 1 and i == n - 1: how = rng.choice([how, 'index=-1', 'last()'])
        elif n > 1 and i == 0: how = rng.choice([how, 'first()', 'index=%d' % -n])
        st['reached-by:' + re.sub(r'-?\d+', 'i' if '-' not in how else '-i', how)] += 1
        try:
            if how == 'last()': lst.last()
            elif how == 'first()': lst.first()
            else: lst.index = int(how.split('=')[1])
            view = dump_view(lst)
        except Exception as e:
            viol('set-index-raises:%s:%s' % (family, type(e).__name__), '%s raises %s: %s' % (how, type(e).__name__, str(e)[:120]), index=i, how=how)
            continue
        base_views[i] = view
        printed = {t.name: t for t in sc.blocks[i]}
        printed0 = {t.name: t for t in sc.blocks[0]} if sc.blocks else {}
        for name in lst.table_names:
            rows, cols, m = view[3][name]
            res['tables'].setdefault(name, (len(rows), len(cols)))
            t = table_of(lst, name)
            if name not in printed:
                st['table-not-printed-at-this-time'] += 1
                continue
            st['tables-checked'] += 1
            vs, s2 = check_table_against_print(printed[name], family, rows, cols, m, sc.lines)
            st.update(s2)
            for (kind, text, detail) in vs:
                key = '%s:%s:%s' % (kind, family, re.sub(r'\d+$', '', name))
                if kind == 'cell' and detail.get('col') == 0 and icolumn_case(printed0.get(name)):
                    key += ':I-column'
                viol(key, 'result %d (reached by %s), table %s: %s' % (i, how, name, text), index=i, table=name, how=how, **detail)
            vs, s2 = check_addressing(t, rows, cols, m, rng, job.get('addr_samples', 12))
            st.update(s2)
            for (kind, text, detail) in vs:
                viol('%s:%s' % (kind, family), 'result %d, table %s: %s' % (i, name, text), index=i, table=name, **detail)
        if job.get('dump'):
            res.setdefault('addr', {})[i] = sample_lookups(lst, view, rng)
        if len(res['samples']) < 1 and lst.table_names:
            name = lst.table_names[0]
            rows, cols, m = view[3][name]
            if len(rows):
                r = rng.randrange(len(rows))
                res['samples'].append(dict(file=rel, variant=vspec.get('kind', 'orig'), index=i, table=name, row=r, key=rows[r],
                                           cells=[float(x) for x in m[r, :4]]))
    lst.close()
    # skip-table independence
    for skip in job.get('skips', []):
        skip = list(skip)
        st['skip-sets'] += 1
        try:
            l2 = open_listing(path, skip)
        except Exception as e:
            viol('skip-open-raises:%s:%s' % (family, type(e).__name__), 'opening with skip_tables=%r raises %s: %s' % (skip, type(e).__name__, str(e)[:120]), skip=skip)
            continue
        want = [t for t in res['tablenames'] if t not in skip]
        if sorted(l2.table_names) != sorted(want):
            viol('skip-tables-exposed:%s' % family, 'with skip_tables=%r the reader exposes %r, expected %r' % (skip, l2.table_names, want), skip=skip)
            l2.close()
            continue
        if l2.num_fulltimes != n:
            viol('skip-times:%s' % family, 'with skip_tables=%r the reader finds %d result times instead of %d' % (skip, l2.num_fulltimes, n), skip=skip)
            l2.close()
            continue
        for i in indices:
            if i not in base_views:
                continue
            try:
                l2.index = i
                v2 = dump_view(l2)
            except Exception as e:
                viol('skip-set-index-raises:%s:%s' % (family, type(e).__name__),
                     'with skip_tables=%r index = %d raises %s: %s' % (skip, i, type(e).__name__, str(e)[:120]), skip=skip, index=i)
                break
            v1 = base_views[i]
            ref = (v1[0], v1[1], v1[2], {k: v for k, v in v1[3].items() if k not in skip})
            d = views_equal(ref, v2)
            st['skip-views-compared'] += 1
            if d:
                viol('skip-changes-others:%s' % family, 'result %d: with skip_tables=%r %s' % (i, skip, d), skip=skip, index=i)
                break
        l2.close()
    # dumps for the correspondence with the Lean model
    if job.get('dump'):
        d = Path(job['tmp']) / 'dumps'
        d.mkdir(exist_ok=True)
        for i in indices:
            if i not in base_views:
                continue
            view = base_views[i]
            h = hashlib.sha256(json.dumps([rel, vspec, i], sort_keys=True).encode()).hexdigest()[:16]
            f = d / (h + '.npz')
            arrs = {}
            meta = dict(index=view[0], time=bits(view[1]), step=view[2], tables=[])
            for name in sorted(view[3]):
                rows, cols, m = view[3][name]
                meta['tables'].append(dict(name=name, rows=[list(r) if isinstance(r, tuple) else r for r in rows], cols=cols))
                arrs['t_' + name] = m
            np.savez(f, meta=np.array(json.dumps(meta)), **arrs)
            res['dumps'].append((i, str(f)))
    return res


def job_broken(job, progress):
    """open a cut copy with the real reader and show the last result: outcome = exception class, or the view digest data"""
    import numpy as np
    rel, family, vspec = job['rel'], job['family'], job['vspec']
    path, _ = variant_path(job['tmp'], rel, family, vspec)
    res = dict(rel=rel, vspec=vspec, path=str(path))
    progress({'stage': 'open'})
    try:
        lst = open_listing(path)
    except Exception as e:
        res['open'] = 'exc:' + type(e).__name__
        return res
    res['open'] = 'ok'
    res['n'] = lst.num_fulltimes
    progress({'stage': 'index'})
    try:
        lst.index = -1
        v = dump_view(lst)
        d = Path(job['tmp']) / 'dumps'
        d.mkdir(exist_ok=True)
        f = d / ('b_' + hashlib.sha256(json.dumps([rel, vspec], sort_keys=True).encode()).hexdigest()[:16] + '.npz')
        meta = dict(index=v[0], time=bits(v[1]), step=v[2], tables=[])
        arrs = {}
        for name in sorted(v[3]):
            rows, cols, m = v[3][name]
            meta['tables'].append(dict(name=name, rows=[list(r) if isinstance(r, tuple) else r for r in rows], cols=cols))
            arrs['t_' + name] = m
        np.savez(f, meta=np.array(json.dumps(meta)), **arrs)
        res['last'] = str(f)
    except Exception as e:
        res['last'] = 'exc:' + type(e).__name__
    lst.close()
    return res


def broken_facet(ctx, res, n_cuts):
    """facet listing_broken: cut copies of shipped files (anywhere, also inside a table or a line): the reader raises, spins
    (no answer within the time limit) or opens; the model must raise the same class, be `diverges`, or show the same tables"""
    rng = ctx.rng('c05-broken')
    files = corpus()
    jobs = []
    for k in range(n_cuts):
        rel, family = files[rng.randrange(len(files))]
        nlines = (listing_base() / rel).read_bytes().count(b'\n')
        sc_hint = rng.random()
        line = rng.randrange(1, nlines) if sc_hint < 0.5 else max(1, nlines - rng.randrange(1, 400))
        jobs.append(dict(rel=rel, family=family, tmp=str(ctx.tmp), vspec={'kind': 'cut', 'line': line, 'partial': rng.random() < 0.3}))
    outs = run_jobs('job_broken', jobs, timeout=ctx.n(8, 20), nworkers=6)
    f = res.facet('listing_broken')
    lines = []
    for job, r in zip(jobs, outs):
        path, _ = variant_path(job['tmp'], job['rel'], job['family'], job['vspec'])
        od = '1' if str(path).endswith('OUTPUT_DATA') else '0'
        lines += ['open %s %s -' % (hexs(str(path)), od), 'index -1', 'view']
    rep = core.run_driver('drv_c05', lines)
    # a reader that gave no answer where the model does not diverge is asked once more, alone, with more time
    for k, (job, r) in enumerate(zip(jobs, outs)):
        o, a, v = rep[3 * k: 3 * k + 3]
        if isinstance(r, Timeout) and not (o == 'exc diverges' or (o.startswith('ok') and a == 'exc diverges')):
            outs[k] = confirm_timeouts('job_broken', [job], [r], ctx.n(8, 20))[0]
    for k, (job, r) in enumerate(zip(jobs, outs)):
        o, a, v = rep[3 * k: 3 * k + 3]
        f['cases'] += 1
        case = dict(file=job['rel'], variant=job['vspec'])
        model_open = 'ok' if o.startswith('ok') else 'exc:' + o.split(' ')[1]
        if isinstance(r, Timeout):
            if (r.info or {}).get('stage') == 'index':
                r = dict(open='ok', last='exc:diverges')
                real_open = 'ok'
            else:
                real_open = 'exc:diverges'
        else:
            real_open = r['open']
        res.count('broken:open:' + real_open)
        d = None
        if model_open != real_open:
            d = ('open: ' + model_open, 'open: ' + ('no answer (spins)' if isinstance(r, Timeout) else real_open))
        elif real_open == 'ok':
            model_last = 'ok' if a.startswith('ok') else 'exc:' + a.split(' ')[1]
            real_last = 'ok' if not r['last'].startswith('exc:') else r['last']
            res.count('broken:last:' + real_last)
            if model_last != real_last:
                d = ('index -1: ' + model_last, 'index -1: ' + real_last)
            elif real_last == 'ok':
                mv = parse_view(v)
                rv = load_dump(r['last'])
                if mv[0] != rv[0] or bits(mv[1]) != bits(rv[1]) or mv[2] != rv[2] or sorted(mv[3]) != sorted(rv[3]):
                    d = ('view header %r' % (mv[:3],), 'view header %r' % (rv[:3],))
                else:
                    for name in rv[3]:
                        if mv[3][name][0] != rv[3][name][0] or mv[3][name][1] != rv[3][name][1] or not bit_equal(mv[3][name][2], rv[3][name][2]):
                            d = ('table %s differs' % name, '(see model)')
                            break
        if d:
            f['disagreements'] += 1
            res.disagreements.append(dict(facet='listing_broken', case=case, model=d[0], impl=d[1]))


# ---------------------------------------------------------------------- reader instances are independent

def digest_view(view):
    index, time_, step, tabs = view
    out = {'hdr': repr((int(index), bits(time_), int(step))), 'tables': {}}
    for name in sorted(tabs):
        rows, cols, m = tabs[name]
        h = hashlib.sha256()
        h.update(repr((rows, cols)).encode())
        h.update(m.tobytes())
        out['tables'][name] = h.hexdigest()[:20]
    return out


def digests_of(lst):
    out = []
    for i in range(lst.num_fulltimes):
        lst.index = i
        out.append(digest_view(dump_view(lst)))
    return out


def safe_digests(lst):
    try:
        return digests_of(lst)
    except Exception as e:
        return e


def construct(path, how, shared=None):
    """the constructor as a caller would use it: 'default' passes no skip_tables at all, 'shared' passes one list object
    that the caller re-uses for several readers"""
    import io, contextlib, warnings
    with contextlib.redirect_stdout(io.StringIO()), warnings.catch_warnings():
        warnings.simplefilter('ignore')
        import t2listing
        if how == 'default':
            return t2listing.t2listing(str(path))
        return t2listing.t2listing(str(path), shared)


def job_digest(job):
    """one file in a process of its own: table names and a digest of every table at every result time.  An exception of
    the real reader (open, or moving to a result time) is an answer, not a failure of the machinery: `raises`"""
    path = listing_base() / job['rel']
    out = dict(rel=job['rel'], skip=job.get('skip') or [], names=[], digests=[])
    try:
        lst = open_listing(path, job.get('skip') or [])
        out['names'] = list(lst.table_names)
        out['digests'] = digests_of(lst)
        lst.close()
    except Exception as e:
        out['raises'] = '%s: %s' % (type(e).__name__, str(e)[:150])
    return out


STEPPED_FIRST = 'TOUGH2/11/case11.listing'     # a table ('primary') that first appears at its third result time


def diff_digests(base, got_names, got):
    if sorted(base['names']) != sorted(got_names):
        return 'exposes tables %r, alone in a process it exposes %r' % (sorted(got_names), sorted(base['names']))
    if len(base['digests']) != len(got):
        return '%d result times, alone %d' % (len(got), len(base['digests']))
    for i, (a, b) in enumerate(zip(base['digests'], got)):
        if a['hdr'] != b['hdr']:
            return 'result %d: index/time/step %s, alone %s' % (i, b['hdr'], a['hdr'])
        for name in a['tables']:
            if a['tables'][name] != b['tables'].get(name):
                return 'result %d: table %s differs from what the same file shows alone in a process' % (i, name)
    return None


def job_shared(job, progress):
    """many readers in ONE process, constructed as callers do (no skip_tables argument; one skip list object re-used):
    phase 1 opens every listing with several result times and keeps it open; phase 2 opens TOUGH2/11 and steps it through
    all its result times; phase 3 moves the readers of phase 1 through their result times; phase 4 opens all shipped
    listings again; phase 5 does the same with one shared list object ['connection'].  Every reader must show exactly
    what the same file shows alone in a process of its own (job_digest)."""
    base = {(b['rel'], tuple(b['skip'])): b for b in job['baseline']}
    files = [rel for rel, fam in corpus()]
    out = dict(violations=[], stats=Counter())
    st = out['stats']

    def check(rel, skip, names, got, phase):
        st['shared-readers-compared'] += 1
        if isinstance(got, Exception):
            d = 'raises %s: %s' % (type(got).__name__, str(got)[:150])
        else:
            d = diff_digests(base[(rel, tuple(skip))], names, got)
        if d:
            out['violations'].append(dict(key='instances-not-independent:%s' % rel.split('/')[0],
                                          what='%s opened in a process shared with other readers (%s): %s' % (rel, phase, d),
                                          case=dict(file=rel, shared_process=True, phase=phase)))

    import gc
    multi = [rel for rel in files if len(base[(rel, ())]['digests']) >= 2 and rel != STEPPED_FIRST]
    progress({'phase': 1})
    early = [(rel, construct(listing_base() / rel, 'default')) for rel in multi]
    progress({'phase': 2})
    first = None
    if STEPPED_FIRST in files:
        first = construct(listing_base() / STEPPED_FIRST, 'default')
        while first.next():
            pass
        first.first()
        check(STEPPED_FIRST, [], list(first.table_names), safe_digests(first), 'default arguments, stepped through all its result times')
    progress({'phase': 3})
    for rel, lst in early:
        check(rel, [], list(lst.table_names), safe_digests(lst), 'default arguments, opened before %s was stepped, then moved' % STEPPED_FIRST)
    progress({'phase': 4})
    later = []
    for rel in files:
        lst = construct(listing_base() / rel, 'default')
        later.append(lst)
        check(rel, [], list(lst.table_names), safe_digests(lst), 'default arguments, opened after %s was stepped' % STEPPED_FIRST)
    progress({'phase': 5})
    shared = ['connection']
    order = ([STEPPED_FIRST] if STEPPED_FIRST in files else []) + [r for r in files if r != STEPPED_FIRST and (r, ('connection',)) in base]
    keep = []
    for rel in order:
        if (rel, ('connection',)) not in base:
            continue
        lst = construct(listing_base() / rel, 'shared', shared)
        keep.append(lst)
        if rel == STEPPED_FIRST:
            while lst.next():
                pass
        check(rel, ['connection'], list(lst.table_names), safe_digests(lst), 'one skip list object [\'connection\'] passed to several readers')
    if shared != ['connection']:
        out['violations'].append(dict(key='caller-list-modified', what='the skip_tables list a caller passed was changed to %r' % (shared,),
                                      case=dict(shared_process=True, phase='shared list')))
    for x in [l for _, l in early] + later + keep + ([first] if first else []):
        try: x.close()
        except Exception: pass
    return out


def shared_process_facet(ctx, res):
    """oracle facet shared_process: reader instances are independent of one another"""
    files = corpus()
    jobs = [dict(rel=rel) for rel, fam in files]
    sc_names = {}
    for rel, fam in files:
        sc = Scan((listing_base() / rel).read_bytes(), fam)
        if sc.blocks and any(t.name == 'connection' for t in sc.blocks[0]):
            jobs.append(dict(rel=rel, skip=['connection']))
    baseline = run_jobs('job_digest', jobs, timeout=ctx.n(120, 300), fresh=True)
    baseline = [b for b in baseline if not isinstance(b, Timeout)]
    for b in baseline:
        if b.get('raises'):
            res.violations.append(dict(key='shipped-file-raises:%s' % b['rel'].split('/')[0],
                                       what='%s with skip_tables=%r, every result time in turn: the reader raises %s' % (b['rel'], b['skip'], b['raises']),
                                       case=dict(file=b['rel'], variant={'kind': 'orig'}, skip=b['skip'])))
    if any(b.get('raises') for b in baseline):
        return
    r = run_jobs('job_shared', [dict(baseline=baseline)], timeout=ctx.n(120, 300), nworkers=1, fresh=True)[0]
    f = res.facet('shared_process')
    if isinstance(r, Timeout):
        res.violations.append(dict(key='shared-process-hangs', what='readers sharing a process: no answer (%r)' % (r.info,), case=dict(shared_process=True)))
        return
    f['cases'] = r['stats'].get('shared-readers-compared', 0)
    res.count('shared-readers-compared', f['cases'])
    res.violations += r['violations']


# ====================================================================== worker pool with per-job timeouts

def _worker_main(conn, fname_module, fname):
    import importlib, warnings
    warnings.simplefilter('ignore')
    fn = getattr(importlib.import_module(fname_module), fname)
    takes_progress = fn.__code__.co_argcount >= 2
    while True:
        try:
            job = conn.recv()
        except EOFError:
            return
        if job is None:
            return
        def progress(info):
            conn.send(('progress', info))
        try:
            out = ('ok', fn(job, progress) if takes_progress else fn(job))
        except Exception:
            out = ('error', traceback.format_exc())
        conn.send(out)


class Pool:
    """runs jobs in forked workers; a job that exceeds `timeout` seconds has its worker killed and yields
    ('timeout', None).  results come back in job order."""
    def __init__(self, module, fname, nworkers=None, timeout=120.0, fresh=False):
        self.fresh = fresh          # a new worker process for every job (nothing a job leaves behind can reach the next)
        self.module, self.fname = module, fname
        self.n = nworkers or max(2, min(6, (os.cpu_count() or 4) // 2))
        self.timeout = timeout
        self.ctx = mp.get_context('fork')

    def _spawn(self):
        a, b = self.ctx.Pipe()
        p = self.ctx.Process(target=_worker_main, args=(b, self.module, self.fname), daemon=True)
        p.start()
        b.close()
        return [p, a, None, 0.0, None]      # process, connection, current job index, time of last message, last progress info

    def run(self, jobs, timeouts=None):
        results = [None] * len(jobs)
        pending = list(range(len(jobs)))[::-1]
        workers = [self._spawn() for _ in range(min(self.n, max(1, len(jobs))))]
        active = 0
        try:
            while pending or active:
                for w in workers:
                    if w[2] is None and pending:
                        j = pending.pop()
                        w[1].send(jobs[j])
                        w[2], w[3], w[4] = j, time.time(), None
                        active += 1
                conns = [w[1] for w in workers if w[2] is not None]
                ready = mp_wait(conns, timeout=0.5) if conns else []
                now = time.time()
                for k, w in enumerate(workers):
                    if w[2] is None:
                        continue
                    j = w[2]
                    if w[1] in ready:
                        try:
                            msg = w[1].recv()
                        except (EOFError, OSError):
                            results[j] = ('error', 'worker died')
                            w[0].kill(); workers[k] = self._spawn()
                            active -= 1
                            continue
                        if msg[0] == 'progress':          # the job is alive: restart its clock, remember where it is
                            w[3], w[4] = time.time(), msg[1]
                            continue
                        results[j] = msg
                        w[2] = None
                        active -= 1
                        if self.fresh:
                            try: w[1].send(None)
                            except Exception: pass
                            w[0].join(1)
                            if w[0].is_alive(): w[0].kill()
                            workers[k] = self._spawn()
                    else:
                        limit = (timeouts[j] if timeouts else None) or self.timeout
                        if now - w[3] > limit:
                            w[0].kill()
                            w[0].join(1)
                            results[j] = ('timeout', w[4])
                            workers[k] = self._spawn()
                            active -= 1
        finally:
            for w in workers:
                try:
                    if w[2] is None:
                        w[1].send(None)
                    else:
                        w[0].kill()
                except Exception:
                    pass
            for w in workers:
                w[0].join(1)
                if w[0].is_alive():
                    w[0].kill()
        return results


def run_jobs(fname, jobs, timeout=120.0, nworkers=None, module=None, fresh=False):
    """run jobs through the pool; a machinery error raises (-> exit 2); a job that timed out yields
    Timeout(last progress info it reported)"""
    pool = Pool(module or __name__, fname, nworkers=nworkers, timeout=timeout, fresh=fresh)
    out = []
    for j, r in zip(jobs, pool.run(jobs)):
        if r[0] == 'error':
            raise RuntimeError('worker failed on %s: %s' % (json.dumps(j, default=str)[:200], r[1][-1500:]))
        out.append(Timeout(r[1]) if r[0] == 'timeout' else r[1])
    return out


class Timeout:
    def __init__(self, info):
        self.info = info


def confirm_timeouts(fname, jobs, results, timeout, module=None, narrow=None):
    """a job that gave no answer is run once more, alone and with three times the time limit, before it is believed
    (a busy machine must not look like a reader that spins).  `narrow(job, info)` may reduce the job to the step that hung."""
    out = list(results)
    for k, (job, r) in enumerate(zip(jobs, results)):
        if isinstance(r, Timeout):
            j2 = narrow(job, r.info) if narrow else job
            r2 = run_jobs(fname, [j2], timeout=3 * timeout, nworkers=1, module=module)[0]
            if not isinstance(r2, Timeout):
                out[k] = r2 if narrow is None else ('recovered', r2)
    return out


# ====================================================================== property module interface

THEOREMS = ['Props.C05.' + t for t in ['binding_is_modelled', 'column_boundaries_correct', 'row_slicing_correct', 'field_value_printed', 'blank_field_is_zero',
                                    'field_beyond_row_is_zero', 'line_terminator_ignored', 'row_format_decidable', 'icolumn_negative_first_real_witness',
                                    'rows_keyed_by_printed_index', 'rows_in_index_order', 'skip_lands_where_read_lands', 'autough2_row_split_correct',
                                    'autough2_adjacent_numbers_merge', 'addressing_agrees', 'reversed_key_row',
                                    'data_line_meaning', 'table_read_TOUGH2', 'cells_equal_printed_table_TOUGH2',
                                    'skip_table_lands_where_read_lands_TOUGH2', 'table_read_AUTOUGH2',
                                    'skip_table_lands_where_read_lands_AUTOUGH2', 'tables_read_block_TOUGH2',
                                    'tables_read_block_AUTOUGH2', 'set_index_reads_block_AUTOUGH2', 'set_index_reads_block_TOUGH2',
                                    'setup_table_records_region_AUTOUGH2', 'setup_table_records_region_TOUGH2_partial']]
LEVEL_TEXT = ('Proof: Lean theorems about the row layer of the reader and listingtable, and their composition over the table-reading loop of the whole-file model: parse_table_line infers exactly the field starts from a line of '
              'right-aligned number fields (column_boundaries_correct; its side conditions are decided on the longest line of every table by a '
              'procedure proved sound, row_format_decidable); read_table_line_TOUGH2 never raises, cell k is fortran_float of columns [b_k,b_k+1) and '
              'blank / missing trailing cells are 0.0 (row_slicing_correct + field lemmas re-using C16); the AUTOUGH2 whitespace split returns exactly '
              'the printed numbers and merges numbers printed without a blank; rows are kept one per printed index in index order; row-index, '
              'row-name and column-name addressing agree and a reversed connection name gives the negated row. '
              'Whole table, TOUGH2 family (read_table_TOUGH2, bound for TOUGH2/TOUGH2_MP/TOUGH3/TOUGHREACT/TOUGH+): for arbitrary lines forming a table region that is well formed for the layout recorded at set-up '
              '(decidable predicate TableRegionT: header_skiplines header lines, then per entry of skiplines one data line plus that many skipped lines, every data line keyed by a row of the table and read without error), '
              'the model of read_table_TOUGH2 returns, leaves the file exactly behind the region, stores under the row named by each data line the values of the row reader on that line (a later line naming the same row wins, as coded), '
              'leaves unnamed rows, other tables and all other reader state unchanged (table_read_TOUGH2; data_line_meaning spells out the per-line predicate); '
              'each such cell is fortran_float of the column slice of its line (cells_equal_printed_table_TOUGH2); skip_table_TOUGH2 on the same region ends at the same position as reading it when no row is printed twice (skip_table_lands_where_read_lands_TOUGH2). '
              'Whole table, AUTOUGH2 (read_table_AUTOUGH2, a loop that runs to the terminator): for arbitrary lines forming a well-formed region (decidable predicate TableRegionA: title block, blank line, header block, blank lines, data lines none of which carries the keyword in columns 1..5 and each splitting into one value per column, the keyword line), '
              'the model returns, the loop stops at the terminator and one more line is read behind it, row j holds exactly the values read_table_line_AUTOUGH2 returns for the j-th data line, later rows, other tables and all other reader state are unchanged (table_read_AUTOUGH2); '
              'skip_table_AUTOUGH2 ends at the same position when no header line carries the keyword (skip_table_lands_where_read_lands_AUTOUGH2). '
              'All tables of one result block, TOUGH2 family (tables_read_block_TOUGH2): the walk next_table_TOUGH2 (to the KCYC..ITER line, over blank lines, to the next header, table named by its first three words, stop at the end of file or at a KCYC line of the next result block) is proved on lines, '
              'and the loop of read_tables_TOUGH2 over a well-formed block (decidable conditions EntryOk / LinksOk / EndOk; a table the reader holds no table for - in skip_tables or absent at the first time - is skipped to its @@@@@ line) returns, leaves the file behind the block, '
              'every table read holds under the row named by each of its own data lines the row-reader values of that line whatever tables were read or skipped before it, and every table not read keeps its contents (the skip-independence clause, for one block). '
              'All tables of one result block, AUTOUGH2 (tables_read_block_AUTOUGH2): read_header_AUTOUGH2 (title line, step and time from the AFTER..TIME STEPS..SECONDS line, one more line), read_table_AUTOUGH2 or skip_table_AUTOUGH2 (tables in skip_tables), and next_table_AUTOUGH2 (the keyword line of the next table) are proved on lines, '
              'and the loop of read_tables_AUTOUGH2 over a well-formed block (decidable conditions EntryOkA / LinksOkA / EndOkA) returns, leaves the file two lines behind the last terminator, row j of every table read holds the values of its own j-th data line whatever was read or skipped before, tables not read keep their contents, title/step/time are those of the last header. '
              'Composition through set_index: set_index(i) = seek(fullpos[i]) + index + read_tables is proved to show block i\'s own numbers in every table, for AUTOUGH2 (set_index_reads_block_AUTOUGH2) and for TOUGH2/TOUGH2_MP/TOUGH3/TOUGHREACT (set_index_reads_block_TOUGH2, which also characterises read_header_TOUGH2 on lines: time and step from the first two words, skip to the @@@@@ line, to the first non-blank line with at least four words), '
              'under the explicit decidable hypothesis that the position recorded in fullpos[i] is the start of a well-formed block whose first table is the element table. '
              'From set-up to reading: setup_table_AUTOUGH2 run on a printed region (3 lines, column header, 1 line, data lines, terminator; decidable SetupRegionA) stores a table with exactly one row per printed data line keyed by the printed names, leaves the file where reading leaves it, and the same region satisfies TableRegionA for the stored table given only print-level conditions (blank/non-blank layout, one value per column on every data line) (setup_table_records_region_AUTOUGH2); '
              'setup_table_TOUGH2 run on a region without repeated headers (decidable SegsOkT: data lines separated by at most one blank line, ended by a separator line or blank + separator/title/empty/end of file) records header_skiplines = number of header lines and skiplines = lines behind each data line, leaves the file exactly behind the region, and the region is TableRegionT for the stored table '
              'PROVIDED every data line\'s key names a stored row and reads one value per column (setup_table_records_region_TOUGH2_partial: that last clause is an explicit decidable hypothesis, not derived). '
              'No sorry. Partial / not proved: the TOUGH2 set-up link lacks the derivation that rowdict keeps every data line\'s key (distinct printed indices) and that the inferred boundaries give ncols values, and does not cover regions with repeated internal headers; '
              'the block theorems exclude a MASS FLOW RATES diffusion block between tables, the short-header branch of read_header_TOUGH2 inside set_index (fewer than four words on the first non-blank line; proved only at header level), and TOUGH+ (next_table_TOUGHplus, element-table counting); '
              'that the positions setup_pos_* record in fullpos are block starts is a hypothesis (decidable on a file), not a theorem, so the whole-file statement cells_equal_printed (open -> every index -> every table) is still not a single theorem, nor is set-up + read composed over setup_tables; '
              'skip-table independence is proved per block (tables not read keep their contents, tables read get their own region) but not as equality of two whole runs with different skip sets; '
              'the per-simulator method binding is regenerated from the source on every run and the model dispatches through it (binding_is_modelled); the rest is covered by the executable whole-file Lean model of '
              't2listing (all six simulators) compared with the real reader cell for cell (bit-equal doubles) on all 37 shipped files at every result '
              'time and on value-perturbed copies, and by an independent tokenizer oracle on the printed rows.')
LEVEL_NOTE = ('Trusted: Lean kernel (+propext, Classical.choice, Quot.sound); the hand-written models (tied by the correspondence, not proved equal to the Python); '
              'decimal->double by CPython (A-float); ASCII text. A perturbed copy that the reader refuses at open (its own Exception / KeyError) exposes no '
              'table: counted as rejected, and the model must refuse it with the same exception class.')
TECHNIQUE = 'Lean 4 proof over an executable model of the listing reader + differential correspondence with the real reader + independent tokenizer oracle'
ASSUMPTIONS = [
    'ASCII/latin-1 listings; a line is what a binary readline() returns',
    'A-float: the model carries the decimal printed; decimal->double is CPython float()',
]
TRUSTED_EXTRA = ['the independent scanner of printed tables in harness/props/c05.py (validated on every run: it must agree with the real reader on all 37 shipped files)']


def skip_sets(tablenames, rng, how):
    """subsets of tables to skip: all non-empty proper subsets when there are <= 4 tables, else a random choice"""
    names = list(tablenames)
    subsets = []
    for k in range(1, len(names) + 1):
        for c in itertools.combinations(names, k):
            subsets.append(list(c))
    if how == 'all' or len(subsets) <= 3:
        return subsets
    rng.shuffle(subsets)
    return subsets[:how]


def variant_specs(ctx, rel, rng, n_perturb):
    specs = [{'kind': 'orig'}]
    for k in range(n_perturb):
        mode_sets = [PERTURB_MODES, ['neg', 'zero', 'digits'], ['exp3', 'digits'], ['E3', 'exp3', 'neg']]
        specs.append({'kind': 'perturb', 'seed': rng.randrange(1 << 30), 'frac': rng.choice([0.03, 0.2, 0.6]),
                      'modes': rng.choice(mode_sets), 'first_rows': rng.random() < 0.5})
    return specs


def build_jobs(ctx, rng, n_perturb, skips_per_file, indices, dump):
    # table names per file are needed to choose skip sets: take them from the scanner (first block)
    jobs = []
    for rel, family in corpus():
        data = (listing_base() / rel).read_bytes()
        sc = Scan(data, family)
        names = [t.name for t in sc.blocks[0]] if sc.blocks else []
        for vs in variant_specs(ctx, rel, rng, n_perturb):
            sk = skip_sets(names, rng, skips_per_file if vs['kind'] == 'orig' else min(1, skips_per_file) if skips_per_file != 'all' else 2)
            # the shipped files themselves: every result time, so that every printed row of every file goes through the
            # oracle and through the model; variants: the chosen indices
            jobs.append(dict(rel=rel, family=family, vspec=vs, tmp=str(ctx.tmp), indices='all' if vs['kind'] == 'orig' else indices, skips=sk,
                             seed=rng.randrange(1 << 30), dump=dump, addr_samples=12))
    return jobs


def collect(res, results, jobs, facet_name=None):
    for job, r in zip(jobs, results):
        res.evaluations += 1
        if isinstance(r, Timeout):
            res.violations.append(dict(key='reader-hangs:%s' % job['family'],
                                       what='%s [%s]: the reader did not finish within the time limit' % (job['rel'], job['vspec'].get('kind')),
                                       case=dict(file=job['rel'], variant=job['vspec'])))
            continue
        res.violations += r['violations']
        for k, v in r['stats'].items():
            res.count(k, v)
        res.count('files:' + r['family'])
        res.count('variant:' + r['vspec'].get('kind', 'orig'))
        for k, v in (r.get('perturbed') or {}).items():
            res.count('perturbed-tokens:' + k, v)
        for s in r['samples']:
            res.sample(s)
        for name, (nr, nc) in r['tables'].items():
            res.distinct.add((r['rel'], json.dumps(r['vspec'], sort_keys=True), name))


# fixed corpus on top of the random variants: files with a history (a defect once found there)
FIXED_VARIANTS = [
    # TOUGH2/11 prints a 'primary' table only at its last result time; generation rows are constant in time in the
    # shipped file, so only a perturbed copy shows whether the table after it is re-read (fixed in /repo 159f0ee)
    ('TOUGH2/11/case11.listing', {'kind': 'perturb', 'seed': 11, 'frac': 0.3, 'modes': ['digits', 'neg', 'zero'], 'first_rows': False}),
    # TOUGH2/10 is the shipped file whose first columns are printed without exponent: a negative second value in the first
    # row made start_of_values take its sign for an exponent sign (every cell of the first column wrong)
    ('TOUGH2/10/case10.listing', {'kind': 'perturb', 'seed': 363380031, 'frac': 0.6, 'modes': ['neg', 'zero', 'digits'], 'first_rows': False}),
]
# layout-inference variants, per file of a simulator that infers column boundaries from the first printed row: the first
# row of every table holds the narrowest printable number (0.00 right-aligned) in every / every even / every odd value
# column while all other rows keep their (wider) numbers, so a boundary taken from where the first row's numbers happen
# to start or end, rather than from the end of the previous field, cuts digits off the other rows
LAYOUT_VARIANTS = [{'kind': 'perturb', 'seed': 5, 'frac': 0.0, 'modes': ['zero'], 'first_rows': True, 'parity': par} for par in (None, 0, 1)]
SAFE_MODES = ['digits', 'zero']      # same layout as the original: the reader cannot refuse these


def translate(ctx):
    """regenerate lean/PyTough/Gen/ListingBind.lean (per-simulator method binding) from the current /repo source"""
    from translate import listing_bind
    listing_bind.run()


def run(ctx):
    res = Result()
    res.rule = ('cases = (shipped listing file | value-perturbed variant) x result index (first/middle/last/random in quick, all in thorough) '
                'x exposed table; non-trivial = distinct (file, variant, table) whose rows were compared cell by cell with the printed text')
    rng = ctx.rng('c05')
    jobs = build_jobs(ctx, rng, ctx.n(2, 40), ctx.n(3, 'all'), ctx.n('some', 'all'), dump=ctx.model_ok)
    fam_of = dict(corpus())
    for rel, vs in FIXED_VARIANTS:
        if rel in fam_of:
            jobs.append(dict(rel=rel, family=fam_of[rel], vspec=vs, tmp=str(ctx.tmp), indices='all',
                             skips=[['connection'], ['element', 'generation']] if 'case11' in rel else [],
                             seed=1, dump=ctx.model_ok, addr_samples=12))
    for rel, family in corpus():
        if family == 'AUTOUGH2':
            continue
        for vs in LAYOUT_VARIANTS:
            jobs.append(dict(rel=rel, family=family, vspec=vs, tmp=str(ctx.tmp), indices=ctx.n('some', 'all'), skips=[], seed=1,
                             dump=ctx.model_ok and vs['parity'] is None, addr_samples=4))
            res.count('layout-inference-variants')
    results = run_jobs('job_c05', jobs, timeout=ctx.n(120, 600))
    results = confirm_timeouts('job_c05', jobs, results, ctx.n(120, 600))
    # floor of accepted variants per file: a variant the reader refuses at open says nothing about the tables
    floor = ctx.n(1, 4)
    accepted = Counter()
    for j, r in zip(jobs, results):
        if j['vspec'].get('kind') != 'orig' and not isinstance(r, Timeout) and not r.get('rejected'):
            accepted[j['rel']] += 1
    extra = []
    for rel, family in corpus():
        for k in range(max(0, floor - accepted[rel])):
            vs = {'kind': 'perturb', 'seed': rng.randrange(1 << 30), 'frac': rng.choice([0.2, 0.6]), 'modes': SAFE_MODES, 'first_rows': True}
            extra.append(dict(rel=rel, family=family, vspec=vs, tmp=str(ctx.tmp), indices=ctx.n('some', 'all'), skips=[], seed=rng.randrange(1 << 30),
                              dump=ctx.model_ok, addr_samples=12))
    if extra:
        results += run_jobs('job_c05', extra, timeout=ctx.n(120, 600))
        jobs += extra
    collect(res, results, jobs)
    nvar = sum(1 for j in jobs if j['vspec'].get('kind') != 'orig')
    nrej = res.stats.get('variant-rejected-by-reader', 0)
    res.count('variants-generated', nvar)
    res.count('variants-accepted', nvar - nrej)
    acc2 = Counter()
    for j, r in zip(jobs, results):
        if j['vspec'].get('kind') != 'orig' and not isinstance(r, Timeout) and not r.get('rejected'):
            acc2[j['rel']] += 1
    res.count('min-accepted-variants-per-file', min([acc2[rel] for rel, _ in corpus()] or [0]))
    res.hyp['file positions remembered by the reader are line starts (the model abstracts byte offsets to line numbers)'] = \
        [res.stats.get('positions-at-line-start', 0), res.stats.get('positions-remembered', 0)]
    res.facet('oracle_tables')['cases'] = res.stats.get('tables-checked', 0)
    shared_process_facet(ctx, res)
    if ctx.model_ok:
        correspond(ctx, res, jobs, results)
        broken_facet(ctx, res, ctx.n(24, 300))
    if not ctx.quick:
        try:
            measure_reach(ctx, res)
        except Exception as e:
            ctx.notes.append('reach measurement failed: %s' % e)
    return res


def measure_reach(ctx, res):
    """thorough tier: which lines of the anchored code (t2listing.py: listingtable and t2listing up to history()) the
    explored inputs execute — a facet cannot notice a change to a line it never runs"""
    import coverage, random, ast
    src = core.REPO / 't2listing.py'
    tree = ast.parse(src.read_text())
    anchored = set()
    for node in tree.body:
        if isinstance(node, ast.ClassDef) and node.name in ('listingtable', 't2listing'):
            for f in node.body:
                if isinstance(f, ast.FunctionDef) and f.name not in ('get_vtk_data', 'write_vtk', 'add_side_recharge', 'get_DataFrame',
                                                                     'rows_matching', '__add__', '__sub__', 'get_reductions', 'get_difference', '__repr__'):
                    anchored.update(range(f.lineno, f.end_lineno + 1))
    cov = coverage.Coverage(include=[str(src)], data_file=None)
    cov.start()
    try:
        rng = random.Random(ctx.seed)
        for rel, family in corpus():
            lst = open_listing(listing_base() / rel, [])
            n = lst.num_fulltimes
            for i in range(n):
                lst.index = i
            lst.first(); lst.next(); lst.prev(); lst.last()
            lst.time = float(lst.fulltimes[0]); lst.step = int(lst.fullsteps[-1])
            names = lst.table_names
            t = table_of(lst, names[0])
            lst.history([(names[0][0], t.row_name[0], t.column_name[0])])
            if len(names) > 1:
                open_listing(listing_base() / rel, [names[-1]]).close()
            lst.close()
    finally:
        cov.stop()
    data = cov.get_data()
    executed = set(data.lines(str(src)) or [])
    _, statements, _, missing, _ = cov.analysis2(str(src))
    stm = [l for l in statements if l in anchored]
    hit = [l for l in stm if l in executed]
    res.stats['reach:anchored-statements'] = len(stm)
    res.stats['reach:executed-by-shipped-files'] = len(hit)
    res.stats['reach:not-executed-lines'] = ','.join(str(l) for l in stm if l not in executed)[:1500]


# ---------------------------------------------------------------------- correspondence with the Lean model

def parse_view(line):
    """reply of the driver's `view` request -> (index, time, step, {table: (rows, cols, matrix)})"""
    import numpy as np
    w = line.split(' ')
    if w[0] != 'ok':
        raise RuntimeError('driver view: %s' % line[:200])
    index, time_, step, nt = int(w[1]), float(w[2]), (None if w[3] == 'None' else int(w[3])), int(w[4])
    k = 5
    tabs = {}
    unhex = lambda h: '' if h == '-' else bytes.fromhex(h).decode('latin-1')
    for _ in range(nt):
        assert w[k] == 'T', w[k:k + 3]
        name, nr, nc = w[k + 1], int(w[k + 2]), int(w[k + 3])
        k += 4
        rows = []
        for r in range(nr):
            parts = [unhex(x) for x in w[k + r].split(',')]
            rows.append(parts[0] if len(parts) == 1 else tuple(parts))
        k += nr
        cols = [unhex(x) for x in w[k:k + nc]]
        k += nc
        m = np.array([float(x) for x in w[k:k + nr * nc]], dtype=float).reshape(nr, nc) if nr * nc else np.zeros((nr, nc))
        k += nr * nc
        tabs[name] = (rows, cols, m)
    return index, time_, step, tabs


def load_dump(path):
    import numpy as np
    z = np.load(path, allow_pickle=False)
    meta = json.loads(str(z['meta']))
    tabs = {}
    for t in meta['tables']:
        rows = [tuple(r) if isinstance(r, list) else r for r in t['rows']]
        tabs[t['name']] = (rows, t['cols'], z['t_' + t['name']])
    return meta['index'], struct.unpack('>d', bytes.fromhex(meta['time']))[0], meta['step'], tabs


def bit_equal(a, b):
    import numpy as np
    if a.shape != b.shape:
        return False
    ai, bi = a.view(np.uint64), b.view(np.uint64)
    return bool(np.all((ai == bi) | (np.isnan(a) & np.isnan(b))))


def parse_got(line):
    w = line.split(' ')
    if w[0] == 'exc':
        return ['exc', w[1]]
    if w[:2] == ['ok', 'none']:
        return ['none']
    unhex = lambda h: '' if h == '-' else bytes.fromhex(h).decode('latin-1')
    if w[:2] == ['ok', 'col']:
        return ['col', [bits(float(x)) for x in w[2:]]]
    if w[:2] == ['ok', 'row']:
        key = [unhex(x) for x in w[2].split(',')]
        cells = {}
        for x in w[3:]:
            c, v = x.split('=')
            cells[unhex(c)] = bits(float(v))
        return ['row', key, [[c, v] for c, v in cells.items()]]
    raise RuntimeError('driver addr: %s' % line[:200])


def model_views(requests):
    """requests: list of (path, skip list, [indices], {index: [(table, encoded key)]}); one driver process; returns per
    request ('exc', class) or ('ok', {index: view or ('exc', class)}, info line, {index: [parsed lookups]})"""
    lines = []
    for path, skip, indices, lookups in requests:
        od = '1' if str(path).endswith('OUTPUT_DATA') else '0'
        lines.append('open %s %s %s' % (hexs(str(path)), od, ','.join(skip) if skip else '-'))
        lines.append('info')
        for i in indices:
            lines.append('index %d' % i)
            lines.append('view')
            for (tn, k) in lookups.get(i, []):
                lines.append('addr %s %s' % (tn, k))
    out = core.run_driver('drv_c05', lines)
    k = 0
    res = []
    for path, skip, indices, lookups in requests:
        o = out[k]; info = out[k + 1]; k += 2
        views, looks = {}, {}
        for i in indices:
            a, b = out[k], out[k + 1]; k += 2
            if o.startswith('ok'):
                views[i] = parse_view(b) if a.startswith('ok') else ('exc', a.split()[1] if a.startswith('exc') else a)
            ls = []
            for _ in lookups.get(i, []):
                if o.startswith('ok') and a.startswith('ok'):
                    ls.append(parse_got(out[k]))
                k += 1
            looks[i] = ls
        if o.startswith('ok'):
            res.append(('ok', views, info, looks))
        elif o.startswith('exc'):
            res.append(('exc', o.split()[1]))
        else:
            raise RuntimeError('driver: %s' % o[:300])
    return res


def run_model_parallel(requests, nthreads=6):
    from concurrent.futures import ThreadPoolExecutor
    if not requests:
        return []
    # balance by file size
    sized = sorted(range(len(requests)), key=lambda i: -os.path.getsize(requests[i][0]) * max(1, len(requests[i][2])))
    buckets = [[] for _ in range(min(nthreads, len(requests)))]
    loads = [0] * len(buckets)
    for i in sized:
        b = loads.index(min(loads))
        buckets[b].append(i)
        loads[b] += os.path.getsize(requests[i][0]) * max(1, len(requests[i][2]))
    out = [None] * len(requests)
    with ThreadPoolExecutor(max_workers=len(buckets)) as ex:
        futs = [ex.submit(model_views, [requests[i] for i in b]) for b in buckets]
        for b, f in zip(buckets, futs):
            for i, r in zip(b, f.result()):
                out[i] = r
    return out


def correspond(ctx, res, jobs, results):
    """facet listing_file: the whole-file model (Lean) against the real reader, every exposed table, cell for cell"""
    f = res.facet('listing_file')
    reqs, owners = [], []
    for job, r in zip(jobs, results):
        if isinstance(r, Timeout):
            continue
        if r.get('rejected'):
            reqs.append((r['path'], [], [], {}))
            owners.append((job, r, 'rejected'))
        elif r.get('dumps'):
            looks = {i: [(tn, k) for (tn, k, got) in v] for i, v in (r.get('addr') or {}).items()}
            reqs.append((r['path'], [], [i for i, _ in r['dumps']], looks))
            owners.append((job, r, 'views'))
    outs = run_model_parallel(reqs)
    fa = res.facet('listing_addressing')
    hyp_rf = res.hyp.setdefault('RowFormat: side conditions of column_boundaries_correct hold for the line the columns of a TOUGH2-family table were inferred from (rowFormatB, sound by row_format_decidable)', [0, 0])
    hyp_names = res.hyp.setdefault('distinct row names (hypothesis hname of addressing_agrees holds for every row)', [0, 0])
    for (job, r, kind), (path, skip, indices, looks), o in zip(owners, reqs, outs):
        case = dict(file=job['rel'], variant=job['vspec'])
        if o[0] == 'ok':
            for w in o[2].split(' '):
                if w.startswith('RF=') and w != 'RF=-':
                    hyp_rf[1] += 1
                    hyp_rf[0] += w == 'RF=1'
            for i, ls in o[3].items():
                for (tn, k, got), mg in zip((r.get('addr') or {}).get(i, []), ls):
                    fa['cases'] += 1
                    res.count('model:lookups:' + got[0])
                    if got != mg:
                        fa['disagreements'] += 1
                        res.disagreements.append(dict(facet='listing_addressing', case=dict(case, index=i, table=tn, key=k), model=json.dumps(mg)[:160], impl=json.dumps(got)[:160]))
        if kind == 'rejected':
            f['cases'] += 1
            res.count('model:rejected-variants-compared')
            if not (o[0] == 'exc' and o[1] == r.get('rejected_class', 'Exception')):
                f['disagreements'] += 1
                res.disagreements.append(dict(facet='listing_file', case=case, model='open: %s' % (o[1] if o[0] == 'exc' else 'ok'),
                                              impl='open raises %s: %s' % (r.get('rejected_class'), r['rejected'])))
            continue
        if o[0] == 'exc':
            f['cases'] += 1
            f['disagreements'] += 1
            res.disagreements.append(dict(facet='listing_file', case=case, model='open raises %s' % o[1], impl='opens'))
            continue
        for (i, dpath) in r['dumps']:
            f['cases'] += 1
            mv = o[1].get(i)
            real = load_dump(dpath)
            c2 = dict(case, index=i)
            if isinstance(mv, tuple) and len(mv) == 2 and mv[0] == 'exc':
                f['disagreements'] += 1
                res.disagreements.append(dict(facet='listing_file', case=c2, model='index raises %s' % mv[1], impl='ok'))
                continue
            d = None
            if mv[0] != real[0]: d = 'index %r != %r' % (mv[0], real[0])
            elif bits(mv[1]) != bits(real[1]) and not (mv[1] != mv[1] and real[1] != real[1]): d = 'time %r != %r' % (mv[1], real[1])
            elif mv[2] != real[2]: d = 'step %r != %r' % (mv[2], real[2])
            elif sorted(mv[3]) != sorted(real[3]): d = 'tables %r != %r' % (sorted(mv[3]), sorted(real[3]))
            else:
                for name in sorted(real[3]):
                    r1, c1, m1 = mv[3][name]
                    r2, c2_, m2 = real[3][name]
                    res.count('model:cells-compared', int(m2.size))
                    if job['vspec'].get('kind', 'orig') == 'orig' and i == indices[0]:
                        hyp_names[1] += 1
                        hyp_names[0] += len(set(r2)) == len(r2)
                    if r1 != r2: d = 'table %s: row names differ (model %d rows, impl %d)' % (name, len(r1), len(r2)); break
                    if c1 != c2_: d = 'table %s: column names differ: %r vs %r' % (name, c1, c2_); break
                    if not bit_equal(m1, m2):
                        import numpy as np
                        bad = np.argwhere(~((m1 == m2) | (np.isnan(m1) & np.isnan(m2))))
                        if len(bad) == 0:
                            bad = np.argwhere(np.signbit(m1) != np.signbit(m2))
                        rr, cc = (int(x) for x in bad[0])
                        d = 'table %s: cell [%d][%s] model %r, impl %r (%d cells differ)' % (name, rr, c1[cc], float(m1[rr, cc]), float(m2[rr, cc]), len(bad))
                        break
            res.count('model:views-compared')
            if d:
                f['disagreements'] += 1
                res.disagreements.append(dict(facet='listing_file', case=c2, model=d, impl='(see model)'))


def search(ctx, seconds, res):
    found = list(res.violations)
    t0 = time.time()
    k = 0
    while not found and time.time() - t0 < seconds:
        k += 1
        c2 = core.Ctx(ctx.prop, ctx.tier, ctx.seed + 7919 * k)
        c2.model_ok = False
        try:
            rng = c2.rng('c05-search')
            jobs = build_jobs(c2, rng, 3, 2, 'some', dump=False)
            r2 = Result()
            collect(r2, run_jobs('job_c05', jobs, timeout=120), jobs)
            found = r2.violations
        finally:
            c2.cleanup()
    return found


def replay(ctx, payload):
    c = payload.get('case') or {}
    if c.get('shared_process'):
        r2 = Result()
        shared_process_facet(ctx, r2)
        if r2.violations:
            return True, '\n'.join(v['what'] for v in r2.violations[:5])
        return False, 'readers sharing a process show what each file shows alone (%d readers compared)' % r2.stats.get('shared-readers-compared', 0)
    if 'file' not in c:
        return False, 'replay file names what no longer checks: %s' % payload.get('broken')
    rel = c['file']
    family = rel.split('/')[0]
    job = dict(rel=rel, family=family, vspec=c.get('variant', {'kind': 'orig'}), tmp=str(ctx.tmp), indices='all',
               skips=[c['skip']] if c.get('skip') else [], seed=0, dump=False)
    r = run_jobs('job_c05', [job], timeout=300)[0]
    if isinstance(r, Timeout):
        return True, '%s: the reader did not finish' % rel
    if r['violations']:
        return True, '\n'.join(v['what'] for v in r['violations'][:5])
    return False, '%s %r: every exposed table equals the printed rows (%d rows compared)' % (rel, job['vspec'], r['stats'].get('rows-checked', 0))
