"""C01 support: data objects as JSON-able *specs*.

  spec  --build-->  real t2data object (public constructors only)
  real t2data object  --dump-->  spec
  spec  --canon(cfg)-->  the spec a write/read cycle must give back (computed independently of the
                         real reader/writer: rounding with `decimal`, the (A3,I2) block-name rule,
                         blank = None, trailing None padding ignored)

A spec is a dict; reals are Python floats (json round-trips them exactly), names are str.
"""
import math, decimal, contextlib, io
from decimal import Decimal

SECTIONS = ['SIMUL', 'ROCKS', 'PARAM', 'MOMOP', 'START', 'NOVER', 'RPCAP', 'LINEQ', 'SOLVR', 'MULTI', 'TIMES',
            'SELEC', 'DIFFU', 'ELEME', 'CONNE', 'MESHM', 'GENER', 'SHORT', 'FOFT', 'COFT', 'GOFT', 'INCON', 'INDOM']
XP_SECTIONS = ['ROCKS', 'ELEME', 'CONNE', 'RPCAP', 'GENER']

PARAM_KEYS = ['max_iterations', 'print_level', 'max_timesteps', 'max_duration', 'print_interval', 'diff0', 'texp', 'be',
              'tstart', 'tstop', 'const_timestep', 'max_timestep', 'print_block', 'gravity', 'timestep_reduction', 'scale',
              'relative_error', 'absolute_error', 'pivot', 'upstream_weight', 'newton_weight', 'derivative_increment']
ROCK_EXTRA = ['compressibility', 'expansivity', 'dry_conductivity', 'tortuosity', 'klinkenberg', 'xkd3', 'xkd4']
GEN_KEYS = ['block', 'name', 'nseq', 'nadd', 'nads', 'ltab', 'type', 'itab', 'gx', 'ex', 'hg', 'fg']


def quiet():
    return contextlib.redirect_stdout(io.StringIO())


def py(v):
    """numpy scalars -> python scalars"""
    if v is None or isinstance(v, (str, bool)):
        return v
    if isinstance(v, int):
        return int(v)
    if isinstance(v, float):
        return float(v)
    try:
        import numpy as np
        if isinstance(v, np.integer): return int(v)
        if isinstance(v, np.floating): return float(v)
        if isinstance(v, np.ndarray): return [py(x) for x in v.tolist()]
    except ImportError:
        pass
    if isinstance(v, (list, tuple)):
        return [py(x) for x in v]
    return v


# ---------------------------------------------------------------------------------- build

def build(spec):
    """real t2data object from a spec, through the public constructors / attribute assignments"""
    import t2data as T, t2grids as G
    import numpy as np
    d = T.t2data()
    d.title = spec.get('title', '')
    d.simulator = spec.get('simulator', '')
    for r in spec.get('rocks', []):
        rt = G.rocktype(r['name'], r['nad'], r['density'], r['porosity'], list(r['permeability']),
                        r['conductivity'], r['specific_heat'])
        for k in ROCK_EXTRA:
            if k in r: setattr(rt, k, r[k])
        rt.relative_permeability = dict((k, (list(v) if isinstance(v, list) else v)) for k, v in r.get('rp', {}).items())
        rt.capillarity = dict((k, (list(v) if isinstance(v, list) else v)) for k, v in r.get('cp', {}).items())
        d.grid.add_rocktype(rt)
    p = spec.get('parameter', {})
    for k, v in p.items():
        if k == 'option':
            for i, o in enumerate(v): d.parameter['option'][i] = o
        elif k in ('timestep', 'default_incons'):
            d.parameter[k] = list(v)
        else:
            d.parameter[k] = v
    for i, o in enumerate(spec.get('more_option', [])):
        d.more_option[i] = o
    for k in ('multi', 'lineq', 'solver'):
        d.__dict__[k].update(spec.get(k, {}))
    d.start = spec.get('start', False)
    d.noversion = spec.get('noversion', False)
    for k in ('relative_permeability', 'capillarity'):
        for kk, v in spec.get(k, {}).items():
            d.__dict__[k][kk] = list(v) if isinstance(v, list) else v
    ot = spec.get('output_times', {})
    for k, v in ot.items():
        d.output_times[k] = list(v) if isinstance(v, list) else v
    for b in spec.get('blocks', []):
        d.grid.add_block(G.t2block(b['name'], b['volume'], d.grid.rocktype[b['rocktype']],
                                   centre=(list(b['centre']) if b.get('centre') is not None else None),
                                   ahtx=b.get('ahtx'), pmx=b.get('pmx'), nseq=b.get('nseq'), nadd=b.get('nadd')))
    for c in spec.get('connections', []):
        d.grid.add_connection(G.t2connection([d.grid.block[c['block'][0]], d.grid.block[c['block'][1]]],
                                             c['direction'], list(c['distance']), c['area'], c['dircos'], c.get('sigma'),
                                             c.get('nseq'), c.get('nad1'), c.get('nad2')))
    for g in spec.get('generators', []):
        d.add_generator(T.t2generator(name=g['name'], block=g['block'], nseq=g.get('nseq'), nadd=g.get('nadd'),
                                      nads=g.get('nads'), type=g['type'], ltab=g['ltab'], itab=g['itab'],
                                      gx=g.get('gx'), ex=g.get('ex'), hg=g.get('hg'), fg=g.get('fg'),
                                      time=list(g.get('time', [])), rate=list(g.get('rate', [])),
                                      enthalpy=list(g.get('enthalpy', []))))
    so = spec.get('short_output', {})
    if 'frequency' in so: d.short_output['frequency'] = so['frequency']
    if 'block' in so: d.short_output['block'] = [d.grid.block[n] for n in so['block']]
    if 'connection' in so: d.short_output['connection'] = [d.grid.connection[tuple(n)] for n in so['connection']]
    if 'generator' in so: d.short_output['generator'] = [d.generator[tuple(n)] for n in so['generator']]
    for it in spec.get('history_block', []):
        d.history_block.append(d.grid.block[it[1]] if isinstance(it, list) else it)
    for it in spec.get('history_connection', []):
        d.history_connection.append(d.grid.connection[(it[1], it[2])] if it[0] == 'obj' else (it[0], it[1]))
    for it in spec.get('history_generator', []):
        d.history_generator.append(d.grid.block[it[1]] if isinstance(it, list) else it)
    for e in spec.get('incon', []):
        name, por, vs, nseq, nadd, n = e
        d.incon[name] = [por, list(vs)] if n == 2 else [por, list(vs), nseq, nadd]
    for rock, vs in spec.get('indom', []):
        d.indom[rock] = list(vs)
    d.diffusion = [list(x) for x in spec.get('diffusion', [])]
    sel = spec.get('selection', {})
    if sel:
        d.selection['integer'] = list(sel['integer'])
        d.selection['float'] = list(sel['float'])
    for m in spec.get('meshmaker', []):
        if m[0] == 'rz2d':
            d.meshmaker.append(('rz2d', [(k, dict((kk, (list(v) if isinstance(v, list) else v)) for kk, v in sub.items())) for k, sub in m[1]]))
        elif m[0] == 'xyz':
            d.meshmaker.append(('xyz', [m[1][0]] + [dict((kk, (list(v) if isinstance(v, list) else v)) for kk, v in sub.items()) for sub in m[1][1:]]))
        else:
            d.meshmaker.append(('minc', dict((kk, (list(v) if isinstance(v, list) else v)) for kk, v in m[1].items())))
    d.end_keyword = spec.get('end_keyword', 'ENDCY')
    return d


def apply_edits(d, edits):
    """edit a built object through the public API, the way scripts do before writing: afterwards the
    name -> object dictionaries are no longer in the order of their lists"""
    import t2data as T
    from copy import copy
    g = d.grid
    for e in edits:
        op = e[0]
        if op == 'sort_rocks': g.sort_rocktypes()
        elif op == 'rename_rock': g.rename_rocktype(e[1], e[2])
        elif op == 'readd_rock':
            rt = g.rocktype[e[1]]
            g.delete_rocktype(e[1]); g.add_rocktype(rt)
        elif op == 'clean_rocks': g.clean_rocktypes()
        elif op == 'reorder_blocks': g.reorder(block_names=list(e[1]))
        elif op == 'rename_blocks': d.rename_blocks(dict(e[1]))
        elif op == 'readd_block':
            blk = g.block[e[1]]
            g.delete_block(e[1]); g.add_block(blk)
        elif op == 'demote_block': g.demote_block(list(e[1]) if len(e[1]) > 1 else e[1][0])
        elif op == 'reorder_conns': g.reorder(connection_names=[tuple(x) for x in e[1]])
        elif op == 'readd_gen':
            gen = d.generator[tuple(e[1])]
            d.delete_generator(tuple(e[1])); d.add_generator(gen)
        elif op == 'dup_gen':
            gen = copy(d.generator[tuple(e[1])])
            gen.time, gen.rate, gen.enthalpy = list(gen.time), list(gen.rate), list(gen.enthalpy)
            gen.gx = e[2]
            d.add_generator(gen)
        else:
            raise ValueError('unknown edit %r' % (e,))
    return d


# ---------------------------------------------------------------------------------- dump

def dump(d):
    """spec of a real t2data object (every attribute the property lists)"""
    s = {'title': d.title, 'simulator': d.simulator, 'sections': list(d._sections), 'end_keyword': d.end_keyword,
         'extra_precision': list(d.extra_precision), 'echo': bool(d.echo_extra_precision)}
    rocks = []
    for rt in d.grid.rocktypelist:
        r = {'name': rt.name, 'nad': py(rt.nad), 'density': py(rt.density), 'porosity': py(rt.porosity),
             'permeability': py(rt.permeability), 'conductivity': py(rt.conductivity), 'specific_heat': py(rt.specific_heat)}
        for k in ROCK_EXTRA:
            if k in rt.__dict__: r[k] = py(rt.__dict__[k])
        r['rp'] = dict((k, py(v)) for k, v in rt.relative_permeability.items())
        r['cp'] = dict((k, py(v)) for k, v in rt.capillarity.items())
        rocks.append(r)
    s['rocks'] = rocks
    p = {}
    for k, v in d.parameter.items():
        if k == '_option_str': continue
        p[k] = py(v)
    s['parameter'] = p
    s['more_option'] = py(d.more_option)
    for k in ('multi', 'lineq', 'solver', 'relative_permeability', 'capillarity', 'output_times'):
        s[k] = dict((kk, py(v)) for kk, v in d.__dict__[k].items())
    s['start'], s['noversion'] = bool(d.start), bool(d.noversion)
    s['blocks'] = [{'name': b.name, 'volume': py(b.volume), 'rocktype': b.rocktype.name,
                    'centre': (py(b.centre) if b.centre is not None else None),
                    'ahtx': py(b.ahtx), 'pmx': py(b.pmx), 'nseq': py(b.nseq), 'nadd': py(b.nadd)} for b in d.grid.blocklist]
    s['connections'] = [{'block': [c.block[0].name, c.block[1].name], 'direction': py(c.direction), 'distance': py(c.distance),
                         'area': py(c.area), 'dircos': py(c.dircos), 'sigma': py(c.sigma), 'nseq': py(c.nseq),
                         'nad1': py(c.nad1), 'nad2': py(c.nad2)} for c in d.grid.connectionlist]
    gens = []
    for g in d.generatorlist:
        e = dict((k, py(getattr(g, k))) for k in GEN_KEYS)
        e['time'], e['rate'], e['enthalpy'] = py(g.time), py(g.rate), py(g.enthalpy)
        gens.append(e)
    s['generators'] = gens
    # the lookup dictionaries must describe the same objects as the lists (cross-reference integrity)
    s['registry'] = {
        'rocktype': sorted(k for k in d.grid.rocktype) == sorted(r.name for r in d.grid.rocktypelist)
                    and all(d.grid.rocktype[r.name] is r for r in d.grid.rocktypelist),
        'block': sorted(d.grid.block) == sorted(b.name for b in d.grid.blocklist)
                 and all(d.grid.block[b.name] is b for b in d.grid.blocklist),
        'connection': sorted(d.grid.connection) == sorted((c.block[0].name, c.block[1].name) for c in d.grid.connectionlist),
        'generator': sorted(d.generator) == sorted(set((g.block, g.name) for g in d.generatorlist)),
    }
    so = {}
    if 'frequency' in d.short_output: so['frequency'] = py(d.short_output['frequency'])
    if 'block' in d.short_output: so['block'] = [b.name for b in d.short_output['block']]
    if 'connection' in d.short_output: so['connection'] = [[c.block[0].name, c.block[1].name] for c in d.short_output['connection']]
    if 'generator' in d.short_output: so['generator'] = [[g.block, g.name] for g in d.short_output['generator']]
    s['short_output'] = so
    s['history_block'] = [(b if isinstance(b, str) else ['obj', b.name]) for b in d.history_block]
    s['history_connection'] = [([c[0], c[1]] if isinstance(c, tuple) else ['obj', c.block[0].name, c.block[1].name])
                               for c in d.history_connection]
    s['history_generator'] = [(b if isinstance(b, str) else ['obj', b.name]) for b in d.history_generator]
    inc = []
    for name, v in d.incon.items():
        inc.append([name, py(v[0]), py(v[1]), py(v[2]) if len(v) > 2 else None, py(v[3]) if len(v) > 3 else None, len(v)])
    s['incon'] = inc
    s['indom'] = [[k, py(v)] for k, v in d.indom.items()]
    s['diffusion'] = [py(x) for x in d.diffusion]
    s['selection'] = dict((k, py(v)) for k, v in d.selection.items())
    mm = []
    for m in d.meshmaker:
        if m[0] == 'rz2d':
            mm.append(['rz2d', [[k, dict((kk, py(v)) for kk, v in sub.items())] for k, sub in m[1]]])
        elif m[0] == 'xyz':
            mm.append(['xyz', [py(m[1][0])] + [dict((kk, py(v)) for kk, v in sub.items()) for sub in m[1][1:]]])
        else:
            mm.append([m[0], dict((kk, py(v)) for kk, v in m[1].items())])
    s['meshmaker'] = mm
    return s


# ---------------------------------------------------------------------------------- canonical expectation

def spec_tables():
    import t2data as T
    return T.t2data_format_specification, T.t2data_extra_precision_format_specification


class Fields:
    """(width, precision, type, left) of every field, from the *current* tables"""
    def __init__(self, xp_sections=()):
        main, xp = spec_tables()
        self.main, self.xp = main, xp
        self.xp_sections = set(xp_sections)

    def get(self, rec, i, section=None):
        tab = self.main
        if section in self.xp_sections and rec in self.xp:
            tab = self.xp
        sp = tab[rec][1][i]
        fmt, typ = sp[:-1], sp[-1]
        w = int(fmt.partition('.')[0])
        pr = fmt.partition('.')[2]
        return abs(w), (int(pr) if pr else None), typ, w < 0

    def named(self, rec, name, section=None):
        tab = self.main
        if section in self.xp_sections and rec in self.xp:
            tab = self.xp
        return self.get(rec, tab[rec][0].index(name), section)

    def count(self, rec):
        return len(self.main[rec][1])


def fmt_real_text(x, w, p, typ):
    """text of x in a field of width w with p decimals ('e' or 'f'), rounding half-even on the exact value;
    None when it is wider than w"""
    if isinstance(x, int) and not isinstance(x, bool):
        dx = Decimal(x)
    else:
        dx = Decimal(float(x))
    neg = dx.is_signed()
    a = abs(dx)
    if typ == 'f':
        q = a.quantize(Decimal(1).scaleb(-p), rounding=decimal.ROUND_HALF_EVEN, context=decimal.Context(prec=400))
        body = format(q, 'f')
    else:
        if a == 0:
            digs, e = '0' * (p + 1), 0
        else:
            r = decimal.Context(prec=p + 1, rounding=decimal.ROUND_HALF_EVEN).create_decimal(a)
            sign, dg, ex = r.as_tuple()
            ds = ''.join(str(k) for k in dg)
            ds = ds + '0' * (p + 1 - len(ds))
            e = ex + len(dg) - 1
            digs = ds[:p + 1]
        body = digs[0] + ('.' + digs[1:] if p > 0 else '') + 'e' + ('-' if e < 0 else '+') + ('%02d' % abs(e))
    t = ('-' if neg else '') + body
    return t if len(t) <= w else None


def canon_real(x, w, p, typ):
    """the double a reader gets from the field that holds x: x rounded to the digits the field carries
    (fewer decimals when the full precision does not fit in the columns)"""
    if x is None:
        return None
    if isinstance(x, float) and (math.isnan(x) or math.isinf(x)):
        raise ValueError('non-finite value in a spec')
    pp = p if p is not None else 6
    while pp >= 0:
        t = fmt_real_text(x, w, pp, typ)
        if t is not None:
            return float(t)
        pp -= 1
    raise OverflowError('value %r does not fit %d.%s%s' % (x, w, p, typ))


def canon_int(n, w):
    if n is None:
        return None
    if len(str(int(n))) > w:
        raise OverflowError('integer %r does not fit %dd' % (n, w))
    return int(n)


def canon_str(s, w, left=False):
    if s is None:
        return None
    if len(s) > w:
        raise OverflowError('string %r does not fit %ds' % (s, w))
    return s.ljust(w) if left else s.rjust(w)


def norm_name(n):
    """TOUGH2 reads a block name as (A3, I2): 'abc05' and 'abc 5' are one name"""
    if isinstance(n, str) and len(n) == 5:
        t = n[3:5]
        if t.isdigit() or (t[0] == ' ' and t[1].isdigit()):
            return n[:3] + '%2d' % int(t)
    return n


def trim(vals):
    vals = list(vals)
    while vals and vals[-1] is None:
        vals.pop()
    return vals


def canon(spec, cfg):
    """expected spec after write + read in configuration cfg = dict(mesh='in'|'ascii'|'binary', xp=[sections], echo=bool)"""
    xp = cfg.get('xp')
    xp = list(XP_SECTIONS) if xp is True else ([xp] if isinstance(xp, str) else list(xp or []))
    F = Fields(xp if spec.get('simulator', '').strip() else [])
    autough2 = bool(spec.get('simulator', ''))
    binary = cfg.get('mesh') == 'binary'

    def fv(rec, name_or_i, x, section=None):
        w, p, typ, left = F.named(rec, name_or_i, section) if isinstance(name_or_i, str) else F.get(rec, name_or_i, section)
        if typ == 'd': return canon_int(x, w)
        if typ == 's': return canon_str(x, w, left)
        return canon_real(x, w, p, typ)

    out = {'title': spec.get('title', '').strip(), 'simulator': spec.get('simulator', '').strip(),
           'end_keyword': spec.get('end_keyword', 'ENDCY')}
    rocks = []
    for r in spec.get('rocks', []):
        e = {'name': fv('rocks1', 0, r['name'], 'ROCKS'), 'nad': fv('rocks1', 1, r['nad'], 'ROCKS'),
             'density': fv('rocks1', 2, r['density'], 'ROCKS'), 'porosity': fv('rocks1', 3, r['porosity'], 'ROCKS'),
             'permeability': [fv('rocks1', 4 + k, r['permeability'][k], 'ROCKS') for k in range(3)],
             'conductivity': fv('rocks1', 7, r['conductivity'], 'ROCKS'), 'specific_heat': fv('rocks1', 8, r['specific_heat'], 'ROCKS')}
        nad = r['nad'] or 0
        for i, k in enumerate(ROCK_EXTRA):
            if nad >= 1:
                if k in r and r[k] is not None: e[k] = fv('rocks1.1', i, r[k], 'ROCKS')
                elif i < 4: e[k] = 0.0              # the constructor's default stays
            elif i < 4:
                e[k] = 0.0                           # not written: a new rocktype has the defaults
        if nad >= 2:
            for key, rec in (('rp', 'rocks1.2'), ('cp', 'rocks1.2')):
                e[key] = {'type': fv(rec, 0, r[key]['type'], 'ROCKS'),
                          'parameters': trim([fv(rec, 2 + i, v, 'ROCKS') for i, v in enumerate(r[key]['parameters'])])}
        else:
            e['rp'], e['cp'] = {}, {}
        rocks.append(e)
    out['rocks'] = rocks

    p = spec.get('parameter', {})
    q = {}
    rec1 = 'param1_autough2' if autough2 else 'param1'
    names1 = F.main[rec1][0]
    for k in PARAM_KEYS:
        v = p.get(k)
        if k in names1: q[k] = fv(rec1, k, v)
        elif k in F.main['param2'][0]: q[k] = fv('param2', k, v)
        elif k in F.main['param3'][0]: q[k] = fv('param3', k, v)
        else: q[k] = v      # a key of the other flavour's record: not written, the default of a new object comes back
    for k in ('diff0', 'texp', 'be'):
        if k not in names1: q[k] = None
    if 'be' not in p and 'be' not in names1: q.pop('be', None)
    if q.get('print_block') is not None:
        q['print_block'] = None if q['print_block'].strip() == '' else norm_name(q['print_block'])
    # defaults of a fresh object for values written blank
    for k, dflt in (('tstart', 0.0), ('const_timestep', 0.0), ('gravity', 0.0)):
        if q.get(k) is None: q[k] = dflt
    q['option'] = [0] + [int(x) for x in list(p.get('option', [0] * 25))[1:25]]
    ct = q['const_timestep']
    if ct >= 0:
        q['timestep'] = [ct]
    else:
        n = -int(ct)
        ts = list(p.get('timestep', []))[:8 * n]
        q['timestep'] = [fv('timestep', 0, v) for v in ts if v is not None]
    di = list(p.get('default_incons', []))
    q['default_incons'] = trim([fv('default_incons', 0, v) for v in di])
    out['parameter'] = q
    out['more_option'] = [0] + [int(x) for x in list(spec.get('more_option', [0] * 22))[1:22]]

    recm = 'multi_autough2' if autough2 else 'multi'
    m = {}
    for k, v in spec.get('multi', {}).items():
        if k in F.main[recm][0] and v is not None and not (isinstance(v, str) and v.strip() == ''):
            m[k] = fv(recm, k, v)
            if k == 'eos': m[k] = m[k].strip()
    out['multi'] = m
    out['start'], out['noversion'] = bool(spec.get('start')), bool(spec.get('noversion'))
    for key, rec in (('relative_permeability', 'relative_permeability'), ('capillarity', 'capillarity')):
        src = spec.get(key, {})
        if spec.get('relative_permeability'):
            out[key] = {'type': fv(rec, 0, src.get('type'), 'RPCAP'),
                        'parameters': trim([fv(rec, 2 + i, v, 'RPCAP') for i, v in enumerate(src.get('parameters', []))])}
        else:
            out[key] = {}
    for key, rec in (('lineq', 'lineq'), ('solver', 'solver')):
        out[key] = dict((k, fv(rec, k, v)) for k, v in spec.get(key, {}).items()
                        if v is not None and k in F.main[rec][0] and not (isinstance(v, str) and v.strip() == ''))
    ot = spec.get('output_times', {})
    if ot:
        o = dict((k, fv('output_times1', k, v)) for k, v in ot.items() if k != 'time' and v is not None)
        n = int(math.ceil(ot['num_times_specified'] / 8.))
        o['time'] = [fv('output_times2', 0, v) for v in list(ot.get('time', []))[:8 * n] if v is not None]
        out['output_times'] = o
    else:
        out['output_times'] = {}

    rockname = dict((r['name'], fv('rocks1', 0, r['name'], 'ROCKS')) for r in spec.get('rocks', []))
    blocks = []
    for b in spec.get('blocks', []):
        if binary:
            e = {'name': norm_name(b['name']), 'volume': float(b['volume']), 'rocktype': rockname[b['rocktype']],
                 'centre': [float(x) for x in b['centre']], 'ahtx': float(b['ahtx'] or 0.0), 'pmx': float(b['pmx'] or 0.0),
                 'nseq': None, 'nadd': None}
        else:
            c = b.get('centre')
            e = {'name': norm_name(fv('blocks', 0, b['name'], 'ELEME')), 'nseq': fv('blocks', 1, b.get('nseq'), 'ELEME'),
                 'nadd': fv('blocks', 2, b.get('nadd'), 'ELEME'), 'rocktype': rockname[b['rocktype']],
                 'volume': fv('blocks', 4, b['volume'], 'ELEME'), 'ahtx': fv('blocks', 5, b.get('ahtx'), 'ELEME'),
                 'pmx': fv('blocks', 6, b.get('pmx'), 'ELEME'),
                 'centre': ([fv('blocks', 7 + i, c[i], 'ELEME') for i in range(3)] if c is not None else None)}
            if e['centre'] is not None and any(x is None for x in e['centre']): e['centre'] = None
        blocks.append(e)
    out['blocks'] = blocks
    cons = []
    for c in spec.get('connections', []):
        if binary:
            e = {'block': [norm_name(x) for x in c['block']], 'direction': int(c['direction']),
                 'distance': [float(x) for x in c['distance']], 'area': float(c['area']), 'dircos': float(c['dircos']),
                 'sigma': float(c.get('sigma') or 0.0), 'nseq': None, 'nad1': None, 'nad2': None}
        else:
            e = {'block': [norm_name(x) for x in c['block']], 'nseq': fv('connections', 2, c.get('nseq'), 'CONNE'),
                 'nad1': fv('connections', 3, c.get('nad1'), 'CONNE'), 'nad2': fv('connections', 4, c.get('nad2'), 'CONNE'),
                 'direction': fv('connections', 5, c['direction'], 'CONNE'),
                 'distance': [fv('connections', 6, c['distance'][0], 'CONNE'), fv('connections', 7, c['distance'][1], 'CONNE')],
                 'area': fv('connections', 8, c['area'], 'CONNE'), 'dircos': fv('connections', 9, c['dircos'], 'CONNE'),
                 'sigma': fv('connections', 10, c.get('sigma'), 'CONNE')}
        cons.append(e)
    out['connections'] = cons
    gens = []
    for g in spec.get('generators', []):
        e = {}
        for k in GEN_KEYS:
            e[k] = fv('generator', k, g.get(k), 'GENER')
        e['block'], e['name'] = norm_name(e['block']), norm_name(e['name'])
        table = bool(g['ltab']) and g['type'] != 'DELV' and abs(g['ltab']) > 1
        n = abs(g['ltab']) if table else 0
        e['time'] = [fv('generation_times', 0, v, 'GENER') for v in list(g.get('time', []))[:n] if v is not None]
        e['rate'] = [fv('generation_rates', 0, v, 'GENER') for v in list(g.get('rate', []))[:n] if v is not None]
        e['enthalpy'] = [fv('generation_enthalpy', 0, v, 'GENER') for v in list(g.get('enthalpy', []))[:n] if v is not None] \
            if (table and g['itab'].strip()) else []
        gens.append(e)
    out['generators'] = gens
    so = spec.get('short_output', {})
    o = {}
    if so:
        o['frequency'] = int(so['frequency']) if so.get('frequency') else None
        if 'block' in so: o['block'] = [norm_name(n) for n in so['block']]
        if 'connection' in so: o['connection'] = [[norm_name(a), norm_name(b)] for a, b in so['connection']]
        if 'generator' in so: o['generator'] = [[norm_name(a), norm_name(b)] for a, b in so['generator']]
    out['short_output'] = o
    out['history_block'] = [norm_name(x if isinstance(x, str) else x[1]) for x in spec.get('history_block', [])]
    out['history_connection'] = [[norm_name(a) for a in (x[1:] if x[0] == 'obj' else x)] for x in spec.get('history_connection', [])]
    out['history_generator'] = [norm_name(x if isinstance(x, str) else x[1]) for x in spec.get('history_generator', [])]
    inc = {}
    order = [norm_name(b['name']) for b in spec.get('blocks', [])]
    for name, por, vs, nseq, nadd, n in spec.get('incon', []):
        nseq = fv('incon1', 1, nseq if n > 2 else None)
        nadd = fv('incon1', 2, nadd if n > 2 else None)
        inc[norm_name(name)] = [fv('incon1', 3, por), trim([fv('incon2', 0, v) for v in vs[:4]]), nseq, nadd]
    out['incon'] = dict((k, v) for k, v in inc.items() if k in order)
    out['indom'] = [[k, trim([fv('indom2', 0, v) for v in vs[:4]])] for k, vs in spec.get('indom', [])]
    mu = spec.get('multi', {})
    out['diffusion'] = [trim([fv('diffusion', 0, v) for v in row[:8]][:mu.get('num_phases', 0)]) for row in spec.get('diffusion', [])]
    sel = spec.get('selection', {})
    if sel:
        n = sel['integer'][0]
        out['selection'] = {'integer': trim([fv('selec1', 0, v) for v in sel['integer'][:16]]),
                            'float': trim([fv('selec2', 0, v) for v in list(sel['float'])[:8 * n]])}
    else:
        out['selection'] = {}
    mm = []
    for m in spec.get('meshmaker', []):
        if m[0] == 'rz2d':
            subs = []
            for k, sub in m[1]:
                if k == 'radii': subs.append(['radii', {'radii': [fv('radii2', 0, v) for v in sub['radii']]}])
                elif k == 'layer': subs.append(['layer', {'layer': [fv('layer2', 0, v) for v in sub['layer']]}])
                else: subs.append([k, dict((kk, fv(k, kk, v)) for kk, v in sub.items() if v is not None)])
            mm.append(['rz2d', subs])
        elif m[0] == 'xyz':
            subs = [fv('xyz1', 0, m[1][0])]
            for sub in m[1][1:]:
                e = {'ntype': fv('xyz2', 0, sub['ntype']), 'no': fv('xyz2', 2, sub['no']), 'del': fv('xyz2', 3, sub['del'])}
                if e['del'] == 0:
                    e['deli'] = [fv('xyz3', 0, v) for v in sub['deli'][:sub['no']]]
                subs.append(e)
            mm.append(['xyz', subs])
        else:
            sub = m[1]
            mm.append(['minc', {'type': fv('minc', 1, sub['type']), 'dual': fv('minc', 3, sub['dual']).strip(),
                                'num_continua': fv('part1', 0, sub['num_continua']), 'where': fv('part1', 2, sub['where']),
                                'spacing': trim([fv('part1', 3, v) for v in sub['spacing'][:7]]),
                                'vol': [fv('part2', 0, v) for v in sub['vol']]}])
    out['meshmaker'] = mm
    return out


def normalise_dump(s):
    """the same normal form for a dumped read-back object: names modulo (A3,I2), trailing None padding dropped,
    dictionaries without None entries"""
    o = {'title': s['title'], 'simulator': s['simulator'], 'end_keyword': s['end_keyword']}
    rocks = []
    for r in s['rocks']:
        e = dict(r)
        for key in ('rp', 'cp'):
            e[key] = dict(r[key])
            if 'parameters' in e[key]: e[key]['parameters'] = trim(e[key]['parameters'])
        rocks.append(e)
    o['rocks'] = rocks
    p = dict(s['parameter'])
    if p.get('print_block') is not None: p['print_block'] = norm_name(p['print_block'])
    p['default_incons'] = trim(p.get('default_incons', []))
    p['option'] = [0] + list(p['option'])[1:25]
    for k in PARAM_KEYS:
        p.setdefault(k, None)
    o['parameter'] = p
    o['more_option'] = [0] + list(s['more_option'])[1:22]
    for k in ('multi', 'lineq', 'solver'):
        o[k] = dict((kk, v) for kk, v in s[k].items() if v is not None and not (isinstance(v, str) and v.strip() == ''))
    ot = dict((kk, v) for kk, v in s['output_times'].items() if v is not None)
    o['output_times'] = ot
    for k in ('relative_permeability', 'capillarity'):
        e = dict(s[k])
        if 'parameters' in e: e['parameters'] = trim(e['parameters'])
        o[k] = e
    o['start'], o['noversion'] = s['start'], s['noversion']
    o['blocks'] = [dict(b, name=norm_name(b['name'])) for b in s['blocks']]
    o['connections'] = [dict(c, block=[norm_name(x) for x in c['block']]) for c in s['connections']]
    o['generators'] = [dict(g, block=norm_name(g['block']), name=norm_name(g['name'])) for g in s['generators']]
    so = dict(s['short_output'])
    if so: so['frequency'] = so.get('frequency') or None
    if 'block' in so: so['block'] = [norm_name(n) for n in so['block']]
    if 'connection' in so: so['connection'] = [[norm_name(a), norm_name(b)] for a, b in so['connection']]
    if 'generator' in so: so['generator'] = [[norm_name(a), norm_name(b)] for a, b in so['generator']]
    o['short_output'] = so
    o['history_block'] = [norm_name(x if isinstance(x, str) else x[1]) for x in s['history_block']]
    o['history_connection'] = [[norm_name(a) for a in (x[1:] if x[0] == 'obj' else x)] for x in s['history_connection']]
    o['history_generator'] = [norm_name(x if isinstance(x, str) else x[1]) for x in s['history_generator']]
    o['incon'] = dict((norm_name(e[0]), [e[1], trim(e[2]), e[3], e[4]]) for e in s['incon'])
    o['indom'] = [[k, trim(v)] for k, v in s['indom']]
    o['diffusion'] = [trim(r) for r in s['diffusion']]
    sel = s['selection']
    o['selection'] = {'integer': trim(sel['integer']), 'float': trim(sel['float'])} if sel else {}
    mm = []
    for m in s['meshmaker']:
        if m[0] == 'rz2d':
            mm.append(['rz2d', [[k, dict((kk, v) for kk, v in sub.items() if v is not None)] for k, sub in m[1]]])
        elif m[0] == 'xyz':
            mm.append(['xyz', [m[1][0]] + [dict(sub) for sub in m[1][1:]]])
        else:
            e = dict(m[1])
            if 'spacing' in e: e['spacing'] = trim(e['spacing'])
            if isinstance(e.get('dual'), str): e['dual'] = e['dual'].strip()
            mm.append(['minc', e])
    o['meshmaker'] = mm
    return o


def same(a, b):
    if isinstance(a, bool) or isinstance(b, bool):
        return a is b
    if isinstance(a, (int, float)) and isinstance(b, (int, float)):
        return a == b
    if type(a) != type(b):
        return False
    if isinstance(a, dict):
        return set(a) == set(b) and all(same(a[k], b[k]) for k in a)
    if isinstance(a, list):
        return len(a) == len(b) and all(same(x, y) for x, y in zip(a, b))
    return a == b


def diff(want, got, path=''):
    """list of (path, want, got) where the two normal forms differ"""
    if isinstance(want, dict) and isinstance(got, dict):
        out = []
        for k in sorted(set(want) | set(got), key=str):
            if k not in want: out.append((path + '/' + str(k), '<absent>', got[k]))
            elif k not in got: out.append((path + '/' + str(k), want[k], '<absent>'))
            else: out += diff(want[k], got[k], path + '/' + str(k))
        return out
    if isinstance(want, list) and isinstance(got, list):
        if len(want) != len(got):
            return [(path + '/len', want, got)]
        out = []
        for i, (x, y) in enumerate(zip(want, got)):
            out += diff(x, y, path + '/%d' % i)
        return out
    return [] if same(want, got) else [(path, want, got)]
