"""C19 — transfers between geometries are total, nearest-based, identity on equal grids.

model      lean/PyTough/Model/Mapping.lean  (block_name & co., setup_block_name_index, column_mapping,
           layer_mapping, block_mapping, t2incon.transfer_from, t2data.transfer_generators_from /
           transfer_rocktypes_from / print_block / incon dict; cKDTree.query is a parameter)
theorems   lean/PyTough/Props/C19.lean  (proofs in lean/PyTough/Proofs/Mapping*.lean)
tie        correspondence facets `names`, `block_mapping`, `incon_transfer`, `data_transfer`
           (real code in-process vs. the compiled model, same geometries / objects)
oracle     the property statement evaluated on the real code: totality, existence in the source,
           nearest column / nearest layer / first-layer-below-ground recomputed independently,
           identity on self, state equality block by block with the 3x3 atmosphere table, source
           unchanged, generators and totals preserved on an identical geometry
"""
import io, contextlib, copy, math, hashlib, json, time
from fractions import Fraction
import core
from core import Result

ID = 'C19'
MODULE = 'PyTough.Props.C19'
TARGETS = ['PyTough.Props.C19', 'drv_c19']
THEOREMS = ['Props.C19.' + t for t in [
    'nearestFirst_is_nearest',
    'block_mapping_total_partial', 'block_mapping_spec_partial', 'block_mapping_atmosphere_partial',
    'block_mapping_identity',
    'block_mapping_keyerror_src1_tgt0', 'block_mapping_keyerror_src2_tgt0', 'block_mapping_keyerror_general',
    'incon_transfer_underground', 'incon_transfer_atmosphere_single', 'incon_average_value',
    'incon_transfer_atmosphere_percolumn', 'incon_transfer_total_partial', 'incon_transfer_source_unaltered', 'incon_heap_model_agrees',
    'rocktype_transfer_spec', 'rocktype_transfer_identity',
    'generator_transfer_identity', 'generator_totals_identity',
    # round 3
    'layer_mapping_nearest_first', 'nearestIdx_is_nearest', 'nearestIdx_first_minimum',
    'block_mapping_total_nearestIdx_partial', 'block_mapping_spec_nearestIdx_partial',
    'block_mapping_atmosphere_nearestIdx_partial', 'incon_transfer_total_nearestIdx_partial',
    'block_mapping_identity_nearestIdx', 'block_mapping_keyerror_nearestIdx',
    'block_mapping_identity_same_grid_partial', 'block_mapping_identity_same_grid_nearestIdx_partial',
    'generator_transfer_interior', 'generator_transfer_column']]
LEVEL_TEXT = ('Proof: 32 Lean theorems (no sorry) about an executable model of mulgrid.block_mapping / column_mapping / layer_mapping / '
              'column_surface_layer, t2incon.transfer_from (functional and object-heap versions) and t2data.transfer_generators_from / '
              'transfer_rocktypes_from: block_mapping returns and is total, underground blocks go to existing source blocks, atmosphere blocks to '
              'the source\'s corresponding atmosphere block; the image is the nearest column x nearest layer, moved to the column\'s first '
              'layer below ground exactly when the block would be above the surface; a geometry onto itself is the identity (all 3 atmosphere types); '
              'initial conditions: every underground block gets exactly its mapped source block\'s state, the 3x3 atmosphere table (first/average/'
              'broadcast/per mapped column/default) incl. what the average is, totality, and (heap model, proved to compute the same states) no pre-existing object is altered; '
              'rock types follow the mapping; onto an identical geometry every generator and hence every total is reproduced item for item '
              '(top/bottom/interior, tables, rename, preserve_totals). PARTIAL: totality statements hold for 7 of the 9 atmosphere combinations; '
              'for source type 1 or 2 onto target type 0 block_mapping raises KeyError (known finding, not repaired): proved on two concrete '
              'witnesses and in general. Round 3: layer_mapping_nearest_first - for arbitrary (unordered) layer structures layer_mapping returns, sends '
              'the atmosphere layer to the atmosphere layer and every other layer to the source layer of minimal |centre difference|, the FIRST such '
              '(strictly nearer than every earlier layer: np.argmin tie rule). nearestIdx_is_nearest / nearestIdx_first_minimum - a concrete linear-scan '
              'nearest-neighbour function over exact squared distances returns an index of minimal distance, the first one. '
              'block_mapping_total/spec/atmosphere_nearestIdx_partial, incon_transfer_total_nearestIdx_partial, block_mapping_identity_nearestIdx, '
              'block_mapping_keyerror_nearestIdx - the six theorems that assumed IsNearest q, instantiated at nearestIdx (no uninterpreted parameter left; '
              'the _partial ones still exclude source atmosphere 1/2 -> target 0). block_mapping_identity_same_grid_partial (+ _nearestIdx_partial) - the same grid '
              '(same convention, columns, layers; distinct centres) with INDEPENDENT atmosphere types and block orders: for all 7 combinations that return, every '
              'underground block and column maps to itself, single->single atmosphere is the identity, a per-column atmosphere block keeps its name for source '
              'type 1/2 and goes to the single atmosphere block for source type 0. generator_transfer_interior / generator_transfer_column - between ANY two '
              'geometries, whenever transfer_generators_from returns: the new list is the concatenation, by source position (repeated names covered), of one '
              'copy per target block mapped to the generator\'s block (interior) resp. per inside target column mapped to its column, placed on that column\'s '
              'top or bottom block (column generators), with the volume/area scaling of gx and rate for preserve_totals on and off and the name rule for rename on and off. '
              'NOT proved: that the scaled gx of the copies sum to the source gx under preserve_totals (only the per-copy factor is stated); '
              'totality of transfer_generators_from between different geometries; that cKDTree.query itself meets IsNearest (assumption, checked '
              'per explored case); which of several equidistant columns cKDTree returns. Tied to /repo on every run by correspondence (names, block_mapping incl. the scipy-less fallback and '
              'geometries outside the hypotheses, incon transfer in both models, generator/rock/print-block/incon-dict transfer) and a direct oracle.')
LEVEL_NOTE = ('Trusted: Lean kernel (+propext, Classical.choice, Quot.sound); scipy cKDTree.query is a parameter of the model constrained by '
              'IsNearest (its actual choices are checked in exact arithmetic on every explored pair; ties are replayed through the model as a table); '
              'block volumes, column areas and column_containing_point are inputs of the generator model (C04/C12); hypotheses are decidable GeoInv '
              'predicates (unique names of the convention\'s length, fix_blockname inert on target names = C17\'s conclusion for library-made names, '
              'layer bottoms descending, stored num_layers consistent and >= 1) evaluated on every explored case (all satisfied); the shallow-copy '
              'sharing of variable lists is not modelled; IEEE rounding abstracted (exact rationals of the doubles; decisions closer than 1e-9 '
              'relative would be discarded as unstable: none occurred).')
TECHNIQUE = 'Lean 4 proof over executable models (functional + object heap) of the mapping and transfer code + differential correspondence + direct oracle'
ASSUMPTIONS = [
    'cKDTree.query returns an index of minimal distance (IsNearest); verified in exact arithmetic on every explored case',
    'geometries satisfy GeoInv (srcOK / tgtOK in Model/Mapping.lean): unique names of the convention\'s lengths, fix_blockname inert on target names, '
    'layer bottoms descending, stored num_layers consistent and >= 1; evaluated on every explored case',
    'exact rational arithmetic on the doubles\' exact values; comparisons decided by less than 1e-9 relative are discarded and counted',
    'generator identity theorem: generators sit where their names say (genPlaced) and block volumes of source and target grids agree; evaluated on every identity transfer explored',
]
TRUSTED_EXTRA = ['numpy.argmin returns the first minimum', 'copy.copy/deepcopy semantics as modelled (copy = new object; shared variable lists not modelled)',
                 't2grid.fromgeo block names/volumes and mulgrid.column_containing_point (inputs of the generator-transfer model; properties C04, C12)']
EVIDENCE_EXTRA = {'tolerances': {'nearest margin (unstable below)': '1e-9 relative', 'averaged atmosphere / scaled generator values': '1e-12 relative'}}

TOL = 1e-9
KNOWN_KEYS = {1: 'block_mapping-keyerror:src1->tgt0', 2: 'block_mapping-keyerror:src2->tgt0'}


# ------------------------------------------------------------------ encoding

def xs(s):
    return 'x' + s.encode('latin-1').hex()


def unx(t):
    return bytes.fromhex(t[1:]).decode('latin-1')


def fr(x):
    f = Fraction(float(x))
    return '%d/%d' % (f.numerator, f.denominator)


def fro(x):
    return '-' if x is None else fr(x)


def geo_tokens(g):
    order = g.block_order
    dm = 1 if order == 'dmplex' else 0
    t = [str(g.convention), str(g.atmosphere_type), str(dm), str(g.num_columns), str(len(g.layerlist))]
    for c in g.columnlist:
        t += [xs(c.name), fr(c.centre[0]), fr(c.centre[1]), fr(c.surface), str(int(c.num_layers)), str(c.num_nodes), fr(c.area)]
    for l in g.layerlist:
        t += [xs(l.name), fr(l.bottom), fr(l.centre)]
    return t


def dict_tokens(d):
    t = [str(len(d))]
    for k, v in d.items():
        t += [xs(k), xs(v)]
    return t


def list_tokens(l, f=xs):
    return [str(len(l))] + [f(x) for x in l]


class Toks:
    def __init__(self, line):
        self.w = line.split()
        self.i = 0

    def next(self):
        self.i += 1
        return self.w[self.i - 1]

    def nat(self):
        return int(self.next())

    def s(self):
        return unx(self.next())

    def rat(self):
        t = self.next()
        a, _, b = t.partition('/')
        return Fraction(int(a), int(b or 1))

    def orat(self):
        if self.w[self.i] == '-':
            self.i += 1
            return None
        return self.rat()

    def dict(self):
        n = self.nat()
        return [(self.s(), self.s()) for _ in range(n)]

    def done(self):
        return self.i == len(self.w)


def quiet(f, *a, **k):
    with contextlib.redirect_stdout(io.StringIO()):
        return f(*a, **k)


# ------------------------------------------------------------------ geometry generators

SP = [2.5, 5.0, 7.5, 10.0, 12.5, 15.0, 20.0]
DZ = [1.0, 2.0, 2.5, 4.0, 5.0, 10.0]


def rect(rng, conv, atm, nx=None, ny=None, nz=None, origin=None, order=None, justify=None):
    import mulgrids
    nx = nx or rng.randint(1, 5)
    ny = ny or rng.randint(1, 4)
    nz = nz or rng.randint(1, 6)
    dx = [rng.choice(SP) for _ in range(nx)]
    dy = [rng.choice(SP) for _ in range(ny)]
    dz = [rng.choice(DZ) for _ in range(nz)]
    if origin is None:
        origin = [rng.choice([0., 0., 2.5, -5., 1.25]), rng.choice([0., 0., -2.5, 5.]), rng.choice([0., 0., 2.5, -1.])]
    justify = justify or rng.choice(['r', 'r', 'l'])
    return quiet(mulgrids.mulgrid().rectangular, dx, dy, dz, convention=conv, atmos_type=atm, origin=origin,
                 justify=justify, block_order=order)


def rect_cover(rng, conv, atm, other, order=None):
    """a rectangular grid covering roughly the region of `other` with different spacings"""
    import mulgrids
    b = other.bounds
    w, h = b[1][0] - b[0][0], b[1][1] - b[0][1]
    depth = other.layerlist[0].bottom - other.layerlist[-1].bottom

    def split(total, lo, hi):
        out, left = [], total
        while left > 1e-9:
            s = min(left, rng.choice([x for x in SP if lo <= x <= hi] or [2.5]))
            out.append(s)
            left -= s
        return out
    fine = rng.random() < 0.6
    dx = split(w, 2.5, 7.5) if fine else split(w, 7.5, 20.)
    dy = split(h, 2.5, 7.5) if fine else split(h, 7.5, 20.)
    dz = split(depth + rng.choice([0., 0., 2.5]), 1., 2.5) if rng.random() < 0.5 else split(depth, 2.5, 10.)
    off = rng.choice([0., 0., 0., 1.25, 2.5])
    origin = [b[0][0] + off, b[0][1] - off, other.layerlist[0].bottom + rng.choice([0., 0., 1., -1.])]
    return quiet(mulgrids.mulgrid().rectangular, dx[:8], dy[:6], dz[:12], convention=conv, atmos_type=atm,
                 origin=origin, justify=rng.choice(['r', 'l']), block_order=order)


def resurface(rng, g, allow_empty=False):
    """random column surfaces on the layer lattice (boundaries hit exactly); refreshes the name lists"""
    tops = [g.layerlist[0].bottom] + [l.bottom for l in g.layerlist[1:]]
    zmin = g.layerlist[-1].bottom
    for c in g.columnlist:
        if rng.random() < 0.7:
            z = rng.choice(tops[:-1]) + rng.choice([0., 0., 0.25, -0.25, 0.5, 1.0, -1.0])
            if z <= zmin and not allow_empty:
                z = zmin + 0.25
            c.surface = z
            g.set_column_num_layers(c)
    g.setup_block_name_index()
    g.setup_block_connection_name_index()
    return g


def clone(g):
    """an equal geometry built through the public constructors (deepcopy recurses through the neighbour sets)"""
    import mulgrids, numpy as np
    h = mulgrids.mulgrid(type=g.type, convention=g.convention, atmos_type=g.atmosphere_type,
                         atmos_volume=g.atmosphere_volume, atmos_connection=g.atmosphere_connection,
                         unit_type=g.unit_type, permeability_angle=g.permeability_angle)
    for n in g.nodelist:
        h.add_node(mulgrids.node(n.name, np.array(n.pos, dtype=float)))
    for c in g.columnlist:
        nc = mulgrids.column(c.name, [h.node[n.name] for n in c.node], centre=np.array(c.centre, dtype=float), surface=c.surface)
        nc.centre_specified = c.centre_specified
        nc.default_surface = c.default_surface
        h.add_column(nc)
        nc.num_layers = c.num_layers
    for con in g.connectionlist:
        h.add_connection(mulgrids.connection([h.column[c.name] for c in con.column]))
    for l in g.layerlist:
        h.add_layer(mulgrids.layer(l.name, l.bottom, l.centre, l.top))
    h.identify_neighbours()
    if g.block_order is not None:
        h.block_order = g.block_order
    h.setup_block_name_index()
    h.setup_block_connection_name_index()
    return h


def with_atm(g, atm):
    h = clone(g)
    h.atmosphere_type = atm
    return h


def shipped(name):
    import mulgrids
    return quiet(mulgrids.mulgrid, str(core.REPO / 'tests' / 'mulgrid' / name))


def subgeo(rng, g, ncols):
    """a geometry reduced to a connected-ish subset of columns (public delete_column), names refreshed"""
    h = clone(g)
    if h.num_columns > ncols:
        c0 = rng.choice(h.columnlist)
        keep = sorted(h.columnlist, key=lambda c: (c.centre[0] - c0.centre[0]) ** 2 + (c.centre[1] - c0.centre[1]) ** 2)[:ncols]
        keep = set(c.name for c in keep)
        for c in [c.name for c in h.columnlist if c.name not in keep]:
            h.delete_column(c)
        h.setup_block_name_index()
        h.setup_block_connection_name_index()
    return h


def gen_pairs(ctx, rng):
    """yields (kind, source geometry, target geometry)"""
    n_rect = ctx.n(90, 700)
    n_self = ctx.n(18, 120)
    n_ref = ctx.n(14, 100)
    n_shift = ctx.n(20, 150)
    combos = [(a, b) for a in range(3) for b in range(3)]
    k = 0
    # coarse / fine rectangular pairs: every atmosphere combination x conventions
    for i in range(n_rect):
        sa, ta = combos[i % 9]
        sc, tc = rng.randrange(4), rng.randrange(4)
        if i % 3 == 0:
            tc = sc
        so = rng.choice([None, None, 'layer_column', 'dmplex'])
        to = rng.choice([None, None, 'layer_column', 'dmplex'])
        s = rect(rng, sc, sa, order=so)
        t = rect_cover(rng, tc, ta, s, order=to)
        if rng.random() < 0.5:
            resurface(rng, s)
        if rng.random() < 0.5:
            resurface(rng, t)
        if rng.random() < 0.5:
            s, t = t, s
            s.atmosphere_type, t.atmosphere_type = sa, ta
        yield 'rect', s, t
    # a geometry and its refinement / layer refinement
    for i in range(n_ref):
        sa, ta = combos[(i * 4) % 9]
        conv = rng.randrange(4)
        s = rect(rng, conv, sa, nx=rng.randint(2, 4), ny=rng.randint(2, 3))
        if rng.random() < 0.5:
            resurface(rng, s)
        t = with_atm(s, ta)
        mode = i % 3
        if mode in (0, 2):
            cols = [c for c in t.columnlist if rng.random() < 0.5] or t.columnlist[:1]
            quiet(t.refine, cols)
        if mode in (1, 2):
            lays = [l for l in t.layerlist[1:] if rng.random() < 0.6] or t.layerlist[1:2]
            quiet(t.refine_layers, lays, rng.choice([2, 3]))
        if rng.random() < 0.4:
            s, t = t, s
            s.atmosphere_type, t.atmosphere_type = sa, ta
        yield 'refined', s, t
    # shifted / differently surfaced copies (includes exact ties in the nearest-centre search)
    for i in range(n_shift):
        sa, ta = combos[(i * 2 + 1) % 9]
        conv = rng.randrange(4)
        s = rect(rng, conv, sa)
        t = with_atm(s, ta)
        mode = i % 4
        if mode == 0:
            resurface(rng, t)
        elif mode == 1:
            t.translate([rng.choice([1.25, 2.5, -2.5, 5.0]), rng.choice([0., 1.25, -2.5]), rng.choice([0., 1., -1., 2.5])])
            resurface(rng, s)
        elif mode == 2:
            dxs = set(round(c.bounding_box[1][0] - c.bounding_box[0][0], 6) for c in s.columnlist)
            t.translate([min(dxs) / 2., 0., rng.choice([0., 0.5, 1.25])])   # ties: centres on source column boundaries
        else:
            resurface(rng, s)
            resurface(rng, t)
        yield ('tie' if mode == 2 else 'shifted'), s, t
    # geometries onto themselves (identity), all atmosphere types and conventions
    for i in range(n_self):
        a = i % 3
        conv = (i // 3) % 4
        s = rect(rng, conv, a, order=rng.choice([None, 'dmplex']))
        if rng.random() < 0.6:
            resurface(rng, s)
        yield 'self', s, clone(s)
    # shipped geometries
    names = ['g7.dat'] if ctx.quick else ['g1.dat', 'g2.dat', 'g3.dat', 'g4.dat', 'g5.dat', 'g6.dat', 'g7.dat']
    for nm in names:
        g = shipped(nm)
        yield 'shipped-self:' + nm, g, clone(g)
        for ta in range(3):
            t = with_atm(g, ta)
            resurface(rng, t)
            yield 'shipped-resurfaced:' + nm, g, t
        for sa in range(3):
            r = rect_cover(rng, g.convention, rng.randrange(3), g)
            yield 'shipped-to-rect:' + nm, with_atm(g, sa), r
    if ctx.quick:
        for nm in ['g3.dat', 'g5.dat', 'g1.dat']:
            g = subgeo(rng, shipped(nm), 40)
            yield 'shipped-sub-self:' + nm, g, clone(g)
            t = with_atm(g, rng.randrange(3))
            resurface(rng, t)
            yield 'shipped-sub-resurfaced:' + nm, with_atm(g, rng.randrange(3)), t


def gen_outside(ctx, rng):
    """pairs OUTSIDE the theorems' hypotheses (degenerate but constructible geometries): correspondence only,
    never shown to the oracle.  They check that the model follows the code where GeoInv fails."""
    import mulgrids
    for i in range(ctx.n(12, 60)):
        conv = rng.choice([0, 3]) if i % 6 in (1, 2, 3) else rng.randrange(4)
        atm_s, atm_t = rng.randrange(3), rng.randrange(3)
        s = rect(rng, conv, atm_s, nx=rng.randint(1, 3), ny=rng.randint(1, 2), nz=rng.randint(2, 4))
        t = rect_cover(rng, conv, atm_t, s)
        mode = i % 6
        if mode == 0:      # a source column without any block: surface at the bottom of the model
            c = rng.choice(s.columnlist)
            c.surface = s.layerlist[-1].bottom - rng.choice([0., 1.])
            s.set_column_num_layers(c)
            s.setup_block_name_index(); s.setup_block_connection_name_index()
            yield 'outside:source-column-without-blocks', s, t
        elif mode in (1, 2, 3):    # names that fix_blockname changes (column names ending in a digit, conventions 0/3)
            for g in ([t] if mode == 1 else [s] if mode == 2 else [s, t]):
                for k, cc in enumerate(list(g.columnlist)):
                    g.rename_column(cc.name, ('%3d' % (k + 1)) if rng.random() < 0.7 else cc.name)
                g.setup_block_name_index(); g.setup_block_connection_name_index()
            yield 'outside:fix_blockname-fires', s, t
        elif mode == 4:    # source without underground layers
            s2 = quiet(mulgrids.mulgrid().rectangular, [10.] * 2, [10.], [], convention=conv, atmos_type=atm_s)
            yield 'outside:source-without-layers', s2, t
        else:              # stale / inconsistent num_layers on a source column
            c = rng.choice(s.columnlist)
            c.surface = s.layerlist[rng.randint(1, len(s.layerlist) - 1)].bottom
            if rng.random() < 0.5:
                c.num_layers = rng.randint(0, len(s.layerlist) + 2)
            s.setup_block_name_index()
            yield 'outside:stale-num_layers', s, t


# ------------------------------------------------------------------ exact geometry helpers (oracle side)

def fcentre(c):
    return (Fraction(float(c.centre[0])), Fraction(float(c.centre[1])))


def sqd(a, b):
    return (a[0] - b[0]) ** 2 + (a[1] - b[1]) ** 2


class GeoView:
    """independent index of a real geometry used by the oracle"""
    def __init__(self, g):
        self.g = g
        self.cols = list(g.columnlist)
        self.lays = list(g.layerlist)
        self.centres = [fcentre(c) for c in self.cols]
        self.lcentres = [Fraction(float(l.centre)) for l in self.lays]
        self.names = list(g.block_name_list)
        self.nameset = set(self.names)
        self.natm = g.num_atmosphere_blocks
        self.under = {}
        for li, l in enumerate(self.lays[1:], 1):
            for ci, c in enumerate(self.cols):
                self.under.setdefault(g.block_name(l.name, c.name), (li, ci))
        self.atmcol = {}
        if g.atmosphere_type == 1:
            for ci, c in enumerate(self.cols):
                self.atmcol[g.block_name(self.lays[0].name, c.name)] = ci

    def exists(self, li, ci):
        return self.cols[ci].surface > self.lays[li].bottom


def nearest_info(sv, p):
    """(exact minimal squared distance, indices within tolerance, margin-clear?)"""
    ds = [sqd(c, p) for c in sv.centres]
    m = min(ds)
    near = [i for i, d in enumerate(ds) if d <= m + Fraction(TOL) * max(d, Fraction(1, 10 ** 12))]
    exact = [i for i, d in enumerate(ds) if d == m]
    return m, near, exact


def nearest_layers(sv, z):
    ds = [abs(c - z) for c in sv.lcentres[1:]]
    m = min(ds)
    near = [i + 1 for i, d in enumerate(ds) if d <= m + Fraction(TOL) * max(d, Fraction(1, 10 ** 12))]
    exact = [i + 1 for i, d in enumerate(ds) if d == m]
    return near, exact


def exc_key(src, tgt, e, where='block_mapping'):
    if isinstance(e, KeyError) and tgt.atmosphere_type == 0 and src.atmosphere_type in (1, 2):
        return KNOWN_KEYS[src.atmosphere_type]
    return '%s-raises:%s' % (where, type(e).__name__)


def case_of(kind, s, t, extra=None):
    c = {'kind': kind, 'src': geo_json(s), 'tgt': geo_json(t)}
    if extra:
        c.update(extra)
    return c


def geo_json(g):
    """replayable description: enough to rebuild an equivalent geometry for the anchored functions"""
    return {'convention': g.convention, 'atmosphere_type': g.atmosphere_type, 'block_order': g.block_order,
            'columns': [[c.name, [[float(n.pos[0]), float(n.pos[1])] for n in c.node], float(c.surface),
                         [float(c.centre[0]), float(c.centre[1])]] for c in g.columnlist],
            'layers': [[l.name, float(l.bottom), float(l.centre), float(l.top)] for l in g.layerlist]}


def geo_from_json(d):
    import mulgrids, numpy as np
    g = mulgrids.mulgrid(convention=d['convention'], atmos_type=d['atmosphere_type'])
    nodes = {}
    for name, poly, surf, cen in d['columns']:
        ns = []
        for p in poly:
            key = (p[0], p[1])
            if key not in nodes:
                nm = '%5d' % len(nodes)
                nodes[key] = mulgrids.node(nm, np.array(p))
                g.add_node(nodes[key])
            ns.append(nodes[key])
        g.add_column(mulgrids.column(name, ns, centre=np.array(cen), surface=surf))
    for name, b, c, t in d['layers']:
        g.add_layer(mulgrids.layer(name, b, c, t))
    for c in g.columnlist:
        g.set_column_num_layers(c)
    if d.get('block_order'):
        g.block_order = d['block_order']
    g.setup_block_name_index()
    return g


# ------------------------------------------------------------------ oracle: block_mapping

def oracle_mapping(kind, s, t, res, stats=None):
    """evaluates the mapping clauses of the property on the real code. returns (violations, info)"""
    out = []
    info = {'corrected': 0, 'unstable': False, 'isnearest_exact': True, 'tie': False, 'result': None}
    try:
        m, cm = quiet(s.block_mapping, t, True)
    except Exception as e:
        key = exc_key(s, t, e)
        out.append(dict(key=key, what='block_mapping raises %s(%s) for source atmosphere type %d onto target type %d (%s)'
                        % (type(e).__name__, e, s.atmosphere_type, t.atmosphere_type, kind), case=case_of(kind, s, t)))
        info['result'] = ('exc', type(e).__name__)
        return out, info
    info['result'] = ('ok', m, cm)
    sv, tv = GeoView(s), GeoView(t)

    def bad(key, what):
        out.append(dict(key=key, what=what + ' (%s, source atm %d, target atm %d)' % (kind, s.atmosphere_type, t.atmosphere_type),
                        case=case_of(kind, s, t)))
    sidx = {c.name: i for i, c in enumerate(sv.cols)}
    near_cache = {}
    for ci, c in enumerate(tv.cols):
        near_cache[ci] = nearest_info(sv, tv.centres[ci])
        _, near, exact = near_cache[ci]
        if len(near) > 1:
            info['tie'] = True
        got = cm.get(c.name)
        if got is None or got not in sidx:
            bad('column_mapping-not-total', 'column %r of the target has no source column (%r)' % (c.name, got))
            return out, info
        if sidx[got] not in near:
            bad('block_mapping-not-nearest-column', 'target column %r is mapped to %r, which is not a nearest source column' % (c.name, got))
            return out, info
        if sidx[got] not in exact:
            info['isnearest_exact'] = False
    for bi, b in enumerate(tv.names):
        if b not in m:
            bad('block_mapping-not-total', 'target block %r has no image' % b)
            return out, info
        v = m[b]
        if bi < tv.natm:
            if s.atmosphere_type == 0:
                if v != sv.names[0]:
                    bad('block_mapping-atmosphere', 'atmosphere block %r is mapped to %r, not the source atmosphere block %r' % (b, v, sv.names[0]))
                    return out, info
            elif s.atmosphere_type == 1 and t.atmosphere_type == 1:
                ci = tv.atmcol[b]
                ok = [s.block_name(sv.lays[0].name, sv.cols[j].name) for j in near_cache[ci][1]]
                if v not in ok:
                    bad('block_mapping-atmosphere', 'atmosphere block %r is mapped to %r, not the atmosphere block over a nearest column' % (b, v))
                    return out, info
            continue
        if v not in sv.nameset:
            bad('block_mapping-missing-source-block', 'underground block %r is mapped to %r, which does not exist in the source' % (b, v))
            return out, info
        if b not in tv.under or v not in sv.under:
            continue
        tli, tci = tv.under[b]
        sli, sci = sv.under[v]
        if sci not in near_cache[tci][1]:
            bad('block_mapping-not-nearest-column', 'block %r is mapped to %r whose column is not a nearest source column' % (b, v))
            return out, info
        nearl, exactl = nearest_layers(sv, tv.lcentres[tli])
        if len(nearl) != len(exactl):
            info['unstable'] = True
        good = False
        for l0 in nearl:
            if sv.exists(l0, sci):
                want = l0
            else:
                below = [li for li in range(1, len(sv.lays)) if sv.exists(li, sci)]
                want = below[0] if below else None
                if want == sli:
                    info['corrected'] += 1
            if want == sli:
                good = True
                break
        if not good:
            bad('block_mapping-not-nearest-layer', 'block %r (layer centre %s) is mapped to %r: not the nearest layer / first layer below ground of column %r'
                % (b, float(tv.lcentres[tli]), v, sv.cols[sci].name))
            return out, info
    return out, info


def oracle_identity(kind, g, res):
    out = []
    try:
        m = quiet(g.block_mapping, g)
    except Exception as e:
        return [dict(key='identity-raises:%s' % type(e).__name__, what='mapping a geometry onto itself raises %s(%s)' % (type(e).__name__, e),
                     case=case_of(kind, g, g))]
    wrong = [(k, v) for k, v in m.items() if k != v]
    if wrong or set(m) != set(g.block_name_list):
        out.append(dict(key='block_mapping-identity', what='mapping a geometry onto itself is not the identity: %r' % (wrong[:3],),
                        case=case_of(kind, g, g)))
    return out


# ------------------------------------------------------------------ incon transfer

def make_incon(rng, g, nvars):
    import t2incons
    import numpy as np
    inc = t2incons.t2incon()
    for i, b in enumerate(g.block_name_list):
        vals = [float(rng.choice([1.0e5, 2.5e5, 101325.0, 0.5, 20.0, 150.25, 1e-3])) + rng.randint(0, 4096) / 16.0 for _ in range(nvars)]
        por = rng.choice([None, 0.1, 0.25])
        bi = t2incons.t2blockincon(vals, b, porosity=por)
        if rng.random() < 0.2:
            bi.nseq, bi.nadd = rng.randint(0, 3), rng.randint(0, 3)
        if rng.random() < 0.15:
            bi.permeability = np.array([1e-15, 2e-15, 3e-15])
        inc[b] = bi
    return inc


def inc_snapshot(inc):
    return [(b.block, tuple(b.variable), b.porosity, None if b.permeability is None else tuple(b.permeability), b.nseq, b.nadd)
            for b in inc._blocklist]


def incon_tokens(inc):
    t = [str(len(inc._blocklist))]
    for b in inc._blocklist:
        t += [xs(b.block), str(len(b.variable))] + [fr(v) for v in b.variable] + [fro(b.porosity)]
    return t


def state_of(b):
    return (tuple(float(x) for x in b.variable), b.porosity, None if b.permeability is None else tuple(b.permeability), b.nseq, b.nadd)


def close(a, b, tol=1e-12):
    return abs(a - b) <= tol * max(abs(a), abs(b), 1e-300)


def oracle_incon(kind, s, t, sinc, mapping, colmapping, explicit, res):
    """t2incon.transfer_from on the real code + the property's clauses. returns (violations, result)"""
    import t2incons
    out = []
    before = inc_snapshot(sinc)
    new = t2incons.t2incon()
    extra = {'incon': [[b.block, list(b.variable), b.porosity] for b in sinc._blocklist], 'explicit': explicit}
    try:
        if explicit:
            quiet(new.transfer_from, sinc, s, t, mapping, colmapping)
        else:
            quiet(new.transfer_from, sinc, s, t)
    except Exception as e:
        key = exc_key(s, t, e, 'incon_transfer') if not explicit else 'incon_transfer-raises:%s' % type(e).__name__
        out.append(dict(key=key, what='t2incon.transfer_from raises %s(%s) for source atmosphere %d onto target %d'
                        % (type(e).__name__, e, s.atmosphere_type, t.atmosphere_type), case=case_of(kind, s, t, extra)))
        return out, ('exc', type(e).__name__)
    after = inc_snapshot(sinc)

    def bad(key, what):
        out.append(dict(key=key, what=what + ' (%s, source atm %d, target atm %d)' % (kind, s.atmosphere_type, t.atmosphere_type),
                        case=case_of(kind, s, t, extra)))
    if before != after:
        bad('incon-source-altered', 'transfer_from altered the source initial conditions')
    names = list(t.block_name_list)
    if sorted(new.blocklist) != sorted(names):
        bad('incon-blocks', 'the transferred initial conditions do not cover exactly the target blocks')
        return out, ('ok', new)
    natm = t.num_atmosphere_blocks
    for b in names[natm:]:
        if state_of(new[b]) != state_of(sinc[mapping[b]]):
            bad('incon-state-mismatch', 'block %r has state %r but its mapped source block %r has %r' % (b, new[b], mapping[b], sinc[mapping[b]]))
            return out, ('ok', new)
    sa, ta = s.atmosphere_type, t.atmosphere_type
    default = ((1.013e5, 20.), None, None, None, None)
    if ta == 0:
        got = state_of(new[names[0]])
        if sa == 0:
            ok = got == state_of(sinc[0])
        elif sa == 1:
            n = s.num_columns
            vs = [sinc[s.block_name(s.layerlist[0].name, c.name)].variable for c in s.columnlist]
            avg = [sum(Fraction(float(v[i])) for v in vs) / n for i in range(len(vs[0]))]
            ok = len(got[0]) == len(avg) and all(close(float(a), g) for a, g in zip(avg, got[0])) and got[1:] == (None, None, None, None)
        else:
            ok = got == default
        if not ok:
            bad('incon-atmosphere:%d->%d' % (sa, ta), 'atmosphere block %r received %r' % (names[0], new[names[0]]))
    elif ta == 1:
        for c in t.columnlist:
            b = t.block_name(t.layerlist[0].name, c.name)
            got = state_of(new[b])
            if sa == 0:
                ok = got == state_of(sinc[0])
            elif sa == 1:
                ok = got == state_of(sinc[s.block_name(s.layerlist[0].name, colmapping[c.name])])
            else:
                ok = got == default
            if not ok:
                bad('incon-atmosphere:%d->%d' % (sa, ta), 'atmosphere block %r received %r' % (b, new[b]))
                break
    return out, ('ok', new)


def canon_incon_real(new, sinc):
    pos = {id(b): i for i, b in enumerate(sinc._blocklist)}
    srcstate = {}
    for i, b in enumerate(sinc._blocklist):
        srcstate[i] = (None if b.permeability is None else tuple(b.permeability), b.nseq, b.nadd)
    out = []
    for b in new._blocklist:
        out.append((b.block, [Fraction(float(x)) for x in b.variable], None if b.porosity is None else Fraction(float(b.porosity)),
                    (None if b.permeability is None else tuple(b.permeability), b.nseq, b.nadd)))
    return out, srcstate


def parse_incon_model(line, srcstate):
    tk = Toks(line)
    st = tk.next()
    if st == 'exc':
        return ('exc', tk.next())
    if st != 'ok':
        raise RuntimeError('driver reply: ' + line[:200])
    n = tk.nat()
    out = []
    for _ in range(n):
        name = tk.s()
        nv = tk.nat()
        vs = [tk.rat() for _ in range(nv)]
        por = tk.orat()
        tag = tk.next()
        rest = (None, None, None) if tag == '-' else srcstate[int(tag)]
        out.append((name, vs, por, rest))
    return ('ok', out)


def incon_equal(a, b):
    if len(a) != len(b):
        return False
    for (n1, v1, p1, r1), (n2, v2, p2, r2) in zip(a, b):
        if n1 != n2 or p1 != p2 or r1 != r2 or len(v1) != len(v2):
            return False
        for x, y in zip(v1, v2):
            if x != y and not close(float(x), float(y)):
                return False
    return True


# ------------------------------------------------------------------ t2data transfer

GEN_ATTRS = ['name', 'block', 'nseq', 'nadd', 'nads', 'type', 'ltab', 'itab', 'gx', 'ex', 'hg', 'fg', 'time', 'rate', 'enthalpy']


def gen_state(g):
    return tuple((a, (list(getattr(g, a)) if isinstance(getattr(g, a), (list, tuple)) else getattr(g, a))) for a in GEN_ATTRS)


def categories(conv):
    n = 3 if conv == 1 else 2
    return ['99'.rjust(n, 't'), '98'.rjust(n, 'b')][0:2], ['wl'.rjust(n, ' '), 'in'.rjust(n, 'j')]


def make_data(rng, g, tables=True):
    """source t2data over geometry g with rock types and generators at top, bottom and interior blocks"""
    import t2data, t2grids
    dat = t2data.t2data()
    dat.grid = quiet(t2grids.t2grid().fromgeo, g)
    rts = [t2grids.rocktype(name='rck%02d' % i, porosity=0.1 * (i + 1)) for i in range(3)]
    for r in rts:
        dat.grid.add_rocktype(r)
    for blk in dat.grid.blocklist:
        blk.rocktype = rng.choice(rts)
    (top, bot), interior = categories(g.convention)
    cols = [c for c in g.columnlist if c.num_layers > 0]
    types = ['MASS', 'HEAT', 'COM1', 'DELV', 'MASS']

    def add(name, block):
        ty = rng.choice(types)
        kw = dict(name=name, block=block, type=ty, gx=rng.choice([0.0, 1.5, -2.25, 10.0]), ex=rng.choice([0.0, 8.0e4]))
        if tables and rng.random() < 0.5 and ty != 'DELV':
            n = rng.randint(2, 4)
            kw.update(ltab=n, time=[float(i) for i in range(n)], rate=[rng.choice([0.5, 1.0, -3.0, 2.25]) for _ in range(n)])
            if rng.random() < 0.5:
                kw.update(itab='E', enthalpy=[1.0e5 * (i + 1) for i in range(n)])
        elif ty == 'DELV':
            kw.update(ltab=rng.choice([1, 2]), hg=1.0e5)
        dat.add_generator(t2data.t2generator(**kw))
    for c in cols:
        if rng.random() < 0.6:
            add(g.block_name(top, c.name), g.block_name(g.column_surface_layer(c).name, c.name))
        if rng.random() < 0.4:
            add(g.block_name(bot, c.name), g.block_name(g.layerlist[-1].name, c.name))
    under = g.block_name_list[g.num_atmosphere_blocks:]
    for b in rng.sample(under, min(len(under), rng.randint(1, 6))):
        add(g.block_name(rng.choice(interior), g.column_name(b)), b)
    natm = g.num_atmosphere_blocks
    pb = rng.choice([None] + under[:3])
    dat.parameter['print_block'] = pb
    for b in rng.sample(under, min(3, len(under))):
        dat.incon[b] = [0.1, [1.0e5 + len(dat.incon), 20.0]]
    return dat, [top], [bot]


def totals(dat):
    tot = {}
    for g in dat.generatorlist:
        key = g.type
        tot.setdefault(key, [Fraction(0), {}])
        tot[key][0] += Fraction(float(g.gx or 0.0))
        if g.ltab and abs(g.ltab) > 1 and g.rate:
            for tm, r in zip(g.time, g.rate):
                tot[key][1][tm] = tot[key][1].get(tm, Fraction(0)) + Fraction(float(r))
    return tot


def oracle_data_files(ctx, kind, s, t, dat, sinc, mapping, colmapping, res):
    """t2data.transfer_from with the two initial-conditions file names: the file written must hold the states
    that t2incon.transfer_from gives in memory (values as the file format prints them)"""
    import t2data, t2incons
    out = []
    src_file, new_file = str(ctx.tmp / 'src.incon'), str(ctx.tmp / 'new.incon')
    quiet(sinc.write, src_file)
    new = t2data.t2data()
    try:
        quiet(new.transfer_from, dat, s, t, [], [], src_file, new_file)
    except Exception as e:
        return [dict(key='data_transfer-files-raises:%s' % type(e).__name__,
                     what='t2data.transfer_from with incon files raises %s(%s) although the in-memory transfer works' % (type(e).__name__, e),
                     case=case_of(kind, s, t))]
    got = quiet(t2incons.t2incon, new_file)
    reread = quiet(t2incons.t2incon, src_file)
    want = t2incons.t2incon()
    quiet(want.transfer_from, reread, s, t, dict(mapping), dict(colmapping))
    a = [(b.block, [float(x) for x in b.variable], b.porosity) for b in got._blocklist]
    b_ = [(b.block, [float(x) for x in b.variable], b.porosity) for b in want._blocklist]
    same = len(a) == len(b_) and all(x[0] == y[0] and len(x[1]) == len(y[1]) and all(close(p, q, 1e-9) for p, q in zip(x[1], y[1]))
                                     and ((x[2] is None) == (y[2] is None)) and (x[2] is None or close(x[2], y[2], 1e-8))
                                     for x, y in zip(a, b_))
    if not same:
        out.append(dict(key='data_transfer-incon-file', what='the initial-conditions file written by t2data.transfer_from differs from the transferred states',
                        case=case_of(kind, s, t)))
    return out


def oracle_data_identity(kind, g, dat, top, bot, rename, preserve, res):
    """transfer a model onto an identical geometry: every generator and the totals are preserved"""
    import t2data
    out = []
    g2 = clone(g)
    new = t2data.t2data()
    extra = {'rename': rename, 'preserve': preserve, 'top': top, 'bottom': bot,
             'generators': [dict(gen_state(x)) for x in dat.generatorlist]}
    try:
        quiet(new.transfer_from, dat, g, g2, top, bot, rename_generators=rename, preserve_generation_totals=preserve)
    except Exception as e:
        key = exc_key(g, g2, e, 'data_transfer')
        return [dict(key=key, what='t2data.transfer_from onto an identical geometry raises %s(%s)' % (type(e).__name__, e),
                     case=case_of(kind, g, g2, extra))], None
    a = [gen_state(x) for x in dat.generatorlist]
    b = [gen_state(x) for x in new.generatorlist]
    if a != b:
        diff = [(x, y) for x, y in zip(a, b) if x != y][:1]
        out.append(dict(key='generators-not-preserved', what='transfer onto an identical geometry changed the generators (rename=%s, preserve_totals=%s): %r'
                        % (rename, preserve, diff or (len(a), len(b))), case=case_of(kind, g, g2, extra)))
    elif totals(dat) != totals(new):
        out.append(dict(key='generation-total-changed', what='total generation changed on an identical geometry', case=case_of(kind, g, g2, extra)))
    rock_a = [(blk.name, blk.rocktype.name) for blk in dat.grid.blocklist]
    rock_b = [(blk.name, blk.rocktype.name) for blk in new.grid.blocklist]
    if rock_a != rock_b:
        out.append(dict(key='rocktypes-not-preserved', what='transfer onto an identical geometry changed rock type assignments', case=case_of(kind, g, g2, extra)))
    return out, new


def real_data_transfer(dat, s, t, top, bot, rename, preserve, real, empty_maps=False):
    """the real t2data transfer, whole and by parts (each public method separately)"""
    import t2data, t2grids
    out = {}
    full = t2data.t2data()
    try:
        quiet(full.transfer_from, dat, s, t, top, bot, rename_generators=rename, preserve_generation_totals=preserve)
        out['full'] = ('ok', full)
    except Exception as e:
        out['full'] = ('exc', type(e).__name__)
    if real[0] != 'ok':
        out['gens'] = out['rock'] = ('exc', real[1])
        return out
    m, cm = real[1], real[2]
    part = t2data.t2data()
    part.grid = quiet(t2grids.t2grid().fromgeo, t)
    try:
        quiet(part.transfer_rocktypes_from, dat, m)
        out['rock'] = ('ok', [b.rocktype.name for b in part.grid.blocklist])
    except Exception as e:
        out['rock'] = ('exc', type(e).__name__)
    part = t2data.t2data()
    part.grid = quiet(t2grids.t2grid().fromgeo, t)
    try:
        if empty_maps:      # the method computes the mappings itself
            quiet(part.transfer_generators_from, dat, s, t, top, bot, {}, {}, rename, preserve)
        else:
            quiet(part.transfer_generators_from, dat, s, t, top, bot, m, cm, rename, preserve)
        out['gens'] = ('ok', canon_gens_real(part, dat))
    except Exception as e:
        out['gens'] = ('exc', type(e).__name__)
    return out


def gens_tokens(dat):
    t = [str(len(dat.generatorlist))]
    for g in dat.generatorlist:
        t += [xs(g.name), xs(g.block), xs(g.type), '-' if g.ltab is None else str(int(g.ltab)), fro(g.gx)]
        if g.rate is None:
            t += ['-']
        else:
            t += ['r', str(len(g.rate))] + [fr(x) for x in g.rate]
    return t


def dictq_tokens(pairs):
    t = [str(len(pairs))]
    for k, v in pairs:
        t += [xs(k), fr(v)]
    return t


def canon_gens_real(new, dat):
    """generators of `new` as (source index by content, name, block, gx, rate)"""
    out = []
    for g in new.generatorlist:
        rest = tuple((a, (list(getattr(g, a)) if isinstance(getattr(g, a), (list, tuple)) else getattr(g, a)))
                     for a in GEN_ATTRS if a not in ('name', 'block', 'gx', 'rate'))
        out.append((rest, g.name, g.block, None if g.gx is None else Fraction(float(g.gx)),
                    None if g.rate is None else [Fraction(float(x)) for x in g.rate]))
    return out


def parse_gens_model(line, dat):
    tk = Toks(line)
    st = tk.next()
    if st == 'exc':
        return ('exc', tk.next())
    if st != 'ok':
        raise RuntimeError('driver reply: ' + line[:200])
    n = tk.nat()
    out = []
    for _ in range(n):
        i = tk.nat()
        name, block = tk.s(), tk.s()
        gx = tk.orat()
        if tk.w[tk.i] == '-':
            tk.i += 1
            rate = None
        else:
            tk.next()
            k = tk.nat()
            rate = [tk.rat() for _ in range(k)]
        g = dat.generatorlist[i]
        rest = tuple((a, (list(getattr(g, a)) if isinstance(getattr(g, a), (list, tuple)) else getattr(g, a)))
                     for a in GEN_ATTRS if a not in ('name', 'block', 'gx', 'rate'))
        out.append((rest, name, block, gx, rate))
    return ('ok', out)


def gens_equal(a, b):
    if len(a) != len(b):
        return False
    for (r1, n1, b1, g1, q1), (r2, n2, b2, g2, q2) in zip(a, b):
        if r1 != r2 or n1 != n2 or b1 != b2 or (g1 is None) != (g2 is None) or (q1 is None) != (q2 is None):
            return False
        if g1 is not None and g1 != g2 and not close(float(g1), float(g2)):
            return False
        if q1 is not None:
            if len(q1) != len(q2) or any(x != y and not close(float(x), float(y)) for x, y in zip(q1, q2)):
                return False
    return True


# ------------------------------------------------------------------ run

def canon_bm_model(line):
    tk = Toks(line)
    st = tk.next()
    if st == 'exc':
        return ('exc', tk.next())
    if st != 'ok':
        raise RuntimeError('driver reply: ' + line[:200])
    m = tk.dict()
    cm = tk.dict()
    return ('ok', sorted(dict(m).items()), sorted(dict(cm).items()))


def canon_bm_real(r):
    if r[0] == 'exc':
        return r
    return ('ok', sorted(r[1].items()), sorted(r[2].items()))


def q_tokens(s, t, real, info):
    """`first` when every nearest-centre decision has a clear margin, else the real choices as a table"""
    if real[0] != 'ok' or not info['tie']:
        return ['first']
    sidx = {c.name: i for i, c in enumerate(s.columnlist)}
    cm = real[2]
    return ['tab', str(t.num_columns)] + [str(sidx[cm[c.name]]) for c in t.columnlist]


def pair_key(s, t):
    return hashlib.sha256((' '.join(geo_tokens(s)) + '|' + ' '.join(geo_tokens(t))).encode()).hexdigest()[:16]


def block_mapping_without_scipy(s, t):
    """the same call with `from scipy.spatial import cKDTree` failing: the numpy argmin fallback of column_mapping"""
    import sys
    saved = {k: sys.modules.get(k, 'absent') for k in ('scipy.spatial', 'scipy')}
    sys.modules['scipy.spatial'] = None
    try:
        try:
            m, cm = quiet(s.block_mapping, t, True)
            return ('ok', m, cm)
        except Exception as e:
            return ('exc', type(e).__name__)
    finally:
        for k, v in saved.items():
            if v == 'absent':
                sys.modules.pop(k, None)
            else:
                sys.modules[k] = v


def explicit_maps(s, t):
    """block/column mappings for the two combinations on which block_mapping itself fails, built through
    the public API from a copy of the target without atmosphere blocks (same underground blocks)"""
    t2 = with_atm(t, 2)
    m, cm = quiet(s.block_mapping, t2, True)
    return dict(m), dict(cm)


ANCHORED = [('mulgrids', 'mulgrid', ['column_mapping', 'layer_mapping', 'block_mapping', 'column_surface_layer',
                                       'column_surface_layer_index']),
            ('t2incons', 't2incon', ['transfer_from']),
            ('t2data', 't2data', ['transfer_from', 'transfer_rocktypes_from', 'transfer_generators_from'])]


def run(ctx, scale=1.0, only_oracle=False):
    res = run_inner(ctx, scale, only_oracle)
    if not ctx.quick and not only_oracle:
        measure_reach(ctx, res)
    return res


def measure_reach(ctx, res):
    """thorough tier: a quick-sized oracle-only pass under `coverage`, to record which lines of the anchored
    functions the generators execute (a line never executed cannot be noticed when it changes)"""
    try:
        import coverage
    except Exception as e:
        ctx.notes.append('coverage unavailable: %s' % e)
        return
    import inspect, importlib
    cov = coverage.Coverage(data_file=None, include=[str(core.REPO / f) for f in ('mulgrids.py', 't2incons.py', 't2data.py')])
    c2 = core.Ctx(ctx.prop, 'quick', ctx.seed)
    c2.model_ok = False
    cov.start()
    try:
        run_inner(c2, only_oracle=True)
    finally:
        cov.stop()
        c2.cleanup()
    reach = {}
    for modname, cls, fns in ANCHORED:
        mod = importlib.import_module(modname)
        try:
            _, executable, _, missing, _ = cov.analysis2(mod.__file__)
        except Exception as e:
            ctx.notes.append('coverage analysis failed: %s' % e)
            continue
        executable, missing = set(executable), set(missing)
        for fn in fns:
            src, start = inspect.getsourcelines(getattr(getattr(mod, cls), fn))
            lines = set(range(start + 1, start + len(src))) & executable      # body lines (the def line runs at import)
            miss = sorted(lines & missing)
            reach['%s.%s.%s' % (modname, cls, fn)] = {'executable_lines': len(lines), 'executed': len(lines) - len(miss),
                                                     'not_executed': miss}
    EVIDENCE_EXTRA['measured_reach (quick-sized pass, this seed)'] = reach


def run_inner(ctx, scale=1.0, only_oracle=False):
    import importlib, mulgrids, t2incons, t2data, t2grids
    res = Result()
    res.rule = ('pairs (source geometry, target geometry) built with the real API: coarse/fine rectangular pairs with dyadic spacings and '
                'origins, a geometry and its real refine()/refine_layers() result, shifted and re-surfaced copies (incl. exact nearest-centre '
                'ties), geometries onto themselves, shipped geometries (and sub-geometries / re-surfaced copies / rectangular covers of them); '
                '3x3 atmosphere types x 4 conventions x block orders; 1..12 primary variables; generators at top / bottom / interior blocks '
                'with and without tables x rename x preserve_totals.  non-trivial = distinct pairs on which an atmosphere block was mapped, '
                'the above-surface correction fired, the mapping was many-to-one, or the two conventions differ')
    rng = ctx.rng('pairs')
    f_names, f_bm, f_inc, f_dat = res.facet('names'), res.facet('block_mapping'), res.facet('incon_transfer'), res.facet('data_transfer')
    reqs, post = [], []     # driver requests and the functions that consume the replies
    hyp = {'srcOK': [0, 0], 'tgtOK': [0, 0], 'atmOK (7 of 9 atmosphere combinations)': [0, 0],
           'srcOK & tgtOK & atmOK (block_mapping_total_partial)': [0, 0],
           'distinctCentres & srcOK & tgtOK of a geometry mapped onto itself (block_mapping_identity)': [0, 0],
           'IsNearest of the real cKDTree choices, exact': [0, 0]}

    def ask(tokens, consume):
        reqs.append(' '.join(tokens))
        post.append(consume)

    def disagree(facet, f, case, model, impl):
        f['disagreements'] += 1
        res.disagreements.append(dict(facet=facet, case=case, model=str(model)[:400], impl=str(impl)[:400]))

    npairs = 0
    for kind, s, t in gen_pairs(ctx, rng):
        npairs += 1
        base_kind = kind.split(':')[0]
        res.count('kind:' + base_kind)
        res.count('atm:%d->%d' % (s.atmosphere_type, t.atmosphere_type))
        res.count('conv:%d->%d' % (s.convention, t.convention))
        res.count('order:%s->%s' % (s.block_order, t.block_order))
        res.count('size:source-columns<=%d' % (10 ** len(str(s.num_columns))))
        res.evaluations += 1
        gs, gt = geo_tokens(s), geo_tokens(t)
        # --- oracle: mapping clauses
        viol, info = oracle_mapping(kind, s, t, res)
        res.violations += viol
        real = info['result']
        if info['unstable']:
            res.unstable += 1
            res.count('unstable:layer-near-tie')
            continue
        hyp['IsNearest of the real cKDTree choices, exact'][1] += 1
        if info['isnearest_exact']:
            hyp['IsNearest of the real cKDTree choices, exact'][0] += 1
        if info['tie']:
            res.count('nearest-centre tie (q = table of the real choices)')
        if info['corrected']:
            res.count('above-surface correction fired (pairs)')
            res.count('above-surface correction fired (blocks)', info['corrected'])
        if real[0] == 'exc':
            res.count('block_mapping:exc:' + real[1])
        nontrivial = False
        if real[0] == 'ok':
            m = real[1]
            many = len(set(m.values())) < len(m)
            if many:
                res.count('many-to-one mapping')
            if (t.num_atmosphere_blocks > 0) or info['corrected'] or many or s.convention != t.convention:
                nontrivial = True
        if nontrivial:
            res.distinct.add(pair_key(s, t))
        if base_kind in ('self', 'shipped-self', 'shipped-sub-self'):
            res.violations += oracle_identity(kind, s, res)
        elif npairs % 4 == 0:
            res.violations += oracle_identity(kind + '/self', s, res)
        # --- incon transfer on the real code
        nvars = rng.choice([1, 2, 2, 3, 4, 5, 8, 12])
        res.count('nvars:%d' % nvars)
        big = s.num_blocks > 3000
        inc_jobs = []
        if not big or not ctx.quick:
            sinc = make_incon(rng, s, nvars)
            if real[0] == 'ok':
                v, r = oracle_incon(kind, s, t, sinc, real[1], real[2], False, res)
                res.violations += v
                inc_jobs.append((sinc, {}, {}, r, False))
                if npairs % 5 == 0:      # the same with the mappings passed explicitly
                    v, r = oracle_incon(kind, s, t, sinc, dict(real[1]), dict(real[2]), True, res)
                    res.violations += v
                    inc_jobs.append((sinc, dict(real[1]), dict(real[2]), r, True))
            else:
                v, r = oracle_incon(kind, s, t, sinc, {}, {}, False, res)
                res.violations += v
                inc_jobs.append((sinc, {}, {}, r, False))
                if t.atmosphere_type == 0 and s.atmosphere_type in (1, 2):
                    # averaged / default atmosphere: reachable only with explicit mappings
                    em, ecm = explicit_maps(s, t)
                    v, r = oracle_incon(kind, s, t, sinc, em, ecm, True, res)
                    res.violations += v
                    inc_jobs.append((sinc, em, ecm, r, True))
                    res.count('incon:explicit-maps-for-known-defect-combination')
        # --- t2data transfer
        dat_jobs = []
        ident_jobs = []
        if s.num_blocks <= 1500 and (npairs % 2 == 0 or base_kind in ('self',)):
            dat, top, bot = make_data(rng, s)
            rename, preserve = rng.random() < 0.5, rng.random() < 0.5
            res.count('data:rename=%s,preserve=%s' % (rename, preserve))
            if base_kind in ('self', 'shipped-self', 'shipped-sub-self') or npairs % 6 == 0:
                v, _ = oracle_data_identity(kind, s, dat, top, bot, rename, preserve, res)
                res.violations += v
                res.count('data:identity-oracle')
                ident_jobs.append((dat, top, bot))
            if npairs % 3 == 1 and real[0] == 'ok' and s.convention != 3 and t.convention != 3 and inc_jobs and nvars <= 4 \
                    and (s.atmosphere_type, t.atmosphere_type) != (2, 1) \
                    and all(mulgrids.valid_blockname(b) for g in (s, t) for b in g.block_name_list):
                # (names the incon reader rejects — convention 3, left-justified — and more than 4 variables per block read
                # without num_variables are C13/C17's subject; 2 -> 1 fails in transfer_rocktypes_from)
                res.violations += oracle_data_files(ctx, kind, s, t, dat, inc_jobs[0][0], real[1], real[2], res)
                res.count('data:transfer_from with incon files')
            empty_maps = npairs % 4 == 0
            dres = real_data_transfer(dat, s, t, top, bot, rename, preserve, real, empty_maps)
            res.count('data:transfer_from:' + (dres['full'][0] if dres['full'][0] == 'ok' else dres['full'][1]))
            if empty_maps:
                res.count('data:transfer_generators_from computing its own mappings')
            dat_jobs.append((dat, top, bot, rename, preserve, dres, empty_maps))
        if only_oracle or not ctx.model_ok:
            if npairs % 40 == 1:
                res.sample({'kind': kind, 'source': repr(s), 'target': repr(t), 'block_mapping': real[0] if real[0] == 'ok' else real})
            continue
        # --- model: names, hypotheses, block mapping
        qt = q_tokens(s, t, real, info)

        def c_names(line, g=None, kind=kind, s=s, t=t):
            f_names['cases'] += 1
            want = 'ok ' + ' '.join([str(len(g.block_name_list))] + [xs(b) for b in g.block_name_list])
            if line != want:
                disagree('names', f_names, case_of(kind, s, t), line, want)
        ask(['names'] + gs, lambda line, g=s, f=c_names: f(line, g))
        ask(['names'] + gt, lambda line, g=t, f=c_names: f(line, g))

        def c_hyp(line, kind=kind, s=s, t=t, real=real):
            a = [x == '1' for x in line.split()]
            if len(a) != 5:
                raise RuntimeError('driver reply: ' + line[:200])
            for nm, v in [('srcOK', a[0]), ('tgtOK', a[1]), ('atmOK (7 of 9 atmosphere combinations)', a[2]),
                          ('srcOK & tgtOK & atmOK (block_mapping_total_partial)', a[0] and a[1] and a[2])]:
                hyp[nm][1] += 1
                hyp[nm][0] += 1 if v else 0
            if kind.split(':')[0] in ('self', 'shipped-self', 'shipped-sub-self'):
                k = 'distinctCentres & srcOK & tgtOK of a geometry mapped onto itself (block_mapping_identity)'
                hyp[k][1] += 1
                hyp[k][0] += 1 if (a[0] and a[3] and a[4]) else 0
            # a theorem says: hypotheses => ok. the real code must agree (else the model/theorem is not about this code)
            if a[0] and a[1] and a[2] and real[0] != 'ok':
                disagree('block_mapping', f_bm, case_of(kind, s, t), 'hypotheses of block_mapping_total_partial hold', real)
        ask(['hyp'] + gs + gt, c_hyp)

        def c_bm(line, kind=kind, s=s, t=t, real=real, qt=qt):
            f_bm['cases'] += 1
            mo = canon_bm_model(line)
            re_ = canon_bm_real(real)
            if mo != re_:
                d = ''
                if mo[0] == 'ok' and re_[0] == 'ok':
                    d = [x for x in zip(mo[1], re_[1]) if x[0] != x[1]][:2] or [x for x in zip(mo[2], re_[2]) if x[0] != x[1]][:2]
                disagree('block_mapping', f_bm, case_of(kind, s, t, {'q': qt[0]}), (mo[0], d or mo[1:]), (re_[0], d or re_[1:]))
            if npairs_box[0] % 40 == 1 or kind.startswith('shipped-self'):
                res.sample({'kind': kind, 'source': repr(s), 'target': repr(t), 'q': qt[0],
                            'real': re_[0] if re_[0] == 'exc' else ('ok', re_[1][:3]), 'model': mo[0] if mo[0] == 'exc' else ('ok', mo[1][:3])})
        npairs_box = [npairs]
        ask(['bm'] + qt + gs + gt, c_bm)
        if npairs % 5 == 2 and not info['tie']:
            real2 = block_mapping_without_scipy(s, t)
            res.count('block_mapping without scipy (argmin fallback)')

            def c_bm2(line, kind=kind, s=s, t=t, real2=real2, real=real):
                f_bm['cases'] += 1
                mo, re_ = canon_bm_model(line), canon_bm_real(real2)
                if mo != re_ or re_ != canon_bm_real(real):
                    disagree('block_mapping', f_bm, case_of(kind, s, t, {'q': 'first', 'scipy': False}), mo[0] if mo[0] == 'ok' else mo,
                             re_[0] if re_[0] == 'ok' else re_)
            ask(['bm', 'first'] + gs + gt, c_bm2)
        # --- model: incon transfer
        for sinc, mp, cmp_, r, explicit in inc_jobs:
            def c_inc(line, kind=kind, s=s, t=t, sinc=sinc, r=r, explicit=explicit):
                f_inc['cases'] += 1
                if r[0] == 'ok':
                    real_c, srcstate = canon_incon_real(r[1], sinc)
                else:
                    real_c, srcstate = None, canon_incon_real(t2incons.t2incon(), sinc)[1]
                mo = parse_incon_model(line, srcstate)
                same = (mo[0] == r[0]) and (mo[1] == r[1] if r[0] == 'exc' else incon_equal(mo[1], real_c))
                if not same:
                    disagree('incon_transfer', f_inc, case_of(kind, s, t, {'explicit': explicit}), mo[0] if mo[0] == 'ok' else mo, r[0] if r[0] == 'ok' else r)
            ask(['inc'] + qt + gs + gt + incon_tokens(sinc) + dict_tokens(mp) + dict_tokens(cmp_), c_inc)

            def c_inch(line, kind=kind, s=s, t=t, sinc=sinc, r=r, explicit=explicit):
                # the heap model of the same call: same result, source objects untouched, only new objects, block attribute = key
                f_inc['cases'] += 1
                w = line.split()
                if w[0] == 'ok':
                    flags, rest = w[1:4], 'ok ' + ' '.join(w[4:])
                else:
                    flags, rest = ['1', '1', '1'], line
                if r[0] == 'ok':
                    real_c, srcstate = canon_incon_real(r[1], sinc)
                    real_flags = ['1', '1' if all(b.block == k for k, b in r[1]._block.items()) else '0',
                                  '1' if not (set(map(id, r[1]._blocklist)) & set(map(id, sinc._blocklist))) else '0']
                else:
                    real_c, srcstate = None, canon_incon_real(t2incons.t2incon(), sinc)[1]
                    real_flags = ['1', '1', '1']
                mo = parse_incon_model(rest, srcstate)
                same = (mo[0] == r[0]) and (mo[1] == r[1] if r[0] == 'exc' else incon_equal(mo[1], real_c)) and flags == real_flags
                if not same:
                    disagree('incon_transfer', f_inc, case_of(kind, s, t, {'explicit': explicit, 'model': 'heap'}),
                             (mo[0], flags) if mo[0] == 'ok' else mo, (r[0], real_flags) if r[0] == 'ok' else r)
            if t.num_blocks <= 4000:      # the heap model appends to a list per block: quadratic, keep it to moderate sizes
                ask(['inch'] + qt + gs + gt + incon_tokens(sinc) + dict_tokens(mp) + dict_tokens(cmp_), c_inch)
        # --- model: hypotheses of generator_transfer_identity on the identical-geometry transfers
        for dat, top, bot in ident_jobs:
            try:
                im, icm = quiet(s.block_mapping, clone(s), True)
            except Exception:
                continue
            sgrid = [(b.name, b.volume) for b in dat.grid.blocklist]
            toks = (['genhyp'] + gs + gens_tokens(dat) + dictq_tokens(sgrid) + dictq_tokens(sgrid)
                    + list_tokens([1] * s.num_columns, str) + list_tokens(top) + list_tokens(bot) + dict_tokens(im) + dict_tokens(icm))

            def c_genhyp(line):
                a = line.split()
                k = 'genIdentitySetting & genPlaced for every generator (generator_transfer_identity)'
                hyp.setdefault(k, [0, 0])
                hyp[k][1] += 1
                hyp[k][0] += 1 if (a[0] == '1' and a[1] == a[2]) else 0
                res.count('generators in identity transfers', int(a[2]))
                res.count('generators in identity transfers satisfying genPlaced', int(a[1]))
            ask(toks, c_genhyp)
        # --- model: generators, rock types, print block, incon dict
        for dat, top, bot, rename, preserve, dres, empty_maps in dat_jobs:
            if real[0] != 'ok':
                continue
            m, cm = real[1], real[2]
            tgrid = quiet(t2grids.t2grid().fromgeo, t)
            qtree = mulgrids.quadtree(s.bounds, s.columnlist)
            incols = [1 if s.column_containing_point(c.centre, qtree=qtree) is not None else 0 for c in t.columnlist]
            toks = (['gen'] + qt + gs + gt + gens_tokens(dat)
                    + dictq_tokens([(b.name, b.volume) for b in dat.grid.blocklist])
                    + dictq_tokens([(b.name, b.volume) for b in tgrid.blocklist])
                    + list_tokens(incols, str) + list_tokens(top) + list_tokens(bot)
                    + (dict_tokens({}) + dict_tokens({}) if empty_maps else dict_tokens(m) + dict_tokens(cm))
                    + ['1' if rename else '0', '1' if preserve else '0'])

            def c_gen(line, kind=kind, s=s, t=t, dat=dat, dres=dres['gens'], rename=rename, preserve=preserve):
                f_dat['cases'] += 1
                mo = parse_gens_model(line, dat)
                if dres[0] == 'ok':
                    same = mo[0] == 'ok' and gens_equal(mo[1], dres[1])
                else:
                    same = mo[0] == 'exc' and mo[1] == dres[1]
                if not same:
                    disagree('data_transfer', f_dat, case_of(kind, s, t, {'part': 'generators', 'rename': rename, 'preserve': preserve}),
                             mo if mo[0] == 'exc' else ('ok', [x[1:] for x in mo[1]][:3]),
                             dres if dres[0] == 'exc' else ('ok', [x[1:] for x in dres[1]][:3]))
            ask(toks, c_gen)
            tb = [b.name for b in tgrid.blocklist]
            rock = [(b.name, b.rocktype.name) for b in dat.grid.blocklist]

            def c_rock(line, kind=kind, s=s, t=t, want=dres['rock']):
                f_dat['cases'] += 1
                w = ('ok ' + ' '.join([str(len(want[1]))] + [xs(x) for x in want[1]])) if want[0] == 'ok' else 'exc ' + want[1]
                if line != w:
                    disagree('data_transfer', f_dat, case_of(kind, s, t, {'part': 'rocktypes'}), line[:300], w[:300])
            ask(['rock'] + dict_tokens(dict(rock)) + dict_tokens(m) + list_tokens(tb), c_rock)
            if dres['full'][0] == 'ok':
                new = dres['full'][1]

                def c_pb(line, kind=kind, s=s, t=t, new=new):
                    f_dat['cases'] += 1
                    pb = new.parameter['print_block']
                    want = 'ok ' + ('-' if pb is None else xs(pb))
                    if line != want:
                        disagree('data_transfer', f_dat, case_of(kind, s, t, {'part': 'print_block'}), line, want)
                pb = dat.parameter['print_block']
                ask(['pb'] + dict_tokens(m) + list_tokens(tb) + ['-' if pb is None else xs(pb)], c_pb)

                def c_incd(line, kind=kind, s=s, t=t, new=new, dat=dat):
                    f_dat['cases'] += 1
                    keys = list(dat.incon.keys())
                    want = 'ok ' + ' '.join([str(len(new.incon))] + ['%s %d' % (xs(k), [i for i, kk in enumerate(keys) if dat.incon[kk] is v][0])
                                                                       for k, v in new.incon.items()])
                    if line != want:
                        disagree('data_transfer', f_dat, case_of(kind, s, t, {'part': 'incon dict'}), line[:300], want[:300])
                ask(['incd'] + dict_tokens(m) + list_tokens(tb) + list_tokens(list(dat.incon.keys())), c_incd)

                # transfer_from is the composition of the parts compared above
                if dres['gens'][0] == 'ok' and not gens_equal(canon_gens_real(new, dat), dres['gens'][1]):
                    disagree('data_transfer', f_dat, case_of(kind, s, t, {'part': 'transfer_from vs transfer_generators_from'}), 'n/a', 'differ')

    # --- pairs outside the hypotheses: correspondence only
    if ctx.model_ok and not only_oracle:
        f_out = res.facet('block_mapping_outside_hypotheses')
        for kind, s, t in gen_outside(ctx, ctx.rng('outside')):
            res.count('kind:' + kind)
            try:
                m, cm = quiet(s.block_mapping, t, True)
                real = ('ok', m, cm)
            except Exception as e:
                real = ('exc', type(e).__name__)
            res.count(kind + ':' + (real[0] if real[0] == 'ok' else real[1]))
            tie = False
            if real[0] == 'ok':
                sv = GeoView.__new__(GeoView)
                sv.centres = [fcentre(c) for c in s.columnlist]
                tie = any(len(nearest_info(sv, fcentre(c))[1]) > 1 for c in t.columnlist)
            qt = q_tokens(s, t, real, {'tie': tie})

            def c_out(line, kind=kind, s=s, t=t, real=real):
                f_out['cases'] += 1
                mo, re_ = canon_bm_model(line), canon_bm_real(real)
                if mo != re_:
                    disagree('block_mapping_outside_hypotheses', f_out, case_of(kind, s, t), mo[0] if mo[0] == 'ok' else mo, re_[0] if re_[0] == 'ok' else re_)
            ask(['bm'] + qt + geo_tokens(s) + geo_tokens(t), c_out)

            def c_outhyp(line, kind=kind, s=s, t=t, real=real):
                a = line.split()
                hold = a[0] == '1' and a[1] == '1' and a[2] == '1'
                res.count(kind + ':hypotheses ' + ('hold' if hold else 'fail (as intended)'))
                if hold and real[0] != 'ok':
                    disagree('block_mapping_outside_hypotheses', f_out, case_of(kind, s, t), 'hypotheses of block_mapping_total_partial hold', real)
            ask(['hyp'] + geo_tokens(s) + geo_tokens(t), c_outhyp)
    if reqs:
        replies = core.run_driver('drv_c19', reqs)
        for line, consume in zip(replies, post):
            if line.startswith('bad-request'):
                raise RuntimeError('driver rejected a request: ' + line)
            consume(line)
    for k, v in hyp.items():
        res.hyp[k] = v
    res.exhaustive = False
    return res


def search(ctx, seconds, res):
    """failing-input search on the real code (oracle only) over fresh seeds"""
    found = list(res.violations)
    known = core.known_keys(ID)
    found = [v for v in found if v['key'] not in known]
    t0 = time.time()
    k = 0
    while not found and time.time() - t0 < seconds:
        k += 1
        c2 = core.Ctx(ctx.prop, 'quick', ctx.seed + 1000 * k)
        c2.model_ok = False
        try:
            r = run(c2, only_oracle=True)
        finally:
            c2.cleanup()
        found = [v for v in r.violations if v['key'] not in known]
    return found


def replay(ctx, payload):
    c = payload.get('case') or {}
    if 'src' not in c:
        return False, 'replay file names what no longer checks: %s' % payload.get('broken')
    s, t = geo_from_json(c['src']), geo_from_json(c['tgt'])
    res = Result()
    key = payload.get('key', '')
    viol, info = oracle_mapping(c.get('kind', 'replay'), s, t, res)
    if c.get('src') == c.get('tgt'):
        viol += oracle_identity('replay', s, res)
    r = info['result']
    if 'incon' in c:
        import t2incons
        sinc = t2incons.t2incon()
        for name, vals, por in c['incon']:
            sinc[name] = t2incons.t2blockincon(vals, name, porosity=por)
        if r[0] == 'ok':
            v, _ = oracle_incon('replay', s, t, sinc, dict(r[1]), dict(r[2]), bool(c.get('explicit')), res)
        elif c.get('explicit'):
            em, ecm = explicit_maps(s, t)
            v, _ = oracle_incon('replay', s, t, sinc, em, ecm, True, res)
        else:
            v, _ = oracle_incon('replay', s, t, sinc, {}, {}, False, res)
        viol += v
    if 'generators' in c:
        import t2data, t2grids
        dat = t2data.t2data()
        dat.grid = quiet(t2grids.t2grid().fromgeo, s)
        rt = t2grids.rocktype()
        dat.grid.add_rocktype(rt)
        for d in c['generators']:
            dat.add_generator(t2data.t2generator(**d))
        v, _ = oracle_data_identity('replay', s, dat, c['top'], c['bottom'], c['rename'], c['preserve'], res)
        viol += v
    txt = 'block_mapping(source atm %d -> target atm %d): %s' % (s.atmosphere_type, t.atmosphere_type, r[0] if r[0] == 'ok' else r)
    for v in viol:
        txt += '\n  ' + v['key'] + ': ' + v['what']
    hit = [v for v in viol if v['key'] == key] or viol
    return bool(hit), txt
