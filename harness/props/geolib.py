"""Shared machinery of the C10 / C11 property modules (geometry editing, refinement).

  * recipes      JSON-able descriptions of start geometries, built through the public constructors
  * locators     columns / nodes are referred to by *geometry* (centre / position, as float.hex),
                 never by generated names: refine() names its new nodes and columns in set-iteration
                 order, which differs from process to process
  * operations   JSON-able edit operations and their application to a real mulgrid
  * exact geometry in `fractions.Fraction` (the exact value of every double)
  * GeoInv       the C10 invariant evaluated clause by clause on public attributes
"""
import io, os, copy, contextlib, importlib, itertools, math
from fractions import Fraction

Fr = Fraction


def load(reload=True):
    import geometry, fixed_format_file, mulgrids
    if reload:
        for m in (geometry, fixed_format_file, mulgrids):
            importlib.reload(m)
    return mulgrids


@contextlib.contextmanager
def quiet():
    with contextlib.redirect_stdout(io.StringIO()):
        yield


def fx(x):
    return Fraction(float(x))


def hx(x):
    return float(x).hex()


def unhx(s):
    return float.fromhex(s)


# ----------------------------------------------------------------------------- exact plane geometry

def cross(a, b):
    return a[0] * b[1] - b[0] * a[1]


def shoelace2(poly):
    """twice the signed area (exact)"""
    n = len(poly)
    return sum(cross(poly[i], poly[(i + 1) % n]) for i in range(n))


def colpoly(col):
    return [(fx(n.pos[0]), fx(n.pos[1])) for n in col.node]


def centroid_exact(poly):
    a2 = shoelace2(poly)
    n = len(poly)
    if a2 == 0:
        return (sum(p[0] for p in poly) / n, sum(p[1] for p in poly) / n)
    cx = sum((poly[i][0] + poly[(i + 1) % n][0]) * cross(poly[i], poly[(i + 1) % n]) for i in range(n))
    cy = sum((poly[i][1] + poly[(i + 1) % n][1]) * cross(poly[i], poly[(i + 1) % n]) for i in range(n))
    return (cx / (3 * a2), cy / (3 * a2))


def on_segment(p, a, b):
    """p on the closed segment ab (exact)"""
    if cross((b[0] - a[0], b[1] - a[1]), (p[0] - a[0], p[1] - a[1])) != 0:
        return False
    return min(a[0], b[0]) <= p[0] <= max(a[0], b[0]) and min(a[1], b[1]) <= p[1] <= max(a[1], b[1])


def locate(p, poly):
    """'in' / 'on' / 'out' for a simple polygon (exact crossing number)"""
    n = len(poly)
    inside = False
    for i in range(n):
        a, b = poly[i], poly[(i + 1) % n]
        if on_segment(p, a, b):
            return 'on'
        if (a[1] > p[1]) != (b[1] > p[1]):
            # x of the edge at height p.y
            x = a[0] + (p[1] - a[1]) * (b[0] - a[0]) / (b[1] - a[1])
            if p[0] < x:
                inside = not inside
    return 'in' if inside else 'out'


def seg_cross(a, b, c, d):
    """the open segments ab and cd cross at a single interior point (exact)"""
    def side(p, q, r):
        v = cross((q[0] - p[0], q[1] - p[1]), (r[0] - p[0], r[1] - p[1]))
        return (v > 0) - (v < 0)
    return side(a, b, c) * side(a, b, d) < 0 and side(c, d, a) * side(c, d, b) < 0


def boundary_sides(g):
    """(column, local side index) of the sides that belong to one column only, in a deterministic order"""
    count = {}
    for c in g.columnlist:
        k = len(c.node)
        for i in range(k):
            e = frozenset((id(c.node[i]), id(c.node[(i + 1) % k])))
            count[e] = count.get(e, 0) + 1
    out = []
    for c in sorted(g.columnlist, key=ckey):
        k = len(c.node)
        for i in range(k):
            if count[frozenset((id(c.node[i]), id(c.node[(i + 1) % k])))] == 1:
                out.append((c, i))
    return out


def overlaps_mesh(g, tri):
    """does the (counter-clockwise) polygon `tri` overlap the interior of any column? (exact)"""
    ctr = centroid_exact(tri)
    for c in g.columnlist:
        p = colpoly(c)
        if locate(ctr, p) == 'in' or any(locate(v, tri) == 'in' for v in p) or any(locate(v, p) == 'in' for v in tri):
            return True
        n, m = len(p), len(tri)
        if any(seg_cross(p[i], p[(i + 1) % n], tri[j], tri[(j + 1) % m]) for i in range(n) for j in range(m)):
            return True
        if any(locate(v, tri) == 'on' and v not in tri for v in p):
            return True        # a node of the mesh would hang on a side of the new column
    return False


# ----------------------------------------------------------------------------- recipes

def roundtrip_safe(g):
    """the geometry file keeps two decimals: a round trip is only a fair edit while no column side is shorter than
    0.25 (otherwise rounding the node positions can flatten or flip a column, which is a property of the file
    format, not of the editing code)"""
    for c in g.columnlist:
        k = len(c.node)
        for i in range(k):
            a, b = c.node[i].pos, c.node[(i + 1) % k].pos
            if (a[0] - b[0]) ** 2 + (a[1] - b[1]) ** 2 < 0.0625:
                return False
    return True


def patch_op(g, x, y, n):
    """the operation `reduce` to a connected patch of at most n columns around the column nearest to (x, y)
    (used to cut the shipped geometries down to size; being an operation, the oracle watches it like any other)"""
    c0 = min(g.columnlist, key=lambda c: (c.centre[0] - x) ** 2 + (c.centre[1] - y) ** 2)
    patch, frontier = [c0], [c0]
    seen = {id(c0)}
    while frontier and len(patch) < n:
        nxt = []
        for c in frontier:
            for nb in sorted(c.neighbour, key=ckey):
                if id(nb) not in seen and len(patch) < n:
                    seen.add(id(nb)); patch.append(nb); nxt.append(nb)
        frontier = nxt
    return ['reduce', {'cols': [col_loc(c) for c in patch]}]


def build(mg, recipe):
    """a real mulgrid from a recipe (dict).  Raises on a malformed recipe (machinery error)."""
    import numpy as np
    kind = recipe['kind']
    with quiet():
        if kind == 'rect':
            g = mg.mulgrid().rectangular(recipe['dx'], recipe['dy'], recipe['dz'],
                                         convention=recipe.get('convention', 0),
                                         atmos_type=recipe.get('atmos', 2),
                                         origin=recipe.get('origin', [0., 0., 0.]))
        elif kind == 'mixed':
            g = mg.mulgrid(convention=recipe.get('convention', 0), atmos_type=recipe.get('atmos', 2))
            for name, x, y in recipe['nodes']:
                g.add_node(mg.node(name, np.array([float(x), float(y)])))
            for name, nodes in recipe['columns']:
                g.add_column(mg.column(name, [g.node[n] for n in nodes]))
            for c in g.missing_connections:
                g.add_connection(c)
            g.add_layers(recipe['dz'], recipe.get('top', 0.))
            g.set_default_surface()
            g.identify_neighbours()
            g.setup_block_name_index()
            g.setup_block_connection_name_index()
        elif kind == 'file':
            from core import REPO
            g = mg.mulgrid(str(REPO / recipe['path']))
        else:
            raise ValueError('unknown recipe kind %r' % kind)
        for loc, z in recipe.get('surfaces', []):
            col = find_col(g, loc)
            col.surface = float(z)
            g.set_column_num_layers(col)
        if recipe.get('surfaces'):
            g.setup_block_name_index()
            g.setup_block_connection_name_index()
        for name, pts in recipe.get('wells', []):
            g.add_well(mg.well(name, [np.array([float(v) for v in p]) for p in pts]))
    return g


# ----------------------------------------------------------------------------- locators

def ckey(col):
    """a deterministic sort key for columns (names of refined columns depend on set iteration order)"""
    return (float(col.centre[0]), float(col.centre[1]))


def nkey(nd):
    return (float(nd.pos[0]), float(nd.pos[1]), nd.name)


def col_loc(col):
    return [hx(col.centre[0]), hx(col.centre[1])]


def node_loc(nd):
    return [hx(nd.pos[0]), hx(nd.pos[1])]


class Unresolved(Exception):
    """an operation of a recorded sequence refers to something that is not there (replay on a tree
    whose behaviour changed): the sequence ends here"""


def find_col(g, loc):
    x, y = unhx(loc[0]), unhx(loc[1])
    best = None
    for c in g.columnlist:
        if c.centre[0] == x and c.centre[1] == y:
            return c
    # tolerant fallback (a replay on a slightly different tree)
    for c in g.columnlist:
        d = abs(c.centre[0] - x) + abs(c.centre[1] - y)
        if best is None or d < best[0]:
            best = (d, c)
    if best is None or best[0] > 1e-6 * (1 + abs(x) + abs(y)):
        raise Unresolved('no column with centre %r' % ((x, y),))
    return best[1]


def find_node(g, loc, orphan=None):
    x, y = unhx(loc[0]), unhx(loc[1])
    cands = [n for n in g.nodelist if n.pos[0] == x and n.pos[1] == y]
    if orphan is not None:
        used = {id(n) for c in g.columnlist for n in c.node}
        cands = [n for n in cands if (id(n) not in used) == orphan] or cands
    if not cands:
        best = None
        for n in g.nodelist:
            d = abs(n.pos[0] - x) + abs(n.pos[1] - y)
            if best is None or d < best[0]:
                best = (d, n)
        if best is None or best[0] > 1e-6 * (1 + abs(x) + abs(y)):
            raise Unresolved('no node at %r' % ((x, y),))
        return best[1]
    return cands[0]


# ----------------------------------------------------------------------------- operations

BARE = {'add_node', 'delete_node', 'add_column', 'delete_column', 'add_connection', 'delete_connection',
        'add_layer', 'delete_layer', 'add_well', 'delete_well'}
# operations whose code ends by recomputing the block / connection name lists
REFRESHING = {'split_column', 'rename_column', 'rename_layer', 'copy_layers_from', 'snap_columns_to_layers',
              'snap_columns_to_nearest_layers', 'decompose_columns', 'refine', 'refine_layers', 'reduce',
              'fit_surface', 'setup_names', 'roundtrip'}
# operations that promise a valid mesh: nothing missing / extra / orphaned may be *introduced*
MESH_TRANSITION = {'refine', 'decompose_columns', 'split_column'}
# ... and those that repair the mesh: nothing missing / extra / orphaned may be *left*
MESH_ABSOLUTE = {'reduce', 'check_fix'}


def default_num_layers(g, surface):
    if not g.layerlist:
        return 0
    if surface is None:
        return len(g.layerlist) - 1
    return len([l for l in g.layerlist[1:] if l.bottom < surface])


def refine_unsupported(g, cols, bisect, edge):
    """does this refine() call involve a column with more than 4 sides (which refine does not support)?
    Mirrors how refine collects `columns_plus_edge`."""
    cols = cols or list(g.columnlist)
    involved = {id(c): c for c in list(cols) + list(edge)}
    for col in cols:
        if bisect:
            sides = col.bisection_sides(None if bisect is True else bisect)
            if sides is None:
                return True
            for i in sides:
                con = g.connection_with_nodes([col.node[i], col.node[(i + 1) % col.num_nodes]])
                if con:
                    for c in con.column:
                        involved[id(c)] = c
        else:
            for con in col.connection:
                for c in con.column:
                    involved[id(c)] = c
    return any(c.num_nodes not in (3, 4) for c in involved.values())


def apply_op(mg, g, op, tmpdir=None, info=None):
    """apply one JSON-able operation to the real geometry.
    returns (geometry afterwards, exception class name or None); `info` (a dict) receives the
    situation tags used to make finding keys specific"""
    import numpy as np
    name, a = op[0], (op[1] if len(op) > 1 else {})
    if info is None:
        info = {}
    try:
        with quiet():
            if name == 'add_node':
                g.add_node(mg.node(a['name'], np.array([unhx(a['pos'][0]), unhx(a['pos'][1])])))
            elif name == 'delete_node':
                g.delete_node(find_node(g, a['node'], orphan=True).name)
            elif name == 'add_column':
                nodes = [find_node(g, l) for l in a['nodes']]
                surface = None if a.get('surface') is None else unhx(a['surface'])
                col = mg.column(a['name'], nodes, surface=surface)
                # the caller hands over a column whose own fields are consistent (as subdivide_column does)
                col.num_layers = default_num_layers(g, surface)
                g.add_column(col)
            elif name == 'delete_column':
                g.delete_column(find_col(g, a['col']).name)
            elif name == 'add_connection':
                c0, c1 = find_col(g, a['cols'][0]), find_col(g, a['cols'][1])
                g.add_connection(mg.connection([c0, c1]))
            elif name == 'delete_connection':
                c0, c1 = find_col(g, a['cols'][0]), find_col(g, a['cols'][1])
                key = (c0.name, c1.name)
                if key not in g.connection and (c1.name, c0.name) in g.connection:
                    key = (c1.name, c0.name)
                g.delete_connection(key)
            elif name == 'add_layer':
                g.add_layer(mg.layer(a['name'], unhx(a['bottom']), unhx(a['centre']), unhx(a['top'])))
            elif name == 'delete_layer':
                g.delete_layer(a['name'])
            elif name == 'add_well':
                g.add_well(mg.well(a['name'], [np.array([unhx(v) for v in p]) for p in a['pos']]))
            elif name == 'delete_well':
                g.delete_well(a['name'])
            elif name == 'split_column':
                g.split_column(find_col(g, a['col']).name, find_node(g, a['node'], orphan=False).name)
            elif name == 'rename_column':
                olds = [find_col(g, l).name for l in a['cols']]
                if a.get('as_list', True):
                    g.rename_column(olds, list(a['new']))
                else:
                    g.rename_column(olds[0], a['new'][0])
            elif name == 'rename_layer':
                g.rename_layer(a['old'], a['new'])
            elif name == 'refine':
                cols = [find_col(g, l) for l in a.get('cols', [])]
                edge = [find_col(g, l) for l in a.get('edge', [])]
                try:
                    if refine_unsupported(g, cols, a.get('bisect', False), edge):
                        info['suffix'] = ':unsupported-column'
                except Exception:
                    pass
                g.refine(cols, bisect=a.get('bisect', False), bisect_edge_columns=edge)
            elif name == 'refine_layers':
                try:
                    g.refine_layers(list(a.get('layers', [])), factor=a.get('factor', 2))
                finally:
                    if g.layerlist and any(l.name == g.layerlist[0].name for l in g.layerlist[1:]):
                        info['suffix'] = ':atm-name-clash'     # the kept atmosphere layer name equals a generated name
            elif name == 'decompose_columns':
                g.decompose_columns([find_col(g, l) for l in a.get('cols', [])])
            elif name == 'triangulate_column':
                g.triangulate_column(find_col(g, a['col']).name)
                for c in g.missing_connections:
                    g.add_connection(c)
                g.identify_neighbours()
                g.setup_block_name_index()
                g.setup_block_connection_name_index()
            elif name == 'reduce':
                g.reduce([find_col(g, l) for l in a['cols']])
            elif name == 'snap_columns_to_layers':
                g.snap_columns_to_layers(unhx(a['min_thickness']), [find_col(g, l) for l in a.get('cols', [])])
            elif name == 'snap_columns_to_nearest_layers':
                g.snap_columns_to_nearest_layers([find_col(g, l) for l in a.get('cols', [])])
            elif name == 'fit_surface':
                data = np.array([[unhx(v) for v in p] for p in a['data']])
                g.fit_surface(data, alpha=unhx(a.get('alpha', hx(0.1))), beta=unhx(a.get('beta', hx(0.1))),
                              columns=[find_col(g, l) for l in a.get('cols', [])],
                              layer_snap=unhx(a.get('layer_snap', hx(0.0))), silent=True)
            elif name == 'translate':
                g.translate(np.array([unhx(v) for v in a['shift']]), wells=a.get('wells', False))
            elif name == 'rotate':
                centre = None if a.get('centre') is None else np.array([unhx(v) for v in a['centre']])
                g.rotate(unhx(a['angle']), centre, wells=a.get('wells', False))
            elif name == 'copy_layers_from':
                other = mg.mulgrid().rectangular([1.], [1.], [unhx(v) for v in a['dz']],
                                                 convention=g.convention, atmos_type=g.atmosphere_type,
                                                 origin=[0., 0., unhx(a['top'])])
                g.copy_layers_from(other)
            elif name == 'set_column_num_layers':
                # the public per-column recount (what read_surface / fit_surface / copy_layers_from call per column)
                for col in ([find_col(g, l) for l in a.get('cols', [])] or list(g.columnlist)):
                    g.set_column_num_layers(col)
            elif name == 'identify_neighbours':
                g.identify_neighbours()
            elif name == 'setup_names':
                g.setup_block_name_index()
                g.setup_block_connection_name_index()
            elif name == 'check_fix':
                g.check(fix=True, silent=True)
            elif name == 'delete_orphans':
                g.delete_orphans()
            elif name == 'roundtrip':
                path = os.path.join(str(tmpdir), 'rt_%d.dat' % os.getpid())
                g.write(path)
                g = mg.mulgrid(path)
                os.remove(path)
            else:
                raise ValueError('unknown operation %r' % (name,))
    except Unresolved:
        raise
    except ValueError as e:
        if 'unknown operation' in str(e):
            raise
        return g, type(e).__name__
    except Exception as e:
        return g, type(e).__name__
    return g, None


# ----------------------------------------------------------------------------- GeoInv (C10)

CLAUSES = ['registry', 'node-columns', 'column-connections', 'neighbours', 'connection-nodes',
           'orientation', 'num_layers', 'namelists', 'missing-connections', 'extra-connections', 'orphans']


def fresh_namelists(g):
    """what setup_block_name_index / setup_block_connection_name_index give now (state restored)"""
    saved = (g.block_name_list, g.block_name_index, g.block_connection_name_list, g.block_connection_name_index)
    try:
        with quiet():
            g.setup_block_name_index()
            g.setup_block_connection_name_index()
        return (list(g.block_name_list), dict(g.block_name_index),
                list(g.block_connection_name_list), dict(g.block_connection_name_index))
    except Exception as e:
        return ('exc', type(e).__name__)
    finally:
        (g.block_name_list, g.block_name_index, g.block_connection_name_list, g.block_connection_name_index) = saved


def geoinv(g):
    """The C10 invariant, clause by clause.
    returns {clause: {item: message}}; an item is (subkind, object ids...) — stable while the objects live"""
    out = {c: {} for c in CLAUSES}

    def add(clause, item, msg):
        out[clause][item] = msg

    nm = lambda o: getattr(o, 'name', '?')
    # --- by-name lookups and ordered lists agree
    for kind in ('node', 'column', 'layer', 'well'):
        lst, dct = getattr(g, kind + 'list'), getattr(g, kind)
        inlist = {id(o) for o in lst}
        if len(inlist) != len(lst):
            add('registry', ('dup-object', kind), '%slist holds the same object twice' % kind)
        seen = {}
        for o in lst:
            if o.name in seen:
                add('registry', ('dup-name', kind, id(o)), 'two %ss named %r in %slist' % (kind, o.name, kind))
            seen[o.name] = o
            if dct.get(o.name) is not o:
                add('registry', ('list-not-in-dict', kind, id(o)),
                    '%s %r is in %slist but %s[%r] is %s' % (kind, o.name, kind, kind, o.name,
                                                            'absent' if o.name not in dct else 'another object'))
        for k, o in dct.items():
            if o.name != k:
                add('registry', ('key-name', kind, id(o)), '%s[%r] is an object named %r' % (kind, k, o.name))
            if id(o) not in inlist:
                add('registry', ('dict-not-in-list', kind, id(o)), '%s[%r] is not in %slist' % (kind, k, kind))
    inlist = {id(o) for o in g.connectionlist}
    if len(inlist) != len(g.connectionlist):
        add('registry', ('dup-object', 'connection'), 'connectionlist holds the same object twice')
    for con in g.connectionlist:
        key = tuple(c.name for c in con.column)
        if g.connection.get(key) is not con:
            add('registry', ('con-list-not-in-dict', id(con)),
                'connection %s:%s is in connectionlist but connection[%r] is %s' % (
                    key[0], key[1], key, 'absent' if key not in g.connection else 'another object'))
    for k, con in g.connection.items():
        key = tuple(c.name for c in con.column)
        if key != tuple(k):
            add('registry', ('con-key', id(con)), 'connection[%r] joins columns %r' % (k, key))
        if id(con) not in inlist:
            add('registry', ('con-dict-not-in-list', id(con)), 'connection[%r] is not in connectionlist' % (k,))
    # --- each node knows exactly the columns that use it
    nodes_in = {id(n) for n in g.nodelist}
    cols_in = {id(c) for c in g.columnlist}
    users = {}
    for c in g.columnlist:
        for n in c.node:
            users.setdefault(id(n), set()).add(id(c))
            if id(n) not in nodes_in:
                add('node-columns', ('foreign-node', id(c), id(n)),
                    'column %r uses node %r which is not in the geometry' % (c.name, nm(n)))
    for n in g.nodelist:
        have = {id(c) for c in n.column}
        want = users.get(id(n), set())
        for cid in want - have:
            add('node-columns', ('missing', id(n), cid), 'node %r does not know a column that uses it' % n.name)
        for c in n.column:
            if id(c) not in want:
                add('node-columns', ('stale', id(n), id(c)),
                    'node %r lists column %r which %s' % (n.name, nm(c), 'does not use it' if id(c) in cols_in
                                                          else 'is not in the geometry'))
    # --- each column knows exactly its connections and neighbours (symmetrically)
    cons_of, nbrs_of = {}, {}
    for con in g.connectionlist:
        for i, c in enumerate(con.column):
            if id(c) not in cols_in:
                add('column-connections', ('foreign-column', id(con), id(c)),
                    'connection %r refers to column %r which is not in the geometry' % (con, nm(c)))
            cons_of.setdefault(id(c), set()).add(id(con))
            nbrs_of.setdefault(id(c), set()).add(id(con.column[1 - i]))
    for c in g.columnlist:
        have = {id(k) for k in c.connection}
        want = cons_of.get(id(c), set())
        for k in want - have:
            add('column-connections', ('missing', id(c), k), 'column %r does not know one of its connections' % c.name)
        for k in have - want:
            add('column-connections', ('stale', id(c), k), 'column %r lists a connection that is not (or no longer) its own' % c.name)
        have = {id(k) for k in c.neighbour}
        want = nbrs_of.get(id(c), set())
        for k in want - have:
            add('neighbours', ('missing', id(c), k), 'column %r is connected to a column that is not in its neighbour set' % c.name)
        for k in c.neighbour:
            if id(k) not in want:
                add('neighbours', ('stale', id(c), id(k)),
                    'column %r has neighbour %r without a connection between them' % (c.name, nm(k)))
            if not any(x is c for x in k.neighbour):
                add('neighbours', ('asymmetric', id(c), id(k)),
                    'column %r has neighbour %r, but not the other way round' % (c.name, nm(k)))
    # --- each connection's two nodes are the edge its two columns share
    for con in g.connectionlist:
        c0, c1 = con.column
        if con.node is None or len(con.node) != 2:
            add('connection-nodes', ('none', id(con)), 'connection %r has no node pair' % (con,))
            continue
        ok = True
        for c in (c0, c1):
            ids = [id(n) for n in c.node]
            k = len(ids)
            a, b = id(con.node[0]), id(con.node[1])
            if not any((ids[i] == a and ids[(i + 1) % k] == b) or (ids[i] == b and ids[(i + 1) % k] == a) for i in range(k)):
                ok = False
        if not ok:
            add('connection-nodes', ('not-shared-edge', id(con)),
                'the nodes %r of connection %r are not a side of both of its columns' % ([nm(n) for n in con.node], con))
    # --- every column is counter-clockwise with positive area and a layer count matching its surface
    for c in g.columnlist:
        if not all(math.isfinite(float(v)) for n in c.node for v in n.pos):
            add('orientation', ('non-finite', id(c)), 'column %r has a node at a non-finite position' % c.name)
            continue
        a2 = shoelace2(colpoly(c))
        if a2 <= 0:
            add('orientation', ('clockwise' if a2 < 0 else 'degenerate', id(c)),
                'column %r is %s (twice signed area %s)' % (c.name, 'clockwise' if a2 < 0 else 'degenerate', float(a2)))
        if not (c.area > 0):
            add('orientation', ('nonpositive-area', id(c)), 'column %r has area attribute %r' % (c.name, c.area))
        want = default_num_layers(g, c.surface)
        if c.num_layers != want:
            add('num_layers', ('mismatch', id(c)),
                'column %r has num_layers %r but %d layers lie below its surface %r' % (c.name, c.num_layers, want, c.surface))
    # --- the block and connection name lists are what a fresh recomputation gives
    fresh = fresh_namelists(g)
    if fresh[0] == 'exc':
        add('namelists', ('recompute-raises', fresh[1]), 'recomputing the name lists raises %s' % fresh[1])
    else:
        if list(g.block_name_list) != fresh[0]:
            add('namelists', ('blocks',), 'block_name_list (%d names) is not what setup_block_name_index gives (%d names)'
                % (len(g.block_name_list), len(fresh[0])))
        elif dict(g.block_name_index) != fresh[1]:
            add('namelists', ('block-index',), 'block_name_index does not match block_name_list')
        if list(g.block_connection_name_list) != fresh[2]:
            add('namelists', ('connections',),
                'block_connection_name_list (%d) is not what setup_block_connection_name_index gives (%d)'
                % (len(g.block_connection_name_list), len(fresh[2])))
        elif dict(g.block_connection_name_index) != fresh[3]:
            add('namelists', ('connection-index',), 'block_connection_name_index does not match its list')
    # --- valid mesh: missing / extra connections, orphans (computed from the node lists, not from back-references)
    edge_cols = {}
    for c in g.columnlist:
        k = len(c.node)
        for i in range(k):
            e = frozenset((id(c.node[i]), id(c.node[(i + 1) % k])))
            if len(e) == 2:
                edge_cols.setdefault(e, []).append(c)
    adjacent = {}
    for e, cs in edge_cols.items():
        for i in range(len(cs)):
            for j in range(i + 1, len(cs)):
                if cs[i] is not cs[j]:
                    adjacent[frozenset((id(cs[i]), id(cs[j])))] = (cs[i], cs[j])
    connected = {}
    for con in g.connectionlist:
        connected[frozenset((id(con.column[0]), id(con.column[1])))] = con
    for pair, (a, b) in adjacent.items():
        if pair not in connected:
            add('missing-connections', ('missing',) + tuple(sorted(pair)), 'columns %r and %r share a side but have no connection' % (a.name, b.name))
    for pair, con in connected.items():
        if pair not in adjacent:
            add('extra-connections', ('extra', id(con)), 'connection %r joins columns that share no side' % (con,))
    pos_count = {}
    for n in g.nodelist:
        pos_count[(float(n.pos[0]), float(n.pos[1]))] = pos_count.get((float(n.pos[0]), float(n.pos[1])), 0) + 1
    for n in g.nodelist:
        if id(n) not in users:
            dup = pos_count[(float(n.pos[0]), float(n.pos[1]))] > 1
            add('orphans', ('duplicate-position' if dup else 'isolated', id(n)),
                'node %r at %r belongs to no column%s' % (n.name, tuple(float(v) for v in n.pos),
                                                         ' (another node has the same position)' if dup else ''))
    out["_connected"] = is_connected(g)
    return out


INVARIANT_CLAUSES = ['registry', 'node-columns', 'column-connections', 'neighbours', 'connection-nodes',
                     'orientation', 'num_layers', 'namelists']
MESH_CLAUSES = ['missing-connections', 'extra-connections', 'orphans']
# operations that presuppose a valid mesh (they walk the boundary / rely on connections being complete)
NEEDS_VALID_MESH = {'refine', 'decompose_columns', 'split_column', 'fit_surface', 'triangulate_column'}


def consistent(inv):
    return not any(inv[c] for c in INVARIANT_CLAUSES)


def is_connected(g):
    """are all columns joined to each other through connections? (the property is about connected geometries)"""
    cols = g.columnlist
    if len(cols) <= 1:
        return True
    adj = {}
    for k in g.connectionlist:
        a, b = k.column
        adj.setdefault(id(a), []).append(b)
        adj.setdefault(id(b), []).append(a)
    seen, todo = {id(cols[0])}, [cols[0]]
    while todo:
        c = todo.pop()
        for d in adj.get(id(c), []):
            if id(d) not in seen:
                seen.add(id(d))
                todo.append(d)
    return all(id(c) in seen for c in cols)


def mesh_valid(inv):
    return not any(inv[c] for c in MESH_CLAUSES) and inv.get('_connected', True)


SOFT_CLAUSES = ['namelists', 'num_layers']        # what the bare add_/delete_ operations are known to leave stale
# operations that recompute every column's layer count
LAYER_RESET = {'refine_layers', 'copy_layers_from', 'roundtrip'}


def hard_damage(inv):
    return any(inv[c] for c in INVARIANT_CLAUSES if c not in SOFT_CLAUSES)


def judge(name, exc, prev, cur, suffix=''):
    """violations introduced by one operation.  Soundness rules:
      * an operation is blamed for what it *breaks* only when the state before it satisfied the invariant (what
        happens from an inconsistent state is outside the property: the first break is the counterexample);
      * refine / decompose / split are blamed only when the mesh before them was valid and connected;
      * what an operation *promises regardless of the state it starts from* is demanded even after earlier (known)
        damage of the soft kind (stale name lists / layer counts left by bare edits): the name lists are fresh after
        every operation that ends by recomputing them, the layer counts match after every operation that recomputes
        them for all columns, and nothing is missing / extra / orphaned after reduce and check(fix=True);
      * mesh validity is otherwise demanded only as "nothing new" after refine / decompose_columns / split_column;
        a file round trip must not add any;
      * nothing is judged from a state whose registries or back-references are already broken."""
    if hard_damage(prev):
        return []
    damaged = not consistent(prev)
    if name in NEEDS_VALID_MESH and (damaged or not mesh_valid(prev)):
        return []
    out = []
    for clause in CLAUSES:
        items = cur[clause]
        if not items:
            continue
        if clause in MESH_CLAUSES:
            if name in MESH_ABSOLUTE and exc is None:
                new = items
            elif damaged:
                new = {}
            elif name == 'roundtrip':
                new = items if len(items) > len(prev[clause]) else {}
            elif name in MESH_TRANSITION or exc is not None:
                new = {k: v for k, v in items.items() if k not in prev[clause]}
            else:
                new = {}
        elif clause == 'namelists':
            if name in REFRESHING and exc is None:
                new = items
            elif damaged:
                new = {}
            else:
                new = items
        elif clause == 'num_layers':
            if name in LAYER_RESET and exc is None:
                new = items
            elif damaged:
                new = {}
            else:
                new = items
        else:
            new = items if (not damaged or exc is None) else {}     # the state before had no damage of this kind
        kinds = {}
        for item, msg in new.items():
            kinds.setdefault(item[0], []).append(msg)
        for sub, msgs in sorted(kinds.items()):
            key = '%s:%s@%s%s%s' % (clause, sub, name, '!' + exc if exc else '', suffix)
            out.append({'key': key,
                        'what': 'after %s%s: %s%s' % (name, ' (which raised %s)' % exc if exc else '', msgs[0],
                                                       ' (+%d more)' % (len(msgs) - 1) if len(msgs) > 1 else '')})
    return out


def judge_start(inv):
    """the start geometry was built by the library's own constructors (rectangular, the file reader, or add_node /
    add_column / add_connection / add_layers from the empty geometry): it is itself the result of a sequence of
    edits and must satisfy the invariant (mesh validity is not demanded: shipped files may lack connections)"""
    out = []
    for clause in INVARIANT_CLAUSES:
        kinds = {}
        for item, msg in inv[clause].items():
            kinds.setdefault(item[0], []).append(msg)
        for sub, msgs in sorted(kinds.items()):
            out.append({'key': '%s:%s@build' % (clause, sub), 'step': -1,
                        'what': 'in the geometry as constructed: %s%s' % (msgs[0], ' (+%d more)' % (len(msgs) - 1) if len(msgs) > 1 else '')})
    return out


def run_sequence(mg, recipe, ops, tmpdir=None, known=(), observer=None):
    """apply `ops` to the geometry of `recipe`, evaluating GeoInv after every operation.
    The sequence ends at the first violation whose key is not in `known`, or at an exception.
    returns (violations, trace, final geometry)"""
    g = build(mg, recipe)
    prev = geoinv(g)
    viol, trace = judge_start(prev), []
    if any(v['key'] not in known for v in viol):
        return viol, trace, g
    if observer is not None and hasattr(observer, 'start'):
        observer.start(g, prev, {'step': -1})
    for step, op in enumerate(ops):
        name = op[0]
        snap = observer.before(step, op, g) if observer else None
        info = {}
        try:
            g, exc = apply_op(mg, g, op, tmpdir, info)
        except Unresolved as e:
            trace.append({'op': name, 'exc': 'unresolved: %s' % e})
            break
        cur = geoinv(g)
        if observer:
            observer.after(step, op, g, exc, snap, prev, cur, info)
        vs = judge(name, exc, prev, cur, info.get('suffix', ''))
        for v in vs:
            v['step'] = step
        viol += vs
        trace.append({'op': name, 'exc': exc, 'consistent': consistent(cur), 'mesh_valid': mesh_valid(cur), 'hard': hard_damage(cur)})
        prev = cur
        if exc is not None or any(v['key'] not in known for v in vs):
            break
    return viol, trace, g


# ----------------------------------------------------------------------------- C11: conservation, tiling, conformity

C11_OPS = {'refine', 'split_column', 'triangulate_column', 'decompose_columns', 'refine_layers'}
REL_EXACT, REL_FLOAT = Fraction(1, 10 ** 12), 1e-9


def rock_volume(g):
    """sum of block_volume over the non-atmosphere blocks of block_name_list (the real code's numbers)"""
    tot = 0.0
    for blk in g.block_name_list[g.num_atmosphere_blocks:]:
        v = g.block_volume(g.layer[g.layer_name(blk)], g.column[g.column_name(blk)])
        if v is None:
            return None
        tot += float(v)
    return tot


def exact_volume(g):
    """the same sum in exact arithmetic from first principles: for every column, every layer whose
    bottom lies below the surface contributes (min(top, surface) - bottom) * area, except that a surface
    above the ground level extends the first layer"""
    if len(g.layerlist) < 2:
        return Fraction(0)
    ground = fx(g.layerlist[0].top)
    tot = Fraction(0)
    for c in g.columnlist:
        a = abs(shoelace2(colpoly(c))) / 2
        for i, l in enumerate(g.layerlist[1:]):
            b, t = fx(l.bottom), fx(l.top)
            if c.surface is None:
                tot += (t - b) * a
                continue
            s = fx(c.surface)
            if not b < s:
                continue                      # the layer lies above ... no: below the surface? it is outside the column
            if s < t:
                top = s                       # surface inside this layer
            elif s > ground and i == 0:
                top = s                       # surface above ground level: the first layer reaches up to it
            else:
                top = t
            tot += (top - b) * a
    return tot


def hanging_nodes(g):
    """nodes lying strictly inside a side of some column: {(node position, side end positions)}"""
    import numpy as np
    nodes = g.nodelist
    if not nodes:
        return set()
    P = np.array([[float(n.pos[0]), float(n.pos[1])] for n in nodes])
    scale = max(1.0, float(np.abs(P).max()))
    out = set()
    seen = set()
    for c in g.columnlist:
        k = len(c.node)
        for i in range(k):
            a, b = c.node[i], c.node[(i + 1) % k]
            e = frozenset((id(a), id(b)))
            if e in seen or len(e) < 2:
                continue
            seen.add(e)
            ax, ay, bx, by = float(a.pos[0]), float(a.pos[1]), float(b.pos[0]), float(b.pos[1])
            cr = (bx - ax) * (P[:, 1] - ay) - (by - ay) * (P[:, 0] - ax)
            dt = (P[:, 0] - ax) * (bx - ax) + (P[:, 1] - ay) * (by - ay)
            l2 = (bx - ax) ** 2 + (by - ay) ** 2
            cand = np.nonzero((np.abs(cr) <= 1e-7 * scale * scale) & (dt > 0) & (dt < l2))[0]
            for j in cand:
                n = nodes[j]
                if n is a or n is b:
                    continue
                p, pa, pb = (fx(n.pos[0]), fx(n.pos[1])), (fx(ax), fx(ay)), (fx(bx), fx(by))
                if p != pa and p != pb and on_segment(p, pa, pb):
                    out.add(((float(p[0]), float(p[1])), (ax, ay), (bx, by)))
    return out


class C11Observer:
    """evaluates the C11 statement around every refining operation of a sequence"""

    def __init__(self, rng=None, points_per_column=3):
        self.rng = rng
        self.ppc = points_per_column
        self.violations = []
        self.checked = 0
        self.stats = {}

    def before(self, step, op, g):
        if op[0] not in C11_OPS:
            return None
        snap = {'cols': [(c.name, colpoly(c), c.surface, float(c.area), tuple(id(n) for n in c.node), id(c)) for c in g.columnlist],
                'area': float(g.area), 'hanging': hanging_nodes(g),
                'layers': [(l.name, float(l.bottom), float(l.top)) for l in g.layerlist]}
        try:
            with quiet():
                snap['volume'] = rock_volume(g)
        except Exception:
            snap['volume'] = None
        snap['xvolume'] = exact_volume(g)
        return snap

    def after(self, step, op, g, exc, snap, prev, cur, info=None):
        name = op[0]
        suffix = (info or {}).get('suffix', '')
        if snap is None:
            return
        # the statement presupposes a consistent, valid, conforming start geometry
        if not consistent(prev) or not mesh_valid(prev) or snap['hanging']:
            return
        self.checked += 1
        self.stats[name] = self.stats.get(name, 0) + 1
        raised = '!' + exc if exc is not None else ''

        def bad(key, what):
            self.violations.append({'key': '%s@%s%s%s' % (key, name, raised, suffix),
                                    'what': 'after %s%s: %s' % (name, ' (which raised %s)' % exc if exc else '', what), 'step': step})

        # when every coordinate is a small dyadic number the real code's mid-side positions are exact and
        # equalities are demanded exactly; otherwise (shipped geometries, rotations) rounding of the node
        # positions is allowed for: |coordinate| * 2^-50 per vertex
        coords = [abs(v) for _, p, _, _, _, _ in snap['cols'] for q in p for v in q] + \
                 [abs(fx(v)) for n in g.nodelist for v in n.pos]
        cmax = max(coords) if coords else Fraction(0)
        dyadic = all(v.denominator <= 1024 for v in coords) and cmax < 2 ** 20
        slack = Fraction(0) if dyadic else cmax * Fraction(1, 2 ** 48)        # absolute position error allowed

        def close(a, b, rel):
            return abs(a - b) <= rel * max(abs(a), abs(b), 1)

        def close_area(a, b, perimeter):
            return a == b if dyadic else abs(a - b) <= slack * perimeter + REL_EXACT * max(abs(a), abs(b))

        def perim(poly):
            return sum(abs(poly[i][0] - poly[(i + 1) % len(poly)][0]) + abs(poly[i][1] - poly[(i + 1) % len(poly)][1])
                       for i in range(len(poly)))

        def near(pt, poly):
            # within `slack` of the closed polygon (only used when a vertex was classified 'out')
            n = len(poly)
            for i in range(n):
                a, b = poly[i], poly[(i + 1) % n]
                d = (b[0] - a[0], b[1] - a[1])
                l2 = d[0] * d[0] + d[1] * d[1]
                if l2 == 0:
                    continue
                t = max(Fraction(0), min(Fraction(1), ((pt[0] - a[0]) * d[0] + (pt[1] - a[1]) * d[1]) / l2))
                q = (a[0] + t * d[0] - pt[0], a[1] + t * d[1] - pt[1])
                if q[0] * q[0] + q[1] * q[1] <= slack * slack * 4:
                    return True
            return False

        # --- total plan area (the attribute the property observes, and the exact polygons)
        old_x = sum(abs(shoelace2(p)) for _, p, _, _, _, _ in snap['cols']) / 2
        new_polys = [(c, colpoly(c)) for c in g.columnlist]
        new_x = sum(abs(shoelace2(p)) for _, p in new_polys) / 2
        if not close_area(new_x, old_x, sum(perim(p) for _, p in new_polys)):
            bad('area-polygons', 'the column polygons cover %s, before %s' % (float(new_x), float(old_x)))
        if not close(float(g.area), snap['area'], REL_FLOAT):
            bad('area-attribute', 'mulgrid.area is %r, before %r (polygons: %s)' % (float(g.area), snap['area'], float(new_x)))
        # --- total rock volume
        xv = exact_volume(g)
        if not (xv == snap['xvolume'] if dyadic and name != 'refine_layers' else close(xv, snap['xvolume'], Fraction(1, 10 ** 9))):
            bad('volume-exact', 'rock volume computed from polygons, layers and surfaces is %s, before %s' % (float(xv), float(snap['xvolume'])))
        if exc is not None:
            return        # the operation gave up half way: only the totals can be judged
        if snap['volume'] is not None and not cur['namelists']:
            try:
                with quiet():
                    v = rock_volume(g)
            except Exception as e:
                v = None
                bad('volume-raises', 'summing block_volume over block_name_list raises %s' % type(e).__name__)
            if v is not None and not close(v, snap['volume'], REL_FLOAT):
                bad('volume-blocks', 'sum of block_volume over block_name_list is %r, before %r' % (v, snap['volume']))
        if name == 'refine_layers':
            old_b = {b for _, b, _ in snap['layers']}
            new_b = {float(l.bottom) for l in g.layerlist}
            lost = [b for b in old_b if not any(abs(b - x) <= 1e-9 * max(1, abs(b)) for x in new_b)]
            if lost:
                bad('layer-boundary-lost', 'layer boundary at %r is no longer a layer boundary' % lost[0])
            return
        # --- tiling: every new column lies inside the old column containing it and inherits its surface
        old = snap['cols']
        old_by_nodes = {(o[4]): o for o in old}
        obox = [(min(p[0] for p in o[1]), max(p[0] for p in o[1]), min(p[1] for p in o[1]), max(p[1] for p in o[1])) for o in old]
        children = {}
        for c, p in new_polys:
            same = old_by_nodes.get(tuple(id(n) for n in c.node))
            if same is not None and same[5] == id(c):
                continue            # untouched column
            if shoelace2(p) <= 0:
                bad('orientation', 'new column %r is not counter-clockwise' % c.name)
                continue
            ctr = centroid_exact(p)
            parent = None
            for k, o in enumerate(old):
                bx = obox[k]
                if bx[0] <= ctr[0] <= bx[1] and bx[2] <= ctr[1] <= bx[3] and locate(ctr, o[1]) == 'in':
                    parent = k
                    break
            if parent is None:
                bad('tiling:outside-domain', 'new column %r has its centroid in no column of the old geometry' % c.name)
                continue
            o = old[parent]
            if any(locate(v, o[1]) == 'out' and not near(v, o[1]) for v in p):
                bad('tiling:outside-parent', 'new column %r sticks out of the old column %r that contains its centroid' % (c.name, o[0]))
            so, sn = o[2], c.surface
            if (so is None) != (sn is None) or (so is not None and float(so) != float(sn)):
                bad('tiling:surface', 'new column %r has surface %r, the old column %r containing it had %r' % (c.name, sn, o[0], so))
            children.setdefault(parent, []).append((c, p))
        for k, ch in children.items():
            o = old[k]
            if not close_area(sum(shoelace2(p) for _, p in ch), shoelace2(o[1]), 2 * sum(perim(p) for _, p in ch)):
                bad('tiling:parent-area', 'the new columns inside old column %r have total area %s, the old column %s'
                    % (o[0], float(sum(shoelace2(p) for _, p in ch)) / 2, float(shoelace2(o[1])) / 2))
            # points of the old column: exactly one new column contains each.  Sample points are taken well inside
            # the new columns (convex combinations of a new column's vertices with every weight >= 1/8) and at the
            # old column's centroid; a point closer than 1e-6 x (longest side) to any side is not used (the mid-side
            # nodes are rounded doubles: a sliver of width 1e-13 along a refined side changes hands)
            def clear_of_sides(q, poly, tol2):
                m = len(poly)
                for i in range(m):
                    a, b = poly[i], poly[(i + 1) % m]
                    d = (b[0] - a[0], b[1] - a[1])
                    l2 = d[0] * d[0] + d[1] * d[1]
                    if l2 == 0:
                        continue
                    t = max(Fraction(0), min(Fraction(1), ((q[0] - a[0]) * d[0] + (q[1] - a[1]) * d[1]) / l2))
                    e = (a[0] + t * d[0] - q[0], a[1] + t * d[1] - q[1])
                    if e[0] * e[0] + e[1] * e[1] <= tol2:
                        return False
                return True

            longest2 = max((o[1][i][0] - o[1][(i + 1) % len(o[1])][0]) ** 2 + (o[1][i][1] - o[1][(i + 1) % len(o[1])][1]) ** 2
                           for i in range(len(o[1])))
            tol2 = longest2 * Fraction(1, 10 ** 12)
            pts = [centroid_exact(o[1])]
            for _, p in ch[:max(4, self.ppc)]:
                m = len(p)
                if self.rng is not None:
                    w = [self.rng.randint(1, 8) for _ in range(m)]
                else:
                    w = [1] * m
                tot = sum(w) + m          # every weight at least 1/(tot) ... and at most (8+1)/tot
                pts.append((sum((w[i] + 1) * p[i][0] for i in range(m)) / Fraction(tot),
                            sum((w[i] + 1) * p[i][1] for i in range(m)) / Fraction(tot)))
            for q in pts:
                if locate(q, o[1]) != 'in' or not clear_of_sides(q, o[1], tol2):
                    continue
                if not all(clear_of_sides(q, p, tol2) for _, p in ch):
                    continue
                where = [locate(q, p) for _, p in ch]
                if where.count('in') != 1:
                    bad('tiling:point-count', 'the point %r of old column %r lies in %d of the new columns'
                        % ((float(q[0]), float(q[1])), o[0], where.count('in')))
                    break
        # --- conforming mesh
        hang = hanging_nodes(g)
        for h in sorted(hang)[:1]:
            bad('hanging-node', 'the node at %r lies inside the side %r-%r of another column' % h)
        for clause, key in (('missing-connections', 'edge-without-connection'), ('extra-connections', 'connection-without-edge')):
            new = [m for k, m in cur[clause].items() if k not in prev[clause]]
            if new:
                bad(key, new[0])
